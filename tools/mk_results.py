#!/usr/bin/env python3
"""Rebuilds seeded/RESULTS.md from the checks_run recorded in every seeded/<id>/meta.json
(the shards of tools/seeded_sweep.py write there) and normalises seeded/FIX_REVERTS.md."""
import json, os, re

VERIF = os.path.dirname(os.path.dirname(os.path.abspath(__file__)))
SEEDED = os.path.join(VERIF, "seeded")


def cell(s):
    return s.replace("|", "/").replace("\n", " ")


def main():
    rows = []
    for sid in sorted(os.listdir(SEEDED)):
        mp = os.path.join(SEEDED, sid, "meta.json")
        if not os.path.exists(mp):
            continue
        m = json.load(open(mp))
        res = m.get("checks_run") or []
        caught = [r["check"] for r in res if r.get("caught")]
        viol = "; ".join(v for r in res for v in r.get("violations", []))
        rows.append((sid, m["breaks_property"], ", ".join(caught) or ("MISSED" if res else "not run"), cell(viol)[:150], cell(m.get("summary", ""))[:110]))
    with open(os.path.join(SEEDED, "RESULTS.md"), "w") as f:
        f.write("# Seeded changes (written by independent sub-agents that saw only the property text) and the checks that catch them\n\n")
        f.write("Each change was confirmed first (tools/confirm_seeded.py: existing tests still pass with it, the demonstration fails with it and passes without it), then the quick check of the property was run against it in a scratch worktree (tools/seeded_sweep.py; budget and exit code per run in each meta.json: checks_run). Violation keys are written prop/class/signature.\n\n")
        f.write("| id | written against | caught by | violation class(es) reported | change |\n|---|---|---|---|---|\n")
        for r in rows:
            f.write("| " + " | ".join(r) + " |\n")
    rp = os.path.join(SEEDED, "FIX_REVERTS.md")
    if os.path.exists(rp):
        out = []
        for l in open(rp):
            if l.startswith("| ") and not l.startswith("| fix commit") and not l.startswith("|---"):
                f = l.strip()[2:-2].split(" | ")
                f = [cell(x) for x in f]
                while len(f) < 4:
                    f.append("")
                l = "| " + " | ".join(f[:4]) + " |\n"
            out.append(l)
        open(rp, "w").writelines(out)
    print(len(rows), "rows; missed:", [r[0] for r in rows if r[2] in ("MISSED", "not run")])


if __name__ == "__main__":
    main()
