#!/usr/bin/env python3
"""Confirm a seeded change produced by an independent sub-agent, in a scratch worktree of /repo:
  1. the patch applies to /repo's HEAD and the touched packages (and their own tests) still build and pass,
  2. the demonstration FAILS with the change and PASSES without it.
Only then is it copied to /verif/seeded/<id>/ (patch.diff, demo/, meta.json).

usage: confirm_seeded.py <out-dir of the agent, e.g. /tmp/mut/C05-out/m1> <seeded id, e.g. C05-m1>
"""
import json, os, re, shutil, subprocess, sys

BK = "/var/tmp/buildkit/gotest.sh"
WT = os.environ.get("CONFIRM_WT", "/var/tmp/confirmwt")
VERIF = os.path.dirname(os.path.dirname(os.path.abspath(__file__)))


def sh(cmd, **kw):
    return subprocess.run(cmd, shell=True, capture_output=True, text=True, **kw)


def main():
    out, sid = os.path.abspath(sys.argv[1]), sys.argv[2]
    prop = sid.split("-")[0]
    if not os.path.isdir(WT):
        r = sh("git -C /repo worktree add -q --detach %s HEAD" % WT)
        if r.returncode:
            print(r.stderr); return 2
    head = sh("git -C /repo rev-parse HEAD").stdout.strip()
    sh("git -C %s checkout -q --detach %s && git -C %s checkout -q -- . && git -C %s clean -fdq" % (WT, head, WT, WT))
    patch = os.path.join(out, "patch.diff")
    if sh("git -C %s apply --check %s" % (WT, patch)).returncode:
        print(sid, "PATCH-DOES-NOT-APPLY"); return 1
    readme = open(os.path.join(out, "demo", "README.txt")).read() if os.path.exists(os.path.join(out, "demo", "README.txt")) else ""
    orig_wt = re.search(r"(/tmp/mut[234]?/C\d\d)\b", readme)
    orig_wt = orig_wt.group(1) if orig_wt else os.path.dirname(os.path.dirname(out)).rstrip("/") + "/" + prop
    # demo files and their destination package
    demos = []
    for fn in sorted(os.listdir(os.path.join(out, "demo"))):
        if not fn.endswith(".go"):
            continue
        dest = None
        m = re.search(r"cp\s+\S*" + re.escape(fn) + r"\s+(\S+)", readme)
        if m:
            dest = m.group(1).replace(orig_wt, WT).rstrip("/")
            if not dest.startswith(WT):
                dest = os.path.join(WT, dest.lstrip("./"))
            if dest.endswith(".go"):
                dest = os.path.dirname(dest)
        if dest is None:
            m = re.search(r"into\s+`?([a-zA-Z0-9_/.-]+)/?`?", readme)
            if m and os.path.isdir(os.path.join(WT, m.group(1).strip("`/"))):
                dest = os.path.join(WT, m.group(1).strip("`/"))
        if dest is None or not os.path.isdir(dest):
            print(sid, "CANNOT-LOCATE-DEMO-PACKAGE for", fn); return 1
        demos.append((os.path.join(out, "demo", fn), dest))
    pkgs = sorted({"./" + os.path.relpath(d, WT) for _, d in demos})
    runpat = "|".join(sorted(set(re.findall(r"-run\s+'?\"?([A-Za-z0-9_|^$]+)", readme)))) or "."
    demo_cmd = "%s %s -count=1 -run '%s' %s" % (BK, WT, runpat, " ".join(pkgs))

    def place(on):
        for src, d in demos:
            p = os.path.join(d, os.path.basename(src))
            if on:
                shutil.copy(src, p)
            elif os.path.exists(p):
                os.remove(p)
        # test-only helper files the agent may have added next to the demo (e.g. export_test.go)
    res = {"id": sid, "property": prop, "repo_head": head, "demo_cmd": demo_cmd}
    # with the change: demo must fail
    sh("git -C %s apply %s" % (WT, patch)); place(True)
    r = sh(demo_cmd); res["demo_with_change"] = "FAIL" if r.returncode else "PASS"
    tail_with = (r.stdout + r.stderr)[-1500:]
    # without: must pass
    sh("git -C %s checkout -q -- ." % WT)
    r = sh(demo_cmd); res["demo_without_change"] = "PASS" if r.returncode == 0 else "FAIL"
    tail_without = (r.stdout + r.stderr)[-800:]
    place(False)
    # existing tests of the touched packages with the change
    sh("git -C %s apply %s" % (WT, patch))
    touched = sorted({"./" + os.path.dirname(l[6:]) for l in open(patch) if l.startswith("+++ b/")})
    extra = [p for p in ("./chain", "./consensus/...", "./mempool", "./syncer") if p.split("/")[1] in " ".join(touched) or True]
    # packages that build without package contract are tested natively (the patched zerolog of the
    # build kit changes two logging tests of package types); everything else through the build kit
    native_env = "cd %s && GOFLAGS=-mod=mod GOPROXY=off GOSUMDB=off GOTOOLCHAIN=local " % WT
    ok_all, cmds = True, []
    for pkg in sorted(set(touched)):
        c = native_env + "go test -count=1 %s" % pkg
        r = sh(c)
        if r.returncode != 0 and "--- FAIL" not in (r.stdout + r.stderr):
            # does not build natively (package contract needs LuaJIT): use the build kit
            c = "%s %s -count=1 %s" % (BK, WT, pkg)
            r = sh(c)
        cmds.append(c)
        ok_all = ok_all and r.returncode == 0
        if r.returncode != 0:
            break
    if ok_all:
        c = "%s %s -count=1 %s" % (BK, WT, " ".join(sorted(set(extra))))
        r = sh(c)
        cmds.append(c)
        ok_all = r.returncode == 0
    test_cmd = " ; ".join(cmds)
    res["existing_tests_with_change"] = "PASS" if ok_all else "FAIL"
    res["existing_tests_cmd"] = test_cmd
    tail_tests = "\n".join(l for l in (r.stdout + r.stderr).splitlines() if not l.startswith("{"))[-800:]
    sh("git -C %s checkout -q -- . && git -C %s clean -fdq" % (WT, WT))
    ok = res["demo_with_change"] == "FAIL" and res["demo_without_change"] == "PASS" and res["existing_tests_with_change"] == "PASS"
    res["confirmed"] = ok
    print(json.dumps(res))
    if not ok:
        print("--- with change:\n", tail_with, "\n--- without:\n", tail_without, "\n--- tests:\n", tail_tests)
        return 1
    dst = os.path.join(VERIF, "seeded", sid)
    if os.path.exists(dst):
        shutil.rmtree(dst)
    os.makedirs(dst)
    shutil.copy(patch, os.path.join(dst, "patch.diff"))
    shutil.copytree(os.path.join(out, "demo"), os.path.join(dst, "demo"))
    meta = json.load(open(os.path.join(out, "meta.json"))) if os.path.exists(os.path.join(out, "meta.json")) else {}
    meta = {"breaks_property": prop, "summary": meta.get("summary", ""), "needs_to_manifest": meta.get("needs_to_manifest", ""),
            "why_tests_pass": meta.get("why_tests_pass", ""), "author": "independent sub-agent (saw only the property text)",
            "confirmed_by_me": res, "checks_run": []}
    json.dump(meta, open(os.path.join(dst, "meta.json"), "w"), indent=1)
    return 0


if __name__ == "__main__":
    sys.exit(main())
