#!/usr/bin/env python3
"""Sensitivity of the checks to the defects that were repaired in /repo: for every "fixed" entry of
known_findings.json, undo its fix commit in a scratch worktree of /repo (never in /repo itself), run
the quick check of the entry's property against that tree and expect exit 1 (a VIOLATION line).

usage: fix_revert_sweep.py [commit ...]      (default: every fix commit listed in known_findings.json)
Writes /verif/seeded/FIX_REVERTS.md.
"""
import json, os, re, subprocess, sys, time

VERIF = os.path.dirname(os.path.dirname(os.path.abspath(__file__)))
WT = os.environ.get("REVERT_WT", "/var/tmp/revertwt")
BUDGET = os.environ.get("SWEEP_QUICK_S", "40")
# a fix is also (or better) seen by the check of another property
ALSO = {"518724ac": ["C14"]}


def sh(cmd):
    return subprocess.run(cmd, shell=True, capture_output=True, text=True)


def main():
    kf = json.load(open(os.path.join(VERIF, "known_findings.json")))["findings"]
    by_commit = {}
    for k in kf:
        if k.get("status") == "fixed" and k.get("commit"):
            by_commit.setdefault(k["commit"], []).append(k)
    commits = sys.argv[1:] or list(by_commit)
    head = sh("git -C /repo rev-parse HEAD").stdout.strip()
    if not os.path.isdir(WT):
        r = sh("git -C /repo worktree add -q --detach %s HEAD" % WT)
        if r.returncode:
            print(r.stderr)
            return 2
    rows = []
    for c in commits:
        ents = by_commit.get(c, [])
        props = sorted({e["property"] for e in ents}) + ALSO.get(c, [])
        sh("git -C %s checkout -q --detach %s && git -C %s reset -q --hard && git -C %s clean -fdq" % (WT, head, WT, WT))
        r = sh("git -C %s revert --no-commit %s" % (WT, c))
        if r.returncode:
            sh("git -C %s revert --abort; git -C %s reset -q --hard" % (WT, WT))
            rows.append((c, ",".join(props), "revert does not apply cleanly (later fixes build on it)", ""))
            print(rows[-1], flush=True)
            continue
        patch = "/var/tmp/revert-%s.diff" % c
        # only the non-test sources: the fix's own regression tests stay
        d = sh("git -C %s diff --cached HEAD -- . ':(exclude)*_test.go'" % WT).stdout
        open(patch, "w").write(d)
        sh("git -C %s reset -q --hard" % WT)
        for p in props:
            env = dict(os.environ, SEED_WT=WT, VERIF_QUICK_S=BUDGET, TAILN="40")
            t0 = time.time()
            rr = subprocess.run([os.path.join(VERIF, "tools/seedrun.sh"), patch, p], capture_output=True, text=True, env=env)
            out = rr.stdout + rr.stderr
            m = re.search(r"seedrun \S+ \S+ exit=(\d+)", out)
            rc = int(m.group(1)) if m else 2
            viol = sorted(set(re.findall(r"^violation: ([^:]+):", out, re.M)))[:3]
            rows.append((c, p, "caught" if rc == 1 else ("MISSED" if rc == 0 else "harness trouble (exit %d)" % rc), "; ".join(viol)))
            print(rows[-1], round(time.time() - t0), flush=True)
        os.remove(patch)
    rp = os.path.join(VERIF, "seeded", "FIX_REVERTS.md")
    table = {}
    if os.path.exists(rp):
        for l in open(rp):
            f = [x.strip() for x in l.strip().strip("|").split("|")]
            if len(f) == 4 and re.match(r"[0-9a-f]{8}", f[0]):
                table[(f[0], f[1])] = f
    for r in rows:
        table[(r[0], r[1])] = list(r)
    with open(rp, "w") as f:
        f.write("# Undoing each repair: does the check of the property report the defect again?\n\n")
        f.write("tools/fix_revert_sweep.py: `git revert --no-commit <fix>` (sources only) in a scratch worktree, quick check (%s s) of the property of the fixed entry in known_findings.json.\n\n" % BUDGET)
        f.write("| fix commit | check | result | violation class(es) reported |\n|---|---|---|---|\n")
        for k in sorted(table):
            f.write("| " + " | ".join(table[k]) + " |\n")
    print("missed:", [k for k in sorted(table) if table[k][2] == "MISSED"])


if __name__ == "__main__":
    sys.exit(main())
