#!/usr/bin/env python3
"""Regenerate MANIFEST.json from tools/plan.py (keeps it valid at all times)."""
import json, os, sys
VERIF = os.path.dirname(os.path.dirname(os.path.abspath(__file__)))
sys.path.insert(0, os.path.join(VERIF, "tools"))
from plan import PLAN, LEVEL, MAN, NA  # noqa
props = [json.loads(l) for l in open(os.path.join(VERIF, "properties.jsonl"))]
checks, na = [], []
for p in props:
    pid = p["id"]
    if pid in PLAN:
        m = MAN[pid]
        checks.append({
            "property_id": pid,
            "quick_cmd": "./bin/verif check %s quick" % pid,
            "thorough_cmd": "./bin/verif check %s thorough" % pid,
            "evidence_file": "/verif/evidence/%s.json" % pid,
            "replay_cmd_template": "./bin/verif replay {path}",
            "engine": "verifsim",
            "level_claimed": {"category": LEVEL.get(pid, "exploration"), "text": m["text"], "design_ref": m["ref"]},
            "level_note": m["note"],
            "technique": m["technique"],
        })
    else:
        na.append({"property_id": pid, "reason": NA.get(pid, "no check registered yet: the world that decides it is not built; see DESIGN.md section 5")})
man = {
    "version": 1,
    "setup_cmd": "./bin/verif setup",
    "hooks": {
        "guard": "verif",
        "enable": "no hook commits in /repo: every check derives a `go build -overlay` (build tag verif) from /repo's current working tree (tools/gen_overlay.py): VM stub for the absent LuaJIT sources, exported shims, simclock/simgo rewrites with asserted match counts, simulator packages mapped to /repo/zz_verif/... only inside the overlay",
        "baseline_off_cmd": json.load(open("/root/.vp/BASELINE.json"))["cmd"],
        "source_commits": [],
        "add_only": True,
    },
    "engines": [{"name": "verifsim", "path": "/verif/sim", "serves_properties": sorted(PLAN.keys()),
                 "kind_free_text": "deterministic simulator (seeded step generator, simulated disk/clock/network, replay + ddmin shrinker) linked with the real aergo packages through a build overlay"}],
    "checks": checks,
    "not_applicable": na,
    "notes": "quick = ~40 s of seeded runs on all cores after a rebuild from /repo's working tree; thorough = ~7 min (VERIF_QUICK_S / VERIF_THOROUGH_S / VERIF_SEED override). Every check first re-executes the recorded findings of its property (findings/known/*.json: each listed known finding is re-confirmed and printed as KNOWN-FINDING; findings/*.json: repaired defects, reported again if they return). Exit 2 = build/harness trouble, never a verdict. Known findings: /verif/known_findings.json (status known / fixed). A block delivery that does not return within 45 s of real time is reported as a violation (the node hung); its replay file is replayed in a fresh process by `bin/verif replay`. Sensitivity: seeded/RESULTS.md (94 independently written changes), seeded/FIX_REVERTS.md (every repair undone), DESIGN.md section 11.5.",
}
json.dump(man, open(os.path.join(VERIF, "MANIFEST.json"), "w"), indent=1)
print("MANIFEST.json: %d checks, %d not_applicable" % (len(checks), len(na)))
