# RAFT world (sim/worlds/raftw): C16 raft WAL storage and cluster membership.

PLAN["C16"] = [{"world": "raft", "share": 1, "probes": [
    # WAL part
    "pure-append", "truncate-new-suffix-shorter", "truncate-new-suffix-equal", "truncate-new-suffix-longer",
    "append-leaves-hole", "block-stored-again-same-index", "operation-with-all-crash-points",
    "crash-between-entries-and-hardstate", "crash-in-clear-haswal-false", "crash-in-clear-nothing-removed",
    "continued-on-half-cleared-log", "recovered-half-cleared-log", "identity-after-reset", "readall-judged",
    # membership part
    "re-add-removed", "dup-id", "dup-name", "dup-address", "dup-peerid", "remove-unknown", "remove-already-removed",
    "remove-healthy-loses-quorum", "remove-healthy-keeps-quorum", "remove-unhealthy", "add-ok", "add-while-unhealthy",
    "member-added", "member-removed", "sweep",
    # lagging replica
    "replica-applied-conf-change", "replica-missed-conf-change", "follower-missed-add", "follower-missed-remove",
    "follower-missed-add-and-remove", "follower-same-members-stale-removed-set", "follower-recovered-from-snapshot",
    "follower-snapshot-nothing-new", "replica-re-add-removed", "replica-remove-unknown", "replica-sweep"]}]

LEVEL["C16"] = "fault_enumeration"

RULES["C16"] = (
    "one case = a seeded run of the RAFT world; the swarm knob `part` selects "
    "(A, 70%) a history of 6-30 (thorough 10-70) raft WAL operations on a real chain.ChainDB over the simulated disk: WriteRaftEntry / WalDB.SaveEntry batches of 1-9 "
    "block, empty and conf-change entries whose first index lies before, at or after the stored last index (new suffix shorter / equal / longer than the one it replaces, pure append, "
    "hole after a snapshot installed ahead of the log), WriteHardState, WriteSnapshot (behind or ahead of the log), WriteIdentity, ClearWAL, ResetWAL; a new ChainDB is opened on the same disk after EVERY operation, "
    "and for every sampled operation (knob crash=1: ~36% of the operations) every durable write unit of that operation is crashed once (plus every torn prefix up to 8 ops of a bulk chunk; chunk size knob 1/2/3/whole), the disk rebuilt, reopened and judged, "
    "then the operation is completed; a further ~18% of the operations crash at one unit and the history continues from what the crash left; "
    "or (B, 30%) a history of 6-28 (thorough 10-60) membership steps against a real raftv2.Cluster of 1-5 initial members whose raft server reads a fake raft.Node status: health-vector changes (healthy / probing / snapshotting / lagging / exactly at the slow-node gap, per follower), "
    "add and remove requests whose id, name, address and peer id are drawn from pools shared with current and removed members, through three real decision paths (validateChangeMembership+isEnableChangeMembership, makeProposal+isEnableChangeMembership, raftServer.ValidateConfChangeEntry), accepted requests applied through the real addMember/removeMember so that removed-then-re-added histories occur, "
    "a second real Cluster (a lagging replica of the same raft cluster) that is handed every conf change the leader applied except those a step marks as missed (partition) and applies them the way a node applies a committed entry (ValidateConfChangeEntry, then addMember/removeMember; refused entries are skipped), `snapshot` steps in which the leader builds snapshot data with the real createSnapshotData and the replica runs the real Cluster.Recover, `fadd`/`frm` steps (stale or replayed conf change entries judged by the replica alone, through ValidateConfChangeEntry and validateChangeMembership), and `sweep` steps that enumerate at the current composition ALL 3^(followers<=4) health vectors x all removal targets (members, removed, unknown) and all combinations of fresh/duplicated id x name x address x peer id of an addition. "
    "distinct = distinct (last index, #entries, hard state, snapshot?, identity?) digests after each WAL operation, resp. distinct (composition, removed set, health vector, request, decision) digests; "
    "non-trivial = the run contained a restart, a crash or an unhealthy member (every WAL run restarts). "
    "Oracle A: a reference log (entries by index, last index, block->index of the latest store, hard state, snapshot, identity); after every acknowledged operation, on the same instance and after restart, "
    "GetRaftEntryLastIdx, GetRaftEntry(i) for all i up to two past the highest index ever written (indices the model does not hold must read as absent), GetBlock of every carried block, GetRaftEntryOfBlock/IndexOfBlock of every live block entry (positive direction only), "
    "GetHardState, GetSnapshot, GetIdentity, HasWal and WalDB.ReadAll(GetSnapshot()) equal the model; after a crash inside an operation the disk equals model-before or the model after a prefix of the operation's unit-atomic parts in the legal order (entries, then hard state); "
    "inside ClearWAL/ResetWAL only: HasWal reports a valid log only if nothing of it is gone. "
    "Oracle B: the predicate of the property text written independently: must refuse re-adding a removed id, a duplicate id/name/address/peer id of a current member, removing a non-member, removing a healthy member when healthy-1 < (n-1)/2+1; must accept every other well-formed request "
    "(an addition while a member is unhealthy and an addition reusing attributes of a removed member under a new id are not judged). The replica is judged by the same predicate against its OWN applied history; after every snapshot its members, applied members, removed members and IsIDRemoved must equal the leader's, and a validation-only sweep (every removal target, additions under every current/removed/fresh id with fresh or singly duplicated attributes, both entry points) runs on it.")

REALSTUB["C16"] = {
    "real": ["chain.ChainDB raft methods (chain/chaindbForRaft.go) incl. Init/loadChainData on reopen, addBlock/GetBlock",
             "consensus/impl/raftv2.WalDB (SaveEntry, ReadAll, convertFromRaft, convertWalToRaft)",
             "consensus.WalEntry / RaftIdentity / SnapshotData encodings, types/dbkey raft keys",
             "raftv2.Cluster: validateChangeMembership, isEnableChangeMembership, makeProposal, makeConfChange, addMember, removeMember, Members",
             "raftv2.raftServer: Status, GetClusterProgress (health classification), ValidateConfChangeEntry",
             "raftv2.ChainSnapshotter.createSnapshotData, consensus.SnapshotData encoding, raftv2.Cluster.Recover / isAllMembersEqual / ResetMembers / IsIDRemoved",
             "etcd raft.MemoryStorage (leader's last index), raftpb encodings"],
    "stub": ["disk: simdisk (aergo-lib db.DB) with write-unit journal, bulk chunking, crash points and torn bulk chunks",
             "raft.Node: a fake whose Status() reports the chosen Progress per member (etcd raft consensus itself is not simulated)",
             "raft transport, block factory, p2p: absent (not reached by the code under test)"],
}

MAN["C16"] = {
    "text": "seeded search over histories of the real raft WAL operations (overlapping append batches, hard state, snapshot, identity, clear, reset) on a simulated disk with a restart after every operation and a crash at every write unit of sampled operations, compared read-by-read with a reference log; "
            "plus the real cluster membership validation against generated request histories and exhaustive sweeps over all health vectors and attribute-duplicate combinations for compositions up to 5 nodes, compared with the predicate of the property text; a second real cluster instance lags behind the leader (misses generated subsets of the conf changes), catches up through real snapshots (createSnapshotData -> Cluster.Recover) and must then hold the leader's member sets and refuse what the leader refuses.",
    "ref": "5 C16",
    "note": "trusted: the reference log and the membership predicate (written from the property text), simdisk's write-unit semantics (transaction atomic, bulk chunked, torn chunk prefix), the fake raft status; etcd-raft consensus and rafthttp are not simulated; "
            "WriteSnapshot does not compact or truncate the log and the model follows that (entries stay the most recently stored ones); sampling plus bounded enumeration, not proof",
    "technique": "deterministic simulation: seeded operation histories + exhaustive crash-point enumeration per sampled operation (fault enumeration) and restart after every operation against a reference model; exhaustive bounded enumeration of membership requests x health vectors against a specification predicate; ddmin-minimised replay",
}
