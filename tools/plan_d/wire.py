# WIRE world (C18 framing + handshake clauses) and ENC world (C19)

PLAN["C18"] = [
    {"world": "wire", "share": 2,
     "probes": ["truncation-at-every-offset", "oversize-beyond-alloc-threshold", "writer-refused-limit-plus-1",
                "honest-handshake-succeeded", "mutation-broke-genesis", "mutation-broke-chainid", "mutation-broke-peerid",
                "both-sides-failed-cleanly", "compatible-hardfork-difference-accepted", "handshake-stalled-until-timeout"]},
    {"world": "chain", "share": 1, "probes": []},
]
PLAN["C19"] = [
    {"world": "enc", "share": 1,
     "probes": ["receipts-under-version-0", "receipts-under-version-2", "receipts-under-version-3", "receipts-under-version-4", "receipts-under-version-5",
                "block-with-event-filter", "block-with-error-receipt", "corrupted-delivery-before-genuine", "receipts-read-after-restart",
                "incompatible-reconfiguration", "compatible-reconfiguration"]},
]

RULES["C18"] = (
    "WIRE world: one case = a seeded run with a lowered framing limit (p2pcommon.MaxPayloadLength, 0..100 KiB, thorough up to 4 MiB) and 30-200 steps of: "
    "round trip of 1-4 messages (any sub-protocol id incl. unknown ones, sizes 0/1/47..49/4095..4097/limit-1/limit/random, then limit+1) through the real V030ReadWriter over a simulator-owned byte source "
    "that fragments reads into seeded chunk sizes; truncation of a well-formed stream at one or at every offset; damaged streams (noise, bit flip, rewritten length, noise between frames) judged against the harness's own frame parser; "
    "a header announcing limit+1 .. 2^32-1 bytes followed by an endless stream; and a handshake of two real V200 or V033 handshakers (built by the real p2p version manager) over a duplex pipe driven one endpoint at a time, "
    "with endpoint mismatches (genesis, magic, consensus, public/mainnet flag, hardfork heights, connection identity), a middlebox that decodes Status, mutates ONE field (list by reflection over types.Status, PeerAddress, AgentCertificate; cycled so every run touches every field) and re-encodes, connection cuts and garbage. "
    "distinct = distinct (step kind, limit, size class / handshake version, mismatch, direction, field, verdicts) digests; non-trivial = a fault fired. "
    "Oracle: Read(Write(m)) == m field by field and the written bytes equal the documented 48-byte-header frame; on any finite stream ReadMsg returns exactly the frames the harness parser finds and then an error, never panics; "
    "an oversize header fails after at most 48+4096 bytes were pulled and with runtime.MemStats.TotalAlloc growth (GC parked) below limit + 1 MiB; "
    "a handshaker that reports success must have received a status whose genesis hash equals its own, whose chain id equals its own with the version its hardfork heights give at the peer's best height, and whose peer id equals the connection's identity; the dialer never succeeds when the listener refused; two honest peers of one chain (also with different but version-compatible fork heights) must both succeed; no panic, no hang (a stalled pair is closed like a timeout and must return errors). "
    "CHAIN world (third clause, block identity): as for C05."
)
RULES["C19"] = (
    "one case = a seeded run of the ENC world: producer and validator node (real chain service, mempool, DPoS, VM stub) on simulated disks with a generated chain id magic, fee regime and hardfork heights placed inside the run, "
    "and a step list of client transactions (transfer, deploy/call/fee-delegation scripts with events, return values, fees, failures, stake, name) relayed to the validator's pool (optionally a copy with one field corrupted first), block steps, restarts, hardfork reconfigurations of a stopped node, and pure codec steps (generated chain ids, genesis infos, fork-height tables). "
    "Per block: every single-field mutation (fields by reflection, value kinds sampled) of the header and of up to 4 transactions plus one generated header and body; tx/receipt list edits and every receipt field; one corrupted copy (target cycles over all header fields, the announced id, a tx id, every tx body field, 5 list edits) delivered to the validator before the genuine block. "
    "distinct = distinct (fork version, #txs, #error receipts, events?, coinbase?, consensus field?, relay target) digests; non-trivial = a block carried transactions. "
    "Oracle: block/tx ids and signing digests equal the harness's own sha256 over all fields in declaration order (without Sign for signing); a mutated field changes the id, and unless it is Sign the signed bytes, and the old signature no longer verifies; header tx/receipts roots equal the harness's own Merkle root over the tx ids / its own per-version receipt commitment (+ block event filter leaf); list edits and mutations of every receipt field that is not presentation info (and not Ret of an ERROR receipt, not gas/fee-delegation before V2) change the root; "
    "the validator never holds or serves under an id (genuine, recomputed or announced) content other than the first content produced under it, never stores a header altered without re-signing, and accepts the genuine block after the corrupted copy; pools never admit a body altered after signing; receipts, txs and blocks served by both nodes equal what the producer's execution wrote (storage format of the block's version), also after restart; genesis info, chain id per height and the version table are identical after restart; Version(h) is monotone and equals the heights' meaning; a reconfiguration is refused at boot iff heights are unordered or a fork passed by the stored best block (under stored or new heights) moves."
)
LEVEL["C18"] = "exploration"
LEVEL["C19"] = "exploration"

REALSTUB["C18"] = {"real": ["p2p/v030.V030ReadWriter (ReadMsg/WriteMsg)", "p2p/v200.V200Handshaker, p2p/v030.V033Handshaker built by p2p.defaultVersionManager.GetVersionedHandshaker", "types.Status/ChainID codecs, p2putil certificate checks", "chain service block admission (CHAIN world)"],
                    "stub": ["byte transport: simulator-owned pipes (no sockets, no libp2p stream)", "InternalService / PeerManager / ActorService / CertificateManager / ChainAccessor: hand-written fakes returning the endpoint's meta, best block, genesis and ChainID(height) as chain.ChainService computes it", "connection identity: a parameter (libp2p secure channel not run)"]}
REALSTUB["C19"] = {"real": ["types block/tx digest writers, Block.Sign/VerifySign, key.SignTx/VerifyTx", "types.Receipts merkle/storage codecs, internal/merkle", "chain.ChainService (addBlock, receipts/tx/block queries, checkHardfork at boot), ChainDB genesis/hardfork records", "mempool admission", "config.HardforkConfig", "types.ChainID / Genesis codecs", "DPoS block factory"],
                    "stub": ["LuaJIT VM (contract/zz_vm_stub.go: scripts emit events, return values, fees, failures)", "disk: simdisk", "network: the relay hands blocks/txs to the real entry points of the other node"]}

MAN["C18"] = {"text": "seeded search over message streams and handshakes: real frame reader/writer over simulator-owned byte sources (fragmenting, truncating at every offset, noisy, endless) with a lowered payload limit, allocation and read-ahead measured around oversize headers; real V200/V033 handshakers on both ends of a deterministic duplex pipe with a middlebox that mutates one Status field (field list by reflection) and with mismatching endpoint configurations; block identity at the chain service is decided in the CHAIN world.",
              "ref": "5 C18", "note": "trusted: the harness frame parser and status judge (genesis, chain id with version rule, peer id), the fakes of the p2p service interfaces, TotalAlloc as allocation measure; legacy handshake versions 0.3.1/0.3.2 (still in AcceptedInboundVersions) are not run",
              "technique": "deterministic simulation: seeded byte-stream and message-corruption fault injection around the real framing and handshake code, reference parser / reference judge as oracle"}
MAN["C19"] = {"text": "seeded search over block histories across all hardfork versions with a corrupting relay between producer and validator (one field of an in-flight block or transaction, fields enumerated by reflection), an id -> first-content table checked against everything both nodes hold and serve, the harness's own digests and Merkle roots, systematic single-field mutation of headers, transactions and receipts, storage read-back after restarts, and hardfork reconfiguration at boot. Found four genuine defects (Merkle padding collision and its negative-cache consequence, tx root over sender-supplied tx ids, chain id codec).",
              "ref": "5 C19", "note": "trusted: the harness digests (sha256 over fields in declaration order), its 30-line Merkle root and receipt commitment, the compatibility model; VM stub; the pure single-field clause is decided through the corruption operator (systematic over fields, sampled over values)",
              "technique": "deterministic simulation: seeded histories + message-corruption fault injection between nodes, restart and reconfiguration faults, independent re-computation of digests and roots as oracle"}
