# POOL world: C13 (transaction pool)
PLAN["C13"] = [{"world": "pool", "share": 1,
                "probes": ["gap-fill-3-orphans-ready", "handback-readmitted", "evict-account-with-orphans",
                           "put-raced-block-same-account", "put-validated-then-too-low", "remove-makes-ready-orphan",
                           "balance-filter-opened-gap", "get-cut-by-size-limit", "reorg-settled",
                           "same-hash-refused", "same-nonce-other-body-refused"]}]
LEVEL["C13"] = "exploration"
RULES["C13"] = (
    "one case = a seeded run of the POOL world: swarm config (sequential or concurrent mode, 1-4 accounts, public/private chain = fee or zero-fee regime, "
    "fork version 0/2/5, fade-out period 1-3 h, 1-3 client tasks) and a step list over the real mempool.MemPool on a real state DB: puts of signed txs in arbitrary nonce "
    "order (same hash again, same nonce with another body, gap fills upwards and downwards, stale nonces, unaffordable amounts, foreign chain id), removeTx, existence queries, "
    "fetches with and without size limit, unconfirmed-tx reports (all / named accounts), block notifications whose committed state advances nonces and moves balances "
    "(consuming the pool's own txs or conflicting bodies), reorganisations of depth 1-3 (notifications of the new branch in chain-service order, state rewinds, then hand-back "
    "of the abandoned txs in a seeded order), clock ticks and eviction passes. In concurrent mode the operations are invoked on k client tasks + a producer task + a block task "
    "(real goroutines, exactly one running) and `yield` steps pick which task passes the pool lock next. "
    "distinct = distinct (pool size, tree size, best height, notifications, mode) digests; non-trivial = the run contained a reorganisation, a state rewind or an eviction. "
    "Oracle: a model (per account: nonce-sorted set; state nonce and balance of the last notified block) is advanced when an operation returns; after every operation "
    "(sequential) / every scheduling segment (concurrent) the pool's lists, hash index, counters, Size/Statistics, fetch result, hash listing, unconfirmed report and existence "
    "queries are compared with it: lists strictly nonce-ascending, no hash twice, content = model, ready prefix and fetch = gap-free run from state+1, orphans = the rest, totals = "
    "actual counts, no entry at or below the state nonce after the last notification of a block/reorg, nothing dropped by a notification unless stale or unaffordable; a size-limited "
    "fetch returns per-account prefixes within the limit and only cuts what does not fit. Concurrent histories (invoke/return stamped with the simulator's event sequence, <= 40 ops per "
    "window between quiescent points) are checked for linearizability against the sequential specification with porcupine; Unknown is counted, never reported.")
REALSTUB["C13"] = {
    "real": ["mempool.MemPool (put incl. verifyTx/validateTx, get, listHash, removeTx, removeOnBlockArrival/setStateDB, evictTransactions, exist/existEx, getUnconfirmed, Size, Statistics)",
             "mempool.txList (Put, FilterByState, RemoveTx, updateReady)", "state.ChainStateDB / statedb.StateDB / pkg/trie (account states of every block are really committed)",
             "types.Block / types.Tx validation and signatures (key.SignTx / key.VerifyTx)", "fee and system gas-price rules"],
    "stub": ["chain service: a block source that commits account states and sends the notifications / hand-backs in chain-service order (chain/reorg.go is not run)",
             "pool lock: sync.RWMutex -> simsync.RWMutex (scheduling point; identical to sync.RWMutex when no scheduler is installed)",
             "wall clock of mempool.go/txlist.go -> simclock; eviction work timer (4 ms wall clock) disabled",
             "p2p/chain/rpc actors: synchronous hub adapters; TxVerifier actor replaced by a direct verifyTx+put call", "disk: simdisk (aergo-lib db.DB)"]}
MAN["C13"] = {
    "text": "seeded search over operation histories (sequential) and over lock-granularity schedules of client, producer and block-notification tasks (concurrent) on the real MemPool over a real state DB; "
            "a model is compared with the pool's lists, hash index, counters, fetches, reports and existence queries after every operation / scheduling segment, and concurrent histories are checked for "
            "linearizability with porcupine. Sampling, not proof.",
    "ref": "5 C13",
    "note": "trusted: the model, the block source's notification discipline (first block of a new branch is not a child of the pool's best, the last one always is; DESIGN.md Appendix A), "
            "types.ValidateWithSenderState as the affordability judge; interleavings are explored at pool-lock granularity only (code inside one critical section and the lock-free hash index reads are atomic "
            "in the simulation), so data races inside a critical section are out of reach",
    "technique": "deterministic simulation: seeded operation histories against a reference model; cooperative task scheduler at lock points with recorded, replayable, shrinkable schedules; porcupine linearizability check"}
