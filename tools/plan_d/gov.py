# GOV world: C15 governance accounting (stakes, votes, rankings, voting-power rank, names)

PLAN["C15"] = [{"world": "chain", "share": 1, "probes": ["vpr-checked-after-refused-block"]},
               {"world": "gov", "share": 1, "probes": [
    "stake-exactly-at-expiry", "stake-one-block-before-expiry", "unstake-exactly-at-expiry", "unstake-one-block-before-expiry",
    "revote-exactly-at-expiry", "revote-one-block-before-expiry", "revote-overlapping-candidates",
    "partial-unstake-shrinks-votes", "full-unstake", "stake-added", "tie-between-voted-candidates", "same-tallies-reached-again",
    "parameter-changed-by-vote", "fork-version-switch", "voting-reward-paid", "voting-power-rank-checked-against-votes",
    "name-created", "name-updated", "name-updated-by-name", "donation-to-system-account",
    "refused:stake:lock", "refused:stake:minimum", "refused:unstake:lock", "refused:unstake:minimum", "refused:votebp:lock", "refused:votedao:lock",
    "refused:namecreate:below-price", "refused:namecreate:name-taken", "refused:nameupdate:not-the-owner",
]}]
LEVEL["C15"] = "exploration"
RULES["C15"] = (
    "one case = a seeded run of the GOV world: swarm config (hardfork heights: v5 from the start / v3 then v4,v5 inside the run / v2 only / v0 first and v2..v5 inside the run / v0 only; "
    "3-6 accounts, 3-6 producer candidates, public/private fee regime, vault on/off, coinbase none/fresh/sender, and five knobs that switch on inputs or judgements with known findings: "
    "drop, twins, oddcand, ranktree, negparam) and a list of 6-18 (thorough 10-40) blocks, each a height jump (1, small, lock period -1/0/+1, twice the period, or aimed one block before / exactly at / "
    "one after the lock expiry of a staked account), 1-6 transactions (stake incl. adding and below-minimum and above-balance, partial/full unstake, producer votes for 0-4 candidates incl. overlapping sets and duplicates, "
    "parameter votes for BPCOUNT/STAKINGMIN/GASPRICE/NAMEPRICE with valid and invalid values, name create/update by owner, non-owner and by name, for exactly / less / more than the price, plain transfers incl. to the system account) "
    "and an ending (commit + CommitParams(true); validator-side rejection = discard + rank reload + CommitParams(false); producer-side drop = discard only). "
    "The transactions run through the real chain.NewTxExecutor on a real BlockState over the node's ChainStateDB on simdisk with a forged BlockHeaderInfo; the block reward (coinbase fees + DPoS voting reward from the in-memory rank) is paid as in production. "
    "distinct = distinct (fork version, stakers, votes, names, ranking length, ties, staking total, rank dump) digests at block boundaries; non-trivial = at least one block carried transactions. "
    "Oracle: a reference model written from the statement predicts for every transaction whether it must be refused (lock period counted from the account's last governance action with the delays read from the compiled package, "
    "minimum stake / name price in force = value persisted at the previous boundary, ownership, balance) and its exact effects; a deviation in either direction is reported; after every transaction all balances and nonces read through the block state "
    "must equal the model (unstake returns exactly the amount, names cost exactly the amount sent >= price, refused txs change nothing). At every block boundary an independent trie walk of the persisted state is decoded by the harness: "
    "staking total = sum of stake records = system account balance (minus plain transfers sent to it); stake records and last-action heights = model; every vote record = candidates as voted + amount <= stake; "
    "every tally in the stored ranking = sum of the recorded amounts of its current voters, no candidate twice; ranking sorted by tally desc and by the fixed tie-break, which must separate any two distinct candidates; "
    "same tallies reached twice in a run => same stored bytes; parameter-vote totals; no storage slot of the system / name account outside the known keys; in-memory rank (voters, powers, total, bucket order; rank tree by knob) = reload from the persisted state "
    "= sum of the recorded votes (when all votes were cast under v2+); in-memory parameters = persisted; name records = model (one owner per case-insensitive name).")
REALSTUB["C15"] = {
    "real": ["chain.NewTxExecutor / executeTx / executeGovernanceTx", "contract/system (staking, vote, voteresult, vprt, param, validation, execute)", "contract/name", "types tx validation",
             "state.BlockState / ChainStateDB / statedb / pkg/trie", "chain.SendBlockReward with dpos.sendVotingReward", "dpos.InitVPR, system.CommitParams, system.InitSystemParams (node boot via simnode)",
             "contract.Execute for plain transfers"],
    "stub": ["block production / connection: the harness builds the block state and BlockHeaderInfo itself (heights jump), no block is stored in the chain DB",
             "signature verification is not part of executeTx (done by mempool / sign verifier): sender = Account field", "disk: simdisk (db.DB)", "LuaJIT VM stub (unused: no contracts in this workload)"],
}
MAN["C15"] = {
    "text": "seeded search over multi-account histories of stake / unstake / producer vote / parameter vote / name / transfer transactions executed by the real tx executor at block heights that straddle the two 86 400-block lock periods, "
            "with blocks that are committed, rejected by a validator or dropped by the producer; a reference model decides every refusal and effect, and all sums, tallies, rankings, the voting-power rank and the name map are re-derived at every block boundary from an independent walk of the persisted state. "
            "Found five genuine defects (voting-power rank not restored after a producer-side dropped block; rank-order tree corrupted by in-place key update; tie-break not total for ids that differ only in their first 7 bytes; "
            "producer ids that are not 39 bytes long corrupt tallies and later crash execution; negative parameter values accepted).",
    "ref": "5 C15",
    "note": "trusted: the reference model (written from the statement, checked against the code only through the runs), the state walker, storage key names from types/dbkey; sampling only; signatures are outside the executor path that is driven",
    "technique": "deterministic simulation: seeded transaction histories on the real executor with harness-chosen block heights (time warp across lock periods) and block drop/reject faults, model-based oracle plus invariants over an independent state walk at every block boundary",
}

RULES["C15"] = RULES["C15"] + (" A share of the workers runs the CHAIN world with stake / producer-vote transactions in the block tree: the node under test executes, refuses (forged roots), orphans and reorganizes such blocks through the real chain service and DPoS status, and after every delivery its in-memory voting-power rank must equal the one rebuilt from the persisted state of its best block.")
