# CHAIN world shares of the C03 and C04 checks (block-level clauses of those properties)

PLAN["C03"] = PLAN["C03"] + [{"world": "chain", "share": 1, "budget_scale": 1.0, "probes": ["vpr-checked-after-refused-block"]}]
RULES["C03"] = RULES["C03"] + (
    " A share of the workers runs the CHAIN world for the last sentence of the property (a block that fails validation at any point leaves the node as it was): block trees with stake / producer-vote transactions, "
    "forged blocks that are executed and then refused (wrong state / receipts root), half of the runs opening with exactly that history; after every refused block best block, state root, raw chain store and the "
    "in-memory governance mirror (voting-power rank vs. a reload from the best block's state) must be unchanged.")
PLAN["C04"] = PLAN["C04"] + [{"world": "chain", "share": 1, "probes": []}]
RULES["C04"] = RULES["C04"] + (
    " A share of the workers runs the CHAIN world for the block path: blocks carrying a transaction with a forged signature at the first, a middle or the last position of the body (roots recomputed, block re-signed by a "
    "legitimate producer), delivered among valid blocks, forks and duplicates; no such block may ever be adopted (the asynchronous signature verifier must not carry verdicts over from a refused block to the next one).")
