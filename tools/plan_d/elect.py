# ELECT world: C09 across producer elections (second world of the C09 check)

PLAN["C09"] = PLAN["C09"] + [{"world": "elect", "share": 1, "probes": [
    "producer-judged-against-elected-set", "late-in-slot-production"]}]
RULES["C09"] = RULES["C09"] + (
    " A share of the workers runs the ELECT world: 3-4 genesis producers and 1-2 spare nodes (each a real chain service + mempool + DPoS with its own key) in lock step over a fault-free network, "
    "election period shortened to 3-6 blocks through a build-overlay seam (bp.VerifElectionPeriod), 4-6 (thorough 5-8) periods per run; steps: slot (every node is asked the real producer-side question "
    "'is this instant mine?', the claimant produces, everybody else receives the block), vote (an account stakes a distinct power-of-two multiple of the minimum and votes for 1..N nodes; executed by the real system contract), "
    "claim (a node outside the current set signs a block for one of the next N+1 slots and shows it to another node), restart (stop + boot + recovery: the set is rebuilt from the stored chain). "
    "Oracle: at most one claimant per slot over the whole population; its block adopted by every node; the producer is a member of the set that a reference tally written from the statement elects "
    "(top-N by the stake of the voters whose stake and vote succeeded up to the snapshot height; undecided when a vote is in flight, failed, fewer candidates than seats or a tie at the last seat), "
    "with the old and the new set both tolerated one height either side of a switch; a block of a non-member is refused and not stored whatever slot it is dated for. "
    "distinct = (height mod 2 periods, producer, every node's seat list) digests; non-trivial = the run passed the first switch.")
REALSTUB["C09"] = {
    "real": ["consensus/impl/dpos (DPoS, Status, libStatus, block factory decision getBpInfo / generateBlock, IsBlockValid, VerifySign)", "consensus/impl/dpos/bp (Cluster, Snapshots: AddSnapshot, UpdateCluster, loadClusterSnapshot)",
             "consensus/impl/dpos/slot", "chain service (addBlock, orphan pool, reorg), mempool admission", "contract/system (stake, voteBP, vote ranking, GetRankers) executed through the real tx executor", "types (block signing / header serialisation)"],
    "stub": ["network (DPOS: seeded loss / duplication / reordering / partitions; ELECT: lock-step fault-free delivery)", "clocks (simclock, per-node skew)", "disk (simdisk implements aergo-lib db.DB)",
             "LuaJIT VM (contract/zz_vm_stub.go; not exercised by these worlds)", "election period constant (100 blocks) replaced by 3-6 through the overlay seam bp.VerifElectionPeriod (ELECT only)",
             "p2p / syncer / rpc services (hub adapters)"]}
ASSUME["C09"] = ["sampling, not proof: 1-4 producers (+ up to 2 observers / spares), <= 160 steps per run; the slot-owner scan covers n <= 100 producers",
                 "ELECT: the switch height of the producer set is not mirrored from the code: one height either side of a multiple of the period both the old and the new set are tolerated; membership is not judged when a vote is in flight, failed, fewer candidates than seats got votes, or the last seat is tied",
                 "raft and sbp block factories (also anchored by the property) are not driven by these worlds", "overlay-derived files track the working tree by pattern"]
