# ELECT world: C09 across producer elections (second world of the C09 check)

PLAN["C09"] = PLAN["C09"] + [{"world": "elect", "share": 1, "probes": [
    "producer-judged-against-elected-set", "late-in-slot-production"]}]
RULES["C09"] = RULES["C09"] + (
    " A share of the workers runs the ELECT world: 3-4 genesis producers and 1-2 spare nodes (each a real chain service + mempool + DPoS with its own key) in lock step over a fault-free network, "
    "election period shortened to 3-6 blocks through a build-overlay seam (bp.VerifElectionPeriod), 4-6 (thorough 5-8) periods per run; steps: slot (every node is asked the real producer-side question "
    "'is this instant mine?', the claimant produces, everybody else receives the block), vote (an account stakes a distinct power-of-two multiple of the minimum and votes for 1..N nodes; executed by the real system contract), "
    "claim (a node outside the current set signs a block for one of the next N+1 slots and shows it to another node), restart (stop + boot + recovery: the set is rebuilt from the stored chain). "
    "Oracle: at most one claimant per slot over the whole population; its block adopted by every node; the producer is a member of the set that a reference tally written from the statement elects "
    "(top-N by the stake of the voters whose stake and vote succeeded up to the snapshot height; undecided when a vote is in flight, failed, fewer candidates than seats or a tie at the last seat), "
    "with the old and the new set both tolerated one height either side of a switch; a block of a non-member is refused and not stored whatever slot it is dated for. "
    "distinct = (height mod 2 periods, producer, every node's seat list) digests; non-trivial = the run passed the first switch.")
