PLAN["C17"] = [{"world": "sync", "share": 1, "gomaxprocs": 2,
                "probes": ["session-success", "session-error-stop", "second-session-started", "final-sync-complete",
                           "full-scan-ran", "light-scan-none", "multi-hashset", "parallel-fetch-tasks", "task-retried",
                           "stale-response-delivered", "chunk-answer-after-task-timeout", "all-peers-bad", "local-reorg",
                           "start-while-running", "recovered-panic"]}]
