PLAN["C17"] = [{"world": "chain", "share": 1, "probes": ["ancestor-search-found", "ancestor-search-none"]},
               {"world": "sync", "share": 3, "gomaxprocs": 2,
                "probes": ["session-success", "session-error-stop", "second-session-started", "final-sync-complete",
                           "full-scan-ran", "full-scan-ancestor", "light-scan-none", "light-scan-ancestor",
                           "multi-hashset", "parallel-fetch-tasks", "task-retried",
                           "stale-response-delivered", "stale-stop-delivered", "start-while-running",
                           "chunk-answer-after-task-timeout", "all-peers-bad", "hashfetcher-timeout", "finder-timeout",
                           "local-reorg", "recovered-panic", "addblock-answer-outside-its-session"]}]

LEVEL["C17"] = "exploration"

RULES["C17"] = (
    "one case = one seeded run of the SYNC world: the real syncer.Syncer (finder, hash fetcher, block fetcher, block processor, their goroutines, "
    "channels, timers and the 100 ms scheduler ticker) inside a testing/synctest bubble, driven through the IComponentRequester seam by a step list. "
    "Swarm configuration: fork point 0..200 (or only genesis shared), local-only blocks 0..60 (or 500..560 so that the 32 anchors do not reach the fork and the "
    "light scan finds none), remote-only blocks up to 40 (thorough 120) ahead of / behind the local tip, hash-set size 1..16, fetch size 1..6, 1..5 parallel tasks, "
    "connect-queue limit 1..10, 1..5 peers with a per-peer honest/Byzantine mask, full-scan-only switch, jittered schedTick/fetchTimeOut/dfltTimeout, fault-free vs "
    "fault-injecting sub-batch, stop requests on/off. Steps: SyncStart (target = remote tip / between the tips / beyond the remote tip / not ahead), deliver one of the "
    "syncer's messages to itself, give one outstanding request one answer (honest, or: error values the p2p receivers emit, too few hashes, hash list with a hole / a repetition / "
    "another branch / garbage, wrong / missing / local-only / lower ancestor, wrong or empty hash-by-number, blocks of another branch, a block whose header parent or number was altered "
    "under the requested identifier, no RUNNING peer, AddBlock refused by the chain), silence for good, advance the fake clock (the driver wakes in the very instant the syncer emits "
    "something, so an answer can race with a message of the syncer to itself in mailbox order), inject SyncStop with the current or a stale sequence, let the remote chain grow. "
    "After the step list faults stop: everything outstanding is answered honestly and at once, the session must end within 3*dfltTimeout+10*fetchTimeOut+ticks for the remaining tasks, "
    "what is left from ended sessions is delivered to the idle syncer, then a new SyncStart toward the (grown) remote tip must be taken up and complete. "
    "distinct = distinct (fork point, local extra, remote length, blocks handed over, result, full scan?, session ordinal) digests of ended sessions; "
    "non-trivial = a fault, a stop, a second session or a reorganisation of the local chain occurred. "
    "Oracle, always: every AddBlock request of a session carries the height of the previous one + 1 (the first: ancestor + 1), is a child of it by header parent hash, and is not above the "
    "target; the ancestor is on the local main chain (as of session start), on the remote chain when every finder answer that carried content was truthful (error answers, silence and delays allowed), and then the highest shared block when the anchor "
    "comparison truthfully found none and the full scan ran (a failed probe may stop the session with an error, never lower the reported ancestor); requests and self-messages only carry the sequence of the running session; SyncStart while running, SyncStart not ahead of "
    "the local tip, SyncStop and answers with a stale sequence have no effect (no emission, no state change); success (SyncStop(nil) from the block processor / nil on NotifyC) only "
    "after all blocks ancestor+1..target were handed over and the chain confirmed the target; exactly one result per session on NotifyC; no panic leaves Syncer.Receive; in the "
    "fault-free sub-batch every session succeeds. Termination (after faults stop): the session ends (success, or an error/stop notification), Syncer.Receive returns, the next SyncStart is "
    "taken up, the final fault-free session succeeds and the local main chain equals the remote chain up to the target."
)

REALSTUB["C17"] = {
    "real": ["syncer.Syncer with Finder, HashFetcher, BlockFetcher, BlockProcessor (unmodified; one asserted clock seam: hashfetcher requestTimeout `>` -> `>=`, "
             "because code takes no time inside the bubble and the timer armed with the request would otherwise compare equal forever)",
             "Syncer.Receive actor entry (garbage filter, verifySeq)", "types.Block / header digests, types.SyncContext, message.* sync messages",
             "anchor selection: chain.StubBlockChain.GetAnchors (the repo's twin of ChainService.getAnchorsNew, constants MaxAnchors/Skip)",
             "Go runtime scheduler, channels, time.Timer/Ticker under testing/synctest (go1.26.8)"],
    "stub": ["ChainSvc: a block tree with longest-chain main branch following chain.addBlock's contract toward the syncer (already stored -> ok, unknown parent -> orphan error, "
             "content != identifier -> refused), one AddBlock at a time in FIFO order",
             "P2PSvc and remote peers: answers restricted to what p2p/{ancestor,hashbyno,hash,blk}receiver.go can emit (at most one answer per request, their error values, any delay)",
             "actor mailbox: one goroutine, FIFO; messages of the syncer to itself may be overtaken only by answers arriving in the same instant"],
}

MAN["C17"] = {
    "text": "seeded search over local/remote chain pairs (all fork points and length differences in bounds), 1-5 peers with per-peer behaviour, every order and delay of answers, "
            "errors, silence, lying hash lists / ancestors / forged block headers at the p2p receiver boundary, stop requests and stale messages at any step, on the real syncer with all its "
            "goroutines and timers inside a synctest bubble; order, ancestor, single-session, stale-message and success oracles on every emitted request, bounded termination and a "
            "complete later synchronisation after faults stop. Sampling, not proof. Four genuine defect families found and recorded as known findings (blocking send to an exited finder, "
            "session that never ends without a RUNNING peer, connect queue parked by a forged block number / a hole in the hash list, parent linkage unchecked at chunk boundaries).",
    "ref": "5 C17",
    "note": "trusted: the harness requester/mailbox model, the local block-tree model of ChainSvc, the restriction of peer answers to the receivers' alphabet; goroutine choice inside one burst is "
            "the Go scheduler's (outputs are sorted before they are logged or acted on; determinism self-test 0 diverging processes at GOMAXPROCS 1/4/16)",
    "technique": "deterministic simulation: real concurrent component in a testing/synctest bubble (fake clock, quiescence stepping), seeded response schedules with fault injection at the "
                 "network boundary, safety oracles on every output and bounded-liveness oracle after faults stop, ddmin-minimised replay",
}

RULES["C17"] = RULES["C17"] + (" A quarter of the workers run the CHAIN world with the responder-side oracle: after every delivered block the node under test (which holds main chain, side branches and forged blocks) is asked for the common ancestor with generated identifier lists (highest first, incl. unknown ones) through the real ChainService.findAncestor; it must name the first identifier that is on its main chain (judged through the height index) or none.")
