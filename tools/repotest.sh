#!/bin/bash
# usage: repotest.sh <pkg>...   — run the repo's own tests of LuaJIT-blocked packages under the overlay
export GOFLAGS=-mod=mod GOPROXY=off GOSUMDB=off GOTOOLCHAIN=local CGO_ENABLED=0 ARGLIB_LEVEL=error
export PATH=/opt/veriftools/go1.26.8/bin:$PATH
D=$(mktemp -d /var/tmp/repotest-XXXX); trap "rm -rf $D" EXIT
python3 /verif/tools/gen_overlay.py ${VERIF_REPO:-/repo} $D >/dev/null || exit 2
cp ${VERIF_REPO:-/repo}/go.mod ${VERIF_REPO:-/repo}/go.sum $D/
echo "require github.com/anishathalye/porcupine v1.3.0" >> $D/go.mod; cat $D/replaces.txt >> $D/go.mod
cd ${VERIF_REPO:-/repo} && go test -tags verif -overlay $D/overlay.json -modfile $D/go.mod -vet=off -count=1 "$@"
