#!/bin/bash
# usage: seedrun.sh <patch.diff> <PROP> [tier]  — run a check against a seeded change in a scratch worktree of /repo
# (never in /repo itself: other checks may be running from it). Evidence goes to /var/tmp/ev.
set -u
P=$(realpath "$1"); PROP=$2; TIER=${3:-quick}
WT=${SEED_WT:-/var/tmp/seedwt}
[ -d "$WT" ] || git -C /repo worktree add -q --detach "$WT" HEAD || exit 2
git -C "$WT" checkout -q --detach $(git -C /repo rev-parse HEAD) && git -C "$WT" checkout -q -- . || exit 2
git -C "$WT" apply "$P" || { echo "patch does not apply"; exit 2; }
cd /verif && VERIF_EVIDENCE_DIR=/var/tmp/ev VERIF_REPO="$WT" ./bin/verif check "$PROP" "$TIER" 2>&1 | grep -v '^{"level' | grep -v '^KNOWN-FINDING' | cut -c1-400 | tail -${TAILN:-5}; rc=${PIPESTATUS[0]}
git -C "$WT" checkout -q -- .
echo "seedrun $PROP $(basename $(dirname $P)) exit=$rc"
exit $rc
