#!/usr/bin/env python3
"""Run the registered quick check(s) against every confirmed seeded change in /verif/seeded and
record the outcome in its meta.json (checks_run) and in /verif/seeded/RESULTS.md.

usage: seeded_sweep.py [id ...]      (default: all)
Each change is applied in a scratch worktree of /repo (never in /repo itself).
"""
import json, os, re, subprocess, sys, time

VERIF = os.path.dirname(os.path.dirname(os.path.abspath(__file__)))
SEEDED = os.path.join(VERIF, "seeded")
# checks other than the one of the property the change was written against that are (also) run
EXTRA = {"C05-r2m1": ["C06"], "C18-m2": ["C19"], "C14-r3m1": ["C15"], "C02-r4m1": ["C15"], "C02-r4m2": ["C15", "C03"], "C14-r5m1": ["C15"]}
BUDGET = os.environ.get("SWEEP_QUICK_S", "40")


def run(patch, prop):
    env = dict(os.environ, SEED_WT=os.environ.get("SWEEP_WT", "/var/tmp/sweepwt"), VERIF_QUICK_S=BUDGET, TAILN="40")
    t0 = time.time()
    r = subprocess.run([os.path.join(VERIF, "tools/seedrun.sh"), patch, prop], capture_output=True, text=True, env=env)
    out = r.stdout + r.stderr
    m = re.search(r"seedrun \S+ \S+ exit=(\d+)", out)
    rc = int(m.group(1)) if m else 2
    viol = re.findall(r"^violation: ([^:]+):", out, re.M)
    runs = re.search(r"(\d+) runs", out)
    return {"check": prop, "tier": "quick", "budget_s": int(BUDGET), "exit": rc, "caught": rc == 1,
            "violations": sorted(set(viol))[:4], "runs": int(runs.group(1)) if runs else None, "wall_s": round(time.time() - t0)}


def main():
    ids = sys.argv[1:] or sorted(d for d in os.listdir(SEEDED) if os.path.isdir(os.path.join(SEEDED, d)))
    rows = []
    for sid in ids:
        d = os.path.join(SEEDED, sid)
        mp = os.path.join(d, "meta.json")
        if not os.path.exists(mp):
            continue
        meta = json.load(open(mp))
        props = [meta["breaks_property"]] + EXTRA.get(sid, [])
        res = [run(os.path.join(d, "patch.diff"), p) for p in props]
        meta["checks_run"] = res
        json.dump(meta, open(mp, "w"), indent=1)
        caught = [r["check"] for r in res if r["caught"]]
        rows.append((sid, meta["breaks_property"], ", ".join(caught) or "MISSED", "; ".join(v for r in res for v in r["violations"])[:140], meta.get("summary", "")[:110]))
        print(rows[-1][:3], flush=True)
    # merge with rows of earlier partial sweeps
    table = {}
    rp = os.environ.get("SWEEP_OUT") or os.path.join(SEEDED, "RESULTS.md")
    if os.path.exists(rp):
        for l in open(rp):
            f = [c.strip() for c in l.strip().strip("|").split("|")]
            if len(f) == 5 and re.match(r"C\d\d-", f[0]):
                table[f[0]] = f
    for r in rows:
        table[r[0]] = list(r)
    with open(rp, "w") as f:
        f.write("# Seeded changes (written by independent sub-agents that saw only the property text) and the checks that catch them\n\n")
        f.write("Each change was confirmed first (tools/confirm_seeded.py: existing tests still pass with it, the demonstration fails with it and passes without it), then the quick check was run against it in a scratch worktree (tools/seeded_sweep.py, %s s budget).\n\n" % BUDGET)
        f.write("| id | written against | caught by | violation class(es) reported | change |\n|---|---|---|---|---|\n")
        for k in sorted(table):
            f.write("| " + " | ".join(table[k]) + " |\n")
    missed = [k for k in sorted(table) if table[k][2] == "MISSED"]
    print("total", len(table), "missed", missed)


if __name__ == "__main__":
    main()
