"""Which worlds decide which property, and the static texts that go into evidence."""

PLAN = {
    "C10": [{"world": "store-trie", "share": 1,
             "probes": ["delete-absent-only", "trie-emptied", "died-in-commit", "historical-root-read"]}],
}

LEVEL = {}

RULES = {
    "C10": "one case = one seeded history of sorted update/delete batches (one Update+Commit per batch) over a key universe built to collide on long prefixes, "
           "with reopen / historical-root / crash-in-commit steps; distinct = distinct (model size, committed root) digests; non-trivial = the run contained at least one restart or crash fault",
}

REALSTUB = {
    "*": {"real": ["code under test as named in DESIGN.md section 5"], "stub": ["LuaJIT VM (contract/zz_vm_stub.go)", "disk (simdisk implements aergo-lib db.DB)"]},
    "C10": {"real": ["pkg/trie (Update, Commit, StageUpdates, Get, LoadCache)", "internal/common.Hasher"],
            "stub": ["disk: simdisk (db.DB) with journal, bulk chunking and crash points", "goroutine choice of sibling subtree updates: simgo.Pair (seeded order)"]},
}

ASSUME = {
    "*": ["sampling, not proof: bounds as in DESIGN.md section 5", "overlay-derived files track the working tree by pattern"],
}

# ---- manifest texts -------------------------------------------------------
NA = {
    "C20": "read-only contract execution is a statement about every path through the LuaJIT host callbacks (contract/vm_callback.go and the C modules); those sources cannot be built or run in this sandbox (LuaJIT absent, replaced by a stub) and the property has no schedule, clock, fault or interleaving in it, so deterministic simulation has nothing real to run; it needs source-level control-flow analysis, a different technique family (DESIGN.md section 10)",
}

MAN = {
    "C10": {"text": "seeded search over histories of update/delete batches, restarts, historical-root reads and crashes inside the commit on the real pkg/trie over a simulated disk; every step is compared with a map model and the root with a freshly built trie (history independence). Sampling, not proof; found and fixed one genuine defect.",
            "ref": "5 C10", "note": "trusted: the map model, simdisk's write-unit semantics (tx atomic, bulk chunked), sha256",
            "technique": "deterministic simulation: seeded operation histories + crash/restart fault injection against a reference map model, ddmin-minimised replay"},
}
