"""Which worlds decide which property, and the static texts that go into evidence."""

PLAN = {
    "C10": [{"world": "store-trie", "share": 1,
             "probes": ["delete-absent-only", "trie-emptied", "died-in-commit", "historical-root-read"]}],
    "C11": [{"world": "store-proof", "share": 1,
             "probes": ["inclusion-proof", "absence-empty-subtree", "absence-foreign-leaf", "historical-root-query", "verifier-panic-on-malformed"]}],
    "C12": [{"world": "store-snap", "share": 1,
             "probes": ["handle-rollback", "session-abandoned", "nested-rollback"]}],
}

LEVEL = {}

RULES = {
    "C11": "one case = a seeded history of account puts / contract storage sessions / commits on the real StateDB, interleaved with proof queries (account, contract account, contract variable; present, absent-empty-subtree, absent-foreign-leaf; plain and compressed; current and historical roots) whose answer passes through a corrupting channel (10 mutation kinds incl. transplant to another key/root/encoding and relabelling inclusion as absence); distinct = distinct committed roots; non-trivial = at least one corrupted proof was judged",
    "C12": "one case = a seeded history of account puts, contract sessions (open, set/delete, nested handle savepoints, stage or abandon), block-level snapshot / rollback to any earlier snapshot, commit (Update+Commit, new StateDB) and reopen; every read is compared with a model that keeps an explicit snapshot stack, every committed root with a fresh state built from the surviving writes; distinct = distinct committed roots; non-trivial = at least one rollback or restart",
    "C10": "one case = one seeded history of sorted update/delete batches (one Update+Commit per batch) over a key universe built to collide on long prefixes, "
           "with reopen / historical-root / crash-in-commit steps; distinct = distinct (model size, committed root) digests; non-trivial = the run contained at least one restart or crash fault",
}

REALSTUB = {
    "*": {"real": ["code under test as named in DESIGN.md section 5"], "stub": ["LuaJIT VM (contract/zz_vm_stub.go)", "disk (simdisk implements aergo-lib db.DB)"]},
    "C10": {"real": ["pkg/trie (Update, Commit, StageUpdates, Get, LoadCache)", "internal/common.Hasher"],
            "stub": ["disk: simdisk (db.DB) with journal, bulk chunking and crash points", "goroutine choice of sibling subtree updates: simgo.Pair (seeded order)"]},
}

ASSUME = {
    "*": ["sampling, not proof: bounds as in DESIGN.md section 5", "overlay-derived files track the working tree by pattern"],
}

# ---- manifest texts -------------------------------------------------------
NA = {
    "C20": "read-only contract execution is a statement about every path through the LuaJIT host callbacks (contract/vm_callback.go and the C modules); those sources cannot be built or run in this sandbox (LuaJIT absent, replaced by a stub) and the property has no schedule, clock, fault or interleaving in it, so deterministic simulation has nothing real to run; it needs source-level control-flow analysis, a different technique family (DESIGN.md section 10)",
}

MAN = {
    "C11": {"text": "seeded search over state histories and proof queries served by the real StateDB to a light client through a corrupting/transplanting channel; honest proofs must be accepted by the repo verifier and by an independent re-implementation, and no corrupted proof may be accepted for a statement that is false in the model. Sampling, not proof; found and fixed one genuine verifier defect.",
            "ref": "5 C11", "note": "trusted: the state model, the independent verifier (60 lines, written from the construction), sha256; a verifier panic on a malformed proof counts as rejection",
            "technique": "deterministic simulation: seeded histories + message-corruption fault injection between full node and light client, independent verifier as oracle"},
    "C12": {"text": "seeded search over histories of puts, contract sessions, nested snapshots/rollbacks, commits and restarts on the real BlockState/StateDB/ContractState over a simulated disk, compared read-by-read with a model holding an explicit snapshot stack and root-by-root with a fresh state built from surviving writes only.",
            "ref": "5 C12", "note": "trusted: the model; API usage restricted to the executor's discipline (one Update per block state, sessions staged or rolled back to their savepoint)",
            "technique": "deterministic simulation: seeded operation histories with rollback/restart against a reference model with an explicit snapshot stack"},
    "C10": {"text": "seeded search over histories of update/delete batches, restarts, historical-root reads and crashes inside the commit on the real pkg/trie over a simulated disk; every step is compared with a map model and the root with a freshly built trie (history independence). Sampling, not proof; found and fixed one genuine defect.",
            "ref": "5 C10", "note": "trusted: the map model, simdisk's write-unit semantics (tx atomic, bulk chunked), sha256",
            "technique": "deterministic simulation: seeded operation histories + crash/restart fault injection against a reference map model, ddmin-minimised replay"},
}
