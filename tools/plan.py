"""Which worlds decide which property, and the static texts that go into evidence."""

PLAN = {
    "C01": [{"world": "exec", "share": 1, "probes": ["block-with-fees", "zero-fee-block", "no-coinbase-block-with-fees", "voting-reward-paid"]}],
    "C02": [{"world": "exec", "share": 1, "probes": ["block-with-error-and-success-receipts", "voting-reward-paid"]}],
    "C03": [{"world": "exec", "share": 1, "probes": ["error-receipt", "error-receipt-fee-delegation"]}],
    "C04": [{"world": "exec", "share": 1, "probes": []}],
    "C14": [{"world": "exec", "share": 1, "probes": ["byzantine-payload-admitted"]}],
    "C05": [{"world": "chain", "share": 1, "probes": ["reorg-depth-1", "reorg-depth-2", "reorg-depth-3", "abandoned-tx-checked", "extended-own-tip-at-end"]}],
    "C06": [{"world": "chain", "share": 1, "probes": ["crash-scan-connect", "crash-scan-orphan-chain", "crash-scan-reorg", "recovery-wrote-to-disk"]}],
    "C07": [{"world": "chain", "share": 1, "probes": ["reorg-depth-1", "reorg-depth-2", "reorg-depth-3", "reorg-with-handback", "extended-own-tip-at-end"]}],
    "C10": [{"world": "store-trie", "share": 1,
             "probes": ["delete-absent-only", "trie-emptied", "died-in-commit", "historical-root-read"]}],
    "C11": [{"world": "store-proof", "share": 1,
             "probes": ["inclusion-proof", "absence-empty-subtree", "absence-foreign-leaf", "historical-root-query", "verifier-panic-on-malformed"]}],
    "C12": [{"world": "store-snap", "share": 1,
             "probes": ["handle-rollback", "session-abandoned", "nested-rollback"]}],
}

LEVEL = {}

_EXEC = ("one case = a seeded run of the EXEC world: swarm config (public/private fee regime, hardfork heights so that versions 0..5 occur inside a run, coinbase none/fresh/sender, "
         "vault, 3-8 accounts, 1-2 validators) and a step list of client submissions (transfers incl. to new accounts/names/self, stake/unstake/voteBP/voteDAO, name create/update, "
         "stub-VM deploy/call/fee-delegation scripts that write storage, send coin, emit events, charge fees and fail at run time, nonce gaps/dups) and block steps "
         "(real mempool -> real block factory/tx executor -> producer commit -> delivery to fresh validators). distinct = distinct (block no, #txs, #error receipts, fork version, coinbase?) digests; non-trivial = at least one block carried transactions. ")
RULES = {
    "C01": _EXEC + "Oracle: independent full-state walk (trie key walk + raw store) before/after every block on producer and validator: sum of balances equal, or minus the receipts' fees when the header has no coinbase.",
    "C02": _EXEC + "Oracle: every produced block is re-verified r times (seeded sibling-update order, re-randomised map order) and then connected by fresh validators; best block, state root, stored receipts and the full-state walk must be identical to the producer's.",
    "C03": _EXEC + "Oracle: a lab re-executes each block transaction by transaction (each on its own committed block state) and diffs the full state (all accounts and storage slots) around every tx: ERROR => exactly {payer -fee, sender nonce}; SUCCESS => only the sender nonce moves, sum of balance deltas = -fee, plain transfers move exactly the amount; txs one by one + reward must reach the block's root.",
    "C04": _EXEC + "Plus an adversary: wrong-key signatures, foreign chain-id hashes (other chain / other fork version), replays of included txs, bodies altered after signing, reused nonces. Oracle: none is admitted or included; final history check on every node: executed nonces 1,2,3.. per account, no hash twice, every executed tx verifies under its sender key and carries the block's chain-id hash.",
    "C14": _EXEC + "Plus a Byzantine client: governance payloads from a JSON grammar (missing/extra/wrongly typed/null/nested args, huge numbers, duplicate keys, unknown commands) to aergo.system/name/enterprise and txs with arbitrary field lengths. Oracle: admission never panics; after admitting anything the producer still produces and validators still validate without panic.",
    "C11": "one case = a seeded history of account puts / contract storage sessions / commits on the real StateDB, interleaved with proof queries (account, contract account, contract variable; present, absent-empty-subtree, absent-foreign-leaf; plain and compressed; current and historical roots) whose answer passes through a corrupting channel (10 mutation kinds incl. transplant to another key/root/encoding and relabelling inclusion as absence); distinct = distinct committed roots; non-trivial = at least one corrupted proof was judged",
    "C12": "one case = a seeded history of account puts, contract sessions (open, set/delete, nested handle savepoints, stage or abandon), block-level snapshot / rollback to any earlier snapshot, commit (Update+Commit, new StateDB) and reopen; every read is compared with a model that keeps an explicit snapshot stack, every committed root with a fresh state built from the surviving writes; distinct = distinct committed roots; non-trivial = at least one rollback or restart",
    "C10": "one case = one seeded history of sorted update/delete batches (one Update+Commit per batch) over a key universe built to collide on long prefixes, "
           "with reopen / historical-root / crash-in-commit steps; distinct = distinct (model size, committed root) digests; non-trivial = the run contained at least one restart or crash fault",
}

_CHAIN = ("one case = a seeded run of the CHAIN world: a node under test on a simulated disk receives, in a generated order with duplicates, children before parents and interleaved branches, "
          "the blocks of a tree grown by up to 4 real producer nodes (shared/conflicting transfers) plus forged variants (bad state/receipts/tx root re-signed, altered body under a genuine id, altered id over a genuine body, destroyed signature, forged tx inside; descendants re-linked and re-signed), "
          "with clean restarts in between. A model of the specified fork choice (longest fully valid branch, first-seen on ties, one orphan per parent) runs next to it. distinct = distinct (stored blocks, best height, orphans, branches) digests; non-trivial = a fork, forgery or restart occurred. ")
RULES.update({
    "C05": _CHAIN + "Oracle after every delivery: best links by parent hash to genesis; height index equals that path and has nothing above best; every main-chain tx resolves to (block, index) and has a receipt; receipts per main block with txs; txs only on abandoned branches are not reported confirmed; state-db root = best block's root and carries the state marker; no reorg marker; a rejected block leaves best/state/raw chain store untouched; every stored block sits under the digest of its own header.",
    "C07": _CHAIN + "Oracle after every delivery: node best = model best (longer valid branch adopted; shorter/equal/invalid never displaces); on a reorg the txs handed back to the pool are exactly txs(old branch) - txs(new branch); at the end the node accepts one more block on its own tip and its full state (all accounts) equals that of a reference node that only ever saw the winning branch.",
})

REALSTUB = {
    "*": {"real": ["code under test as named in DESIGN.md section 5"], "stub": ["LuaJIT VM (contract/zz_vm_stub.go)", "disk (simdisk implements aergo-lib db.DB)"]},
    "C10": {"real": ["pkg/trie (Update, Commit, StageUpdates, Get, LoadCache)", "internal/common.Hasher"],
            "stub": ["disk: simdisk (db.DB) with journal, bulk chunking and crash points", "goroutine choice of sibling subtree updates: simgo.Pair (seeded order)"]},
}

ASSUME = {
    "*": ["sampling, not proof: bounds as in DESIGN.md section 5", "overlay-derived files track the working tree by pattern"],
}

# ---- manifest texts -------------------------------------------------------
NA = {
    "C20": "read-only contract execution is a statement about every path through the LuaJIT host callbacks (contract/vm_callback.go and the C modules); those sources cannot be built or run in this sandbox (LuaJIT absent, replaced by a stub) and the property has no schedule, clock, fault or interleaving in it, so deterministic simulation has nothing real to run; it needs source-level control-flow analysis, a different technique family (DESIGN.md section 10)",
}

_EXECNOTE = "trusted: the harness node wiring (fake ComponentHub adapters replace the actor mailboxes), the VM stub, the full-state walker; sampling only"
MAN = {
    "C01": {"text": "seeded search over block histories of the real mempool/block-factory/executor/validator pipeline under all fee regimes and coinbase settings, with an independent full-state balance sum before and after every executed block on producer and validator.", "ref": "5 C01", "note": _EXECNOTE,
            "technique": "deterministic simulation: seeded transaction/block histories over a swarm of configurations, conservation invariant checked after every block by an independent state walker"},
    "C02": {"text": "seeded search over block histories; every produced block is re-executed several times under seeded sibling-update order and by fresh validator nodes from the network path; roots, receipts and full-state dumps must be byte-identical.", "ref": "5 C02", "note": _EXECNOTE,
            "technique": "deterministic simulation: seeded histories + seeded schedule of trie sibling updates, cross-node and repeated-execution agreement oracle"},
    "C03": {"text": "seeded search over block histories with failure injected at every phase (rejected, run-time failure after partial writes, success); a lab applies each transaction alone with a full-state diff and requires the outcome trichotomy and that sequential application reaches the block's root.", "ref": "5 C03", "note": _EXECNOTE + "; blocks that register/update a name and also use a name are not judged (name resolution reads the block-start state by design)",
            "technique": "deterministic simulation: seeded histories with injected transaction failures, per-transaction full-state diff against the specified outcome"},
    "C04": {"text": "seeded search with an adversarial client (forged signature, foreign chain id, replay, altered body, reused nonce) against pool admission and block production, plus a history check of executed nonces/hashes/signatures/chain ids on every node.", "ref": "5 C04", "note": _EXECNOTE,
            "technique": "deterministic simulation: seeded adversarial client workload, history check over the recorded main chain"},
    "C14": {"text": "seeded search with a Byzantine client over governance payload grammar and raw field lengths; no panic in admission, production or validation, and the producer keeps producing. Found and fixed three genuine crash defects.", "ref": "5 C14", "note": _EXECNOTE,
            "technique": "deterministic simulation: seeded Byzantine-client input generation through the real admission -> production -> validation pipeline, crash oracle"},
    "C11": {"text": "seeded search over state histories and proof queries served by the real StateDB to a light client through a corrupting/transplanting channel; honest proofs must be accepted by the repo verifier and by an independent re-implementation, and no corrupted proof may be accepted for a statement that is false in the model. Sampling, not proof; found and fixed one genuine verifier defect.",
            "ref": "5 C11", "note": "trusted: the state model, the independent verifier (60 lines, written from the construction), sha256; a verifier panic on a malformed proof counts as rejection",
            "technique": "deterministic simulation: seeded histories + message-corruption fault injection between full node and light client, independent verifier as oracle"},
    "C12": {"text": "seeded search over histories of puts, contract sessions, nested snapshots/rollbacks, commits and restarts on the real BlockState/StateDB/ContractState over a simulated disk, compared read-by-read with a model holding an explicit snapshot stack and root-by-root with a fresh state built from surviving writes only.",
            "ref": "5 C12", "note": "trusted: the model; API usage restricted to the executor's discipline (one Update per block state, sessions staged or rolled back to their savepoint)",
            "technique": "deterministic simulation: seeded operation histories with rollback/restart against a reference model with an explicit snapshot stack"},
    "C05": {"text": "seeded search over block trees (forks, orphans, duplicates, forged and invalid blocks, restarts) delivered in generated orders to a real ChainService on a simulated disk; the full C05 invariant set is evaluated through the query surface and a raw key scan after every delivery. Found and fixed three genuine defects (stale signature verdict, refused reorg leaving state at the branch point, sender-supplied block id).",
            "ref": "5 C05", "note": "trusted: the fork-choice model (longest valid branch, first seen wins ties), the harness hub adapters, VM stub; permissive consensus plug (no slot/timestamp veto) so that arbitrary trees are admissible",
            "technique": "deterministic simulation: seeded block-tree arrival orders with forged/invalid blocks and restarts, invariants checked after every delivered block, ddmin-minimised replay"},
    "C07": {"text": "seeded search over competing branches (all fork depths/length differences in bounds, shared and conflicting txs, invalid block at any position of the longer branch, any interleaving incl. children first); node best vs a model of the specified fork choice after every delivery, exact hand-back set on reorg, final full-state equality with a reference node that only saw the winning branch, and the node must still extend its own tip.",
            "ref": "5 C07", "note": "trusted: the fork-choice model, reference node wiring, VM stub; LIB-limited forks are covered by the DPOS world (C08), not here",
            "technique": "deterministic simulation: seeded delivery interleavings of competing branches against a reference fork-choice model and a reference node"},
    "C10": {"text": "seeded search over histories of update/delete batches, restarts, historical-root reads and crashes inside the commit on the real pkg/trie over a simulated disk; every step is compared with a map model and the root with a freshly built trie (history independence). Sampling, not proof; found and fixed one genuine defect.",
            "ref": "5 C10", "note": "trusted: the map model, simdisk's write-unit semantics (tx atomic, bulk chunked), sha256",
            "technique": "deterministic simulation: seeded operation histories + crash/restart fault injection against a reference map model, ddmin-minimised replay"},
}

# ---- fragments: every tools/plan_d/*.py may update PLAN, LEVEL, RULES, REALSTUB, ASSUME, MAN, NA ----
import glob as _glob, os as _os
for _f in sorted(_glob.glob(_os.path.join(_os.path.dirname(_os.path.abspath(__file__)), "plan_d", "*.py"))):
    exec(compile(open(_f).read(), _f, "exec"))
