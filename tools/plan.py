"""Which worlds decide which property, and the static texts that go into evidence."""

PLAN = {
    "C01": [{"world": "exec", "share": 1, "probes": ["block-with-fees", "zero-fee-block", "no-coinbase-block-with-fees", "voting-reward-paid"]}],
    "C02": [{"world": "exec", "share": 1, "probes": ["block-with-error-and-success-receipts", "voting-reward-paid"]}],
    "C03": [{"world": "exec", "share": 1, "probes": ["error-receipt", "error-receipt-fee-delegation"]}],
    "C04": [{"world": "exec", "share": 1, "probes": []}],
    "C14": [{"world": "exec", "share": 1, "probes": ["byzantine-payload-admitted"]}],
    "C05": [{"world": "chain", "share": 1, "probes": ["reorg-depth-1", "reorg-depth-2", "reorg-depth-3", "abandoned-tx-checked", "extended-own-tip-at-end"]}],
    "C06": [{"world": "chain", "share": 1, "probes": ["crash-scan-connect", "crash-scan-orphan-chain", "crash-scan-reorg", "recovery-wrote-to-disk"]}],
    "C07": [{"world": "chain", "share": 3, "probes": ["reorg-depth-1", "reorg-depth-2", "reorg-depth-3", "reorg-with-handback", "extended-own-tip-at-end"]},
            {"world": "dpos", "share": 1, "probes": ["longer-chain-handed-over-after-faults"]}],
    "C08": [{"world": "dpos", "share": 1, "probes": ["liveness-phase-passed"]}],
    "C09": [{"world": "dpos", "share": 1, "probes": ["liveness-phase-passed"]}],
    "C10": [{"world": "store-trie", "share": 1,
             "probes": ["delete-absent-only", "trie-emptied", "died-in-commit", "historical-root-read"]}],
    "C11": [{"world": "store-proof", "share": 1,
             "probes": ["inclusion-proof", "absence-empty-subtree", "absence-foreign-leaf", "historical-root-query", "verifier-panic-on-malformed"]}],
    "C12": [{"world": "store-snap", "share": 1,
             "probes": ["handle-rollback", "session-abandoned", "nested-rollback"]}],
}

LEVEL = {"C06": "fault_enumeration"}

_EXEC = ("one case = a seeded run of the EXEC world: swarm config (public/private fee regime, hardfork heights so that versions 0..5 occur inside a run, coinbase none/fresh/sender, "
         "vault, 3-8 accounts, 1-2 validators) and a step list of client submissions (transfers incl. to new accounts/names/self, stake/unstake/voteBP/voteDAO, name create/update, "
         "stub-VM deploy/call/fee-delegation scripts that write storage, send coin, emit events, charge fees and fail at run time, nonce gaps/dups) and block steps "
         "(real mempool -> real block factory/tx executor -> producer commit -> delivery to fresh validators). distinct = distinct (block no, #txs, #error receipts, fork version, coinbase?) digests; non-trivial = at least one block carried transactions. ")
RULES = {
    "C01": _EXEC + "Oracle: independent full-state walk (trie key walk + raw store) before/after every block on producer and validator: sum of balances equal, or minus the receipts' fees when the header has no coinbase.",
    "C02": _EXEC + "Oracle: every produced block is re-verified r times (seeded sibling-update order, re-randomised map order) and then connected by fresh validators; best block, state root, stored receipts and the full-state walk must be identical to the producer's.",
    "C03": _EXEC + "Oracle: a lab re-executes each block transaction by transaction (each on its own committed block state) and diffs the full state (all accounts and storage slots) around every tx: ERROR => exactly {payer -fee, sender nonce}; SUCCESS => only the sender nonce moves, sum of balance deltas = -fee, plain transfers move exactly the amount; txs one by one + reward must reach the block's root.",
    "C04": _EXEC + "Plus an adversary: wrong-key signatures, foreign chain-id hashes (other chain / other fork version), replays of included txs, bodies altered after signing, reused nonces. Oracle: none is admitted or included; final history check on every node: executed nonces 1,2,3.. per account, no hash twice, every executed tx verifies under its sender key and carries the block's chain-id hash.",
    "C14": _EXEC + "Plus a Byzantine client: governance payloads from a JSON grammar (missing/extra/wrongly typed/null/nested args, huge numbers, duplicate keys, unknown commands) to aergo.system/name/enterprise and txs with arbitrary field lengths. Oracle: admission never panics; after admitting anything the producer still produces and validators still validate without panic.",
    "C11": "one case = a seeded history of account puts / contract storage sessions / commits on the real StateDB, interleaved with proof queries (account, contract account, contract variable; present, absent-empty-subtree, absent-foreign-leaf; plain and compressed; current and historical roots) whose answer passes through a corrupting channel (10 mutation kinds incl. transplant to another key/root/encoding and relabelling inclusion as absence); distinct = distinct committed roots; non-trivial = at least one corrupted proof was judged",
    "C12": "one case = a seeded history of account puts, contract sessions (open, set/delete, nested handle savepoints, stage or abandon), block-level snapshot / rollback to any earlier snapshot, commit (Update+Commit, new StateDB) and reopen; every read is compared with a model that keeps an explicit snapshot stack, every committed root with a fresh state built from the surviving writes; distinct = distinct committed roots; non-trivial = at least one rollback or restart",
    "C10": "one case = one seeded history of sorted update/delete batches (one Update+Commit per batch) over a key universe built to collide on long prefixes, "
           "with reopen / historical-root / crash-in-commit steps; distinct = distinct (model size, committed root) digests; non-trivial = the run contained at least one restart or crash fault",
}

_CHAIN = ("one case = a seeded run of the CHAIN world: a node under test on a simulated disk receives, in a generated order with duplicates, children before parents and interleaved branches, "
          "the blocks of a tree grown by up to 4 real producer nodes (shared/conflicting transfers) plus forged variants (bad state/receipts/tx root re-signed, altered body under a genuine id, altered id over a genuine body, destroyed signature, forged tx inside; descendants re-linked and re-signed), "
          "with clean restarts in between. A model of the specified fork choice (longest fully valid branch, first-seen on ties, one orphan per parent) runs next to it. distinct = distinct (stored blocks, best height, orphans, branches) digests; non-trivial = a fork, forgery or restart occurred. ")
RULES.update({
    "C05": _CHAIN + "Oracle after every delivery: best links by parent hash to genesis; height index equals that path and has nothing above best; every main-chain tx resolves to (block, index) and has a receipt; receipts per main block with txs; txs only on abandoned branches are not reported confirmed; state-db root = best block's root and carries the state marker; no reorg marker; a rejected block leaves best/state/raw chain store untouched; every stored block sits under the digest of its own header.",
    "C06": _CHAIN + "For C06 some deliveries are crash-scanned: the delivery is first done fault-free while the disk journals its durable write units (single set/delete, committed DB transaction, flushed bulk; state-store bulks additionally split into chunks of 1/2/4 ops in a seeded order of the map-ordered part, and torn inside a chunk), then for EVERY prefix of that journal (and torn prefixes) the disk is rebuilt as the crash leaves it, the node restarts through the production boot + Recover path (optionally dying once more inside recovery), and the oracle requires: recovery succeeds; all C05 invariants incl. state marker of best; best is the old tip, the new tip or a tip the connection passes through (reorg: old or new branch tip only); re-feeding the same blocks reaches the fault-free best block and state root. One evaluation = one run; crash trials are counted in faults_fired.",
    "C07": _CHAIN + "Oracle after every delivery: node best = model best (longer valid branch adopted; shorter/equal/invalid never displaces); on a reorg the txs handed back to the pool are exactly txs(old branch) - txs(new branch); at the end the node accepts one more block on its own tip and its full state (all accounts) equals that of a reference node that only ever saw the winning branch. A quarter of the workers run the DPOS world (real consensus, clocks, LIB veto): after faults stop, a correct node that is handed, completely and in order, the strictly longer main chain of another correct node forking at or above its LIB must switch to it.",
})

_DPOS = ("one case = a seeded run of the DPOS world: 1/3/4 real DPoS producer nodes + 0-2 observers in one process (real chain service, dpos.Status/libStatus/bp.Cluster/slot, block factory generateBlock, own simulated disk and own skewed clock each), block interval 1 or 2 s; steps: slot/tick (world clock moves, every producer acts as a correct producer would at ITS local time through the production getBpInfo decision), deliver/drop/duplicate of individual in-flight blocks (reordering and delay follow), flush, partition/heal, clock skew up to +-3 slots, clean restart, sync (stand-in for the syncer: fetch a peer's main chain), transactions, a corrupting relay (one header field altered, signature kept; fields enumerated by reflection), and with 4 producers one Byzantine producer (equivocation = two siblings for one of its slots shown to different peers, out-of-turn incl. boundary milliseconds, future-dated, and a non-member signer). After the step list faults stop (heal, clocks right, stale traffic dropped) and 6 rounds are run. distinct = distinct (node, LIB, best-LIB distance, n) digests; non-trivial = at least one fault fired. ")
RULES.update({
    "C08": _DPOS + "Oracle after every step on every correct node: reported LIB height never decreases; the LIB block is on the node's main chain; every (height, block) that was ever at or below a reported LIB is still there; when the LIB advances, blocks of > 2/3 distinct producers exist at or above it on the main chain (independent recount); no two correct nodes hold irreversible blocks on conflicting branches (f < n/3); a clean restart restores the same LIB; after faults stop every node's LIB advances within 6 rounds and all nodes are on one best block.",
    "C09": _DPOS + "Plus, before the run, the repo's slot-owner decision is compared with an independently written owner function on every millisecond around 2n+2 consecutive slot boundaries for a generated n in 1..100 (exactly one owner, the specified one). Oracle for every block that appears on a correct node's main chain: signature verifies over the full header with the header's key, signer is in the node's current producer set, its index owns the slot of the timestamp (independent function), and no two producers have accepted blocks in one slot; for every block a correct node keeps at arrival: slot(timestamp) < slot(local clock) + 2; a block whose header field was altered in flight (signature kept) is never kept.",
})

REALSTUB = {
    "*": {"real": ["code under test as named in DESIGN.md section 5"], "stub": ["LuaJIT VM (contract/zz_vm_stub.go)", "disk (simdisk implements aergo-lib db.DB)"]},
    "C10": {"real": ["pkg/trie (Update, Commit, StageUpdates, Get, LoadCache)", "internal/common.Hasher"],
            "stub": ["disk: simdisk (db.DB) with journal, bulk chunking and crash points", "goroutine choice of sibling subtree updates: simgo.Pair (seeded order)"]},
}

ASSUME = {
    "*": ["sampling, not proof: bounds as in DESIGN.md section 5", "overlay-derived files track the working tree by pattern"],
}

# ---- manifest texts -------------------------------------------------------
NA = {
    "C20": "read-only contract execution is a statement about every path through the LuaJIT host callbacks (contract/vm_callback.go and the C modules); those sources cannot be built or run in this sandbox (LuaJIT absent, replaced by a stub) and the property has no schedule, clock, fault or interleaving in it, so deterministic simulation has nothing real to run; it needs source-level control-flow analysis, a different technique family (DESIGN.md section 10)",
}

_EXECNOTE = "trusted: the harness node wiring (fake ComponentHub adapters replace the actor mailboxes), the VM stub, the full-state walker; sampling only"
MAN = {
    "C01": {"text": "seeded search over block histories of the real mempool/block-factory/executor/validator pipeline under all fee regimes and coinbase settings, with an independent full-state balance sum before and after every executed block on producer and validator.", "ref": "5 C01", "note": _EXECNOTE,
            "technique": "deterministic simulation: seeded transaction/block histories over a swarm of configurations, conservation invariant checked after every block by an independent state walker"},
    "C02": {"text": "seeded search over block histories; every produced block is re-executed several times under seeded sibling-update order and by fresh validator nodes from the network path; roots, receipts and full-state dumps must be byte-identical.", "ref": "5 C02", "note": _EXECNOTE,
            "technique": "deterministic simulation: seeded histories + seeded schedule of trie sibling updates, cross-node and repeated-execution agreement oracle"},
    "C03": {"text": "seeded search over block histories with failure injected at every phase (rejected, run-time failure after partial writes, success); a lab applies each transaction alone with a full-state diff and requires the outcome trichotomy and that sequential application reaches the block's root.", "ref": "5 C03", "note": _EXECNOTE + "; blocks that register/update a name and also use a name are not judged (name resolution reads the block-start state by design)",
            "technique": "deterministic simulation: seeded histories with injected transaction failures, per-transaction full-state diff against the specified outcome"},
    "C04": {"text": "seeded search with an adversarial client (forged signature, foreign chain id, replay, altered body, reused nonce) against pool admission and block production, plus a history check of executed nonces/hashes/signatures/chain ids on every node.", "ref": "5 C04", "note": _EXECNOTE,
            "technique": "deterministic simulation: seeded adversarial client workload, history check over the recorded main chain"},
    "C14": {"text": "seeded search with a Byzantine client over governance payload grammar and raw field lengths; no panic in admission, production or validation, and the producer keeps producing. Found and fixed three genuine crash defects.", "ref": "5 C14", "note": _EXECNOTE,
            "technique": "deterministic simulation: seeded Byzantine-client input generation through the real admission -> production -> validation pipeline, crash oracle"},
    "C11": {"text": "seeded search over state histories and proof queries served by the real StateDB to a light client through a corrupting/transplanting channel; honest proofs must be accepted by the repo verifier and by an independent re-implementation, and no corrupted proof may be accepted for a statement that is false in the model. Sampling, not proof; found and fixed one genuine verifier defect.",
            "ref": "5 C11", "note": "trusted: the state model, the independent verifier (60 lines, written from the construction), sha256; a verifier panic on a malformed proof counts as rejection",
            "technique": "deterministic simulation: seeded histories + message-corruption fault injection between full node and light client, independent verifier as oracle"},
    "C12": {"text": "seeded search over histories of puts, contract sessions, nested snapshots/rollbacks, commits and restarts on the real BlockState/StateDB/ContractState over a simulated disk, compared read-by-read with a model holding an explicit snapshot stack and root-by-root with a fresh state built from surviving writes only.",
            "ref": "5 C12", "note": "trusted: the model; API usage restricted to the executor's discipline (one Update per block state, sessions staged or rolled back to their savepoint)",
            "technique": "deterministic simulation: seeded operation histories with rollback/restart against a reference model with an explicit snapshot stack"},
    "C05": {"text": "seeded search over block trees (forks, orphans, duplicates, forged and invalid blocks, restarts) delivered in generated orders to a real ChainService on a simulated disk; the full C05 invariant set is evaluated through the query surface and a raw key scan after every delivery. Found and fixed three genuine defects (stale signature verdict, refused reorg leaving state at the branch point, sender-supplied block id).",
            "ref": "5 C05", "note": "trusted: the fork-choice model (longest valid branch, first seen wins ties), the harness hub adapters, VM stub; permissive consensus plug (no slot/timestamp veto) so that arbitrary trees are admissible",
            "technique": "deterministic simulation: seeded block-tree arrival orders with forged/invalid blocks and restarts, invariants checked after every delivered block, ddmin-minimised replay"},
    "C06": {"text": "for sampled deliveries (linear connect with txs, orphan-chain resolution, reorganisations) of seeded block-tree histories, a crash is injected before EVERY durable write unit of the delivery (plus torn state bulks and a second crash inside recovery); after restart + recovery the C05 invariants, the legitimacy of the recovered tip and convergence after re-feeding are checked. One known finding (re-fed stored side branch is ignored until the next block) is reported as KNOWN-FINDING and checked in its weakened form.",
            "ref": "5 C06", "note": "trusted: simdisk's write-unit semantics (set/delete and DB transactions atomic; chain-store bulks atomic as badger commits small write batches in one transaction; state-store bulks chunked and torn), the fork-choice model; crash points are enumerated per sampled delivery, scenarios are sampled",
            "technique": "deterministic simulation with fault injection: journaling simulated disk, crash enumerated at every durable write unit of sampled block connections/reorganisations, restart through the real recovery path"},
    "C07": {"text": "seeded search over competing branches (all fork depths/length differences in bounds, shared and conflicting txs, invalid block at any position of the longer branch, any interleaving incl. children first); node best vs a model of the specified fork choice after every delivery, exact hand-back set on reorg, final full-state equality with a reference node that only saw the winning branch, and the node must still extend its own tip.",
            "ref": "5 C07", "note": "trusted: the fork-choice model, reference node wiring, VM stub; LIB-limited forks are covered by the DPOS world (C08), not here",
            "technique": "deterministic simulation: seeded delivery interleavings of competing branches against a reference fork-choice model and a reference node"},
    "C08": {"text": "seeded search over interleavings of production, delivery, loss, duplication, partition, clock skew, restarts and one equivocating/out-of-turn producer among 1/3/4 real DPoS nodes; LIB monotone / on-chain / never undone / quorum-backed / agreeing across nodes / restored by restart, and bounded finality progress + convergence once faults stop. Found and fixed one genuine defect (LIB moving backwards / onto an abandoned branch after a reorganization).",
            "ref": "5 C08", "note": "trusted: harness network/clock, the sync stand-in (real syncer is checked in C17), VM stub; n <= 4, <= 160 steps per run; restarts are clean (crash points are C06)",
            "technique": "deterministic simulation: seeded schedules of a multi-node DPoS network with message, clock, partition, restart and Byzantine-producer faults; invariants after every event, bounded liveness after faults stop"},
    "C09": {"text": "seeded search with Byzantine producers (out-of-turn at slot-boundary milliseconds, future-dated, non-member, equivocation), skewed clocks and a relay corrupting every header field in turn; every block a correct node connects is re-judged by an independent slot-owner function / signature / membership check, plus a millisecond-exact scan of the slot-owner decision for n in 1..100.",
            "ref": "5 C09", "note": "trusted: the independent owner function (3 lines, from the statement), harness network/clock; 'accepted' = on a correct node's main chain (side-branch blocks are judged when a reorganization connects them); producer set = genesis set (election needs > 300 blocks)",
            "technique": "deterministic simulation: seeded Byzantine-producer and corrupting-relay faults under clock skew, per-accepted-block oracle written from the specification"},
    "C10": {"text": "seeded search over histories of update/delete batches, restarts, historical-root reads and crashes inside the commit on the real pkg/trie over a simulated disk; every step is compared with a map model and the root with a freshly built trie (history independence). Sampling, not proof; found and fixed one genuine defect.",
            "ref": "5 C10", "note": "trusted: the map model, simdisk's write-unit semantics (tx atomic, bulk chunked), sha256",
            "technique": "deterministic simulation: seeded operation histories + crash/restart fault injection against a reference map model, ddmin-minimised replay"},
}

# ---- fragments: every tools/plan_d/*.py may update PLAN, LEVEL, RULES, REALSTUB, ASSUME, MAN, NA ----
import glob as _glob, os as _os
for _f in sorted(_glob.glob(_os.path.join(_os.path.dirname(_os.path.abspath(__file__)), "plan_d", "*.py"))):
    exec(compile(open(_f).read(), _f, "exec"))
