#!/bin/bash
# usage: trymut.sh <patch.diff> <PROP> [tier]   — apply a seeded change to /repo, run the check, undo.
set -u
P=$(realpath "$1"); PROP=$2; TIER=${3:-quick}
cd /repo || exit 2
if ! git diff --quiet; then echo "/repo dirty, refusing"; exit 2; fi
git apply "$P" || { echo "patch does not apply"; exit 2; }
cd /verif && VERIF_EVIDENCE_DIR=/var/tmp/ev ./bin/verif check "$PROP" "$TIER"; rc=$?
git -C /repo checkout -- . 
git -C /repo status --short | grep -v '^??' 
echo "trymut exit=$rc"
exit $rc
