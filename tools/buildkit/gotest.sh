#!/bin/bash
# usage: gotest.sh <repo-dir> <go test args...>
# Builds/tests packages of an aergo checkout that need package `contract` (cgo + LuaJIT, whose sources are
# absent in this sandbox) by swapping the VM for a pure-Go stub through `go build -overlay`. Nothing is
# written into <repo-dir>. Example: gotest.sh /tmp/wt1 -run TestX ./chain
export GOFLAGS=-mod=mod GOPROXY=off GOSUMDB=off GOTOOLCHAIN=local CGO_ENABLED=0 ARGLIB_LEVEL=error
export PATH=/opt/veriftools/go1.26.8/bin:$PATH
R=$(realpath "$1"); shift
D=$(mktemp -d /var/tmp/bk-XXXX); trap "rm -rf $D" EXIT
python3 /var/tmp/buildkit/tools/gen_overlay.py "$R" $D >/dev/null || exit 2
cp "$R/go.mod" "$R/go.sum" $D/; cat $D/replaces.txt >> $D/go.mod
cd "$R" && go test -tags verif -overlay $D/overlay.json -modfile $D/go.mod -vet=off -count=1 "$@"
