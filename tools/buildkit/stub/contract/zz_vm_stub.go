//go:build verif

// Pure-Go stand-in for the cgo/LuaJIT part of package contract (whose C sources are
// absent in this sandbox). contract.go (Execute, fee and redeploy logic) and errors.go
// stay real. The stub interprets a call/deploy payload as a tiny deterministic script
// executed through the real ContractState / AccountState plumbing:
//
//	set K V ; del K ; send <hexaddr> <amount> ; event NAME ; fee N ; ret S ; fail ; sysfail
//
// Nothing about Lua semantics is claimed.
package contract

import (
	"context"
	"encoding/hex"
	"errors"
	"fmt"
	"math/big"
	"os"
	"strings"

	"github.com/aergoio/aergo-lib/log"
	"github.com/aergoio/aergo/v2/state"
	"github.com/aergoio/aergo/v2/state/statedb"
	"github.com/aergoio/aergo/v2/types"
	"github.com/aergoio/aergo/v2/types/dbkey"
)

type ChainAccessor interface {
	GetBlockByNo(blockNo types.BlockNo) (*types.Block, error)
	GetBestBlock() (*types.Block, error)
}

type vmContext struct {
	bs        *state.BlockState
	sender    *state.AccountState
	receiver  *state.AccountState
	blockInfo *types.BlockHeaderInfo
	isQuery   bool
	traceFile *os.File
}

var ctrLgr = log.NewLogger("contract")

const (
	maxCallDepth    = 64
	maxCallDepthOld = 5
)

func MaxCallDepth(version int32) int32 {
	if version >= 3 {
		return maxCallDepth
	}
	return maxCallDepthOld
}

func InitContext(numCtx int, logInternalOps bool)                 {}
func StartLStateFactory(numLStates, numClosers, numCloseLimit int) {}
func LoadDatabase(dataDir string) error                            { return nil }
func CloseDatabase()                                               {}
func SaveRecoveryPoint(bs *state.BlockState) error                 { return nil }

func NewVmContext(
	execCtx context.Context,
	blockState *state.BlockState,
	cdb ChainAccessor,
	sender, receiver *state.AccountState,
	contractState *statedb.ContractState,
	senderID,
	txHash []byte,
	bi *types.BlockHeaderInfo,
	node string,
	confirmed, query bool,
	rp uint64,
	executionMode int,
	amount *big.Int,
	gasLimit uint64,
	feeDelegation, isMultiCall bool,
) *vmContext {
	return &vmContext{bs: blockState, sender: sender, receiver: receiver, blockInfo: bi, isQuery: query}
}

// VerifStubHook lets the simulator observe every stub execution (nil in normal use).
var VerifStubHook func(kind string, contract []byte, script string)

// runScript mirrors the real VM's discipline: the contract storage is rolled back to
// the savepoint taken at call start when the script fails, and accounts touched by the
// call are written only on success.
func runScript(cs *statedb.ContractState, script string, ctx *vmContext) (rv string, evs []*types.Event, usedFee *big.Int, rerr error) {
	savepoint := cs.Snapshot()
	defer func() {
		if rerr != nil {
			_ = cs.Rollback(savepoint)
		}
	}()
	return runScriptBody(cs, script, ctx)
}

func runScriptBody(cs *statedb.ContractState, script string, ctx *vmContext) (string, []*types.Event, *big.Int, error) {
	var (
		events []*types.Event
		ret    string
		fee    = new(big.Int)
		third  []*state.AccountState
	)
	if VerifStubHook != nil {
		VerifStubHook("run", cs.GetID(), script)
	}
	for _, stmt := range strings.Split(script, ";") {
		f := strings.Fields(stmt)
		if len(f) == 0 {
			continue
		}
		switch f[0] {
		case "set":
			if len(f) < 3 {
				return "", events, fee, errors.New("stub: set needs 2 args")
			}
			if err := cs.SetData([]byte(f[1]), []byte(f[2])); err != nil {
				return "", events, fee, err
			}
		case "del":
			if len(f) < 2 {
				return "", events, fee, errors.New("stub: del needs 1 arg")
			}
			if err := cs.DeleteData([]byte(f[1])); err != nil {
				return "", events, fee, err
			}
		case "send":
			if len(f) < 3 {
				return "", events, fee, errors.New("stub: send needs 2 args")
			}
			addr, err := hex.DecodeString(f[1])
			if err != nil {
				return "", events, fee, errors.New("stub: bad address")
			}
			amt, ok := new(big.Int).SetString(f[2], 10)
			if !ok || amt.Sign() < 0 {
				return "", events, fee, errors.New("stub: bad amount")
			}
			var to *state.AccountState
			switch {
			case ctx.sender != nil && string(addr) == string(ctx.sender.ID()):
				to = ctx.sender
			case string(addr) == string(ctx.receiver.ID()):
				to = ctx.receiver
			default:
				for _, t := range third {
					if string(t.ID()) == string(addr) {
						to = t
					}
				}
				if to == nil {
					to, err = state.GetAccountState(addr, ctx.bs.StateDB)
					if err != nil {
						return "", events, fee, err
					}
					third = append(third, to)
				}
			}
			if err := state.SendBalance(ctx.receiver, to, amt); err != nil {
				return "", events, fee, err
			}
		case "event":
			name := "e"
			if len(f) > 1 {
				name = f[1]
			}
			events = append(events, &types.Event{ContractAddress: ctx.receiver.ID(), EventName: name,
				JsonArgs: "[]", EventIdx: int32(len(events))})
		case "fee":
			if len(f) > 1 {
				if n, ok := new(big.Int).SetString(f[1], 10); ok && n.Sign() >= 0 {
					fee.Add(fee, n)
				}
			}
		case "ret":
			if len(f) > 1 {
				ret = f[1]
			}
		case "fail":
			return "", events, fee, errors.New("stub: script failed")
		case "sysfail":
			return "", events, fee, newVmSystemError(errors.New("stub: system failure"))
		default:
			return "", events, fee, fmt.Errorf("stub: unknown statement %q", f[0])
		}
	}
	// like the real VM: accounts touched by the call are written only on success
	for _, t := range third {
		if err := t.PutState(); err != nil {
			return "", events, fee, err
		}
	}
	return ret, events, fee, nil
}

func Call(contractState *statedb.ContractState, payload, contractAddress []byte, ctx *vmContext) (string, []*types.Event, string, *big.Int, error) {
	code, _ := contractState.GetCode()
	if len(code) == 0 {
		return "", nil, "", new(big.Int), fmt.Errorf("not found contract %s", types.EncodeAddress(contractAddress))
	}
	rv, ev, fee, err := runScript(contractState, string(payload), ctx)
	return rv, ev, "", fee, err
}

func Create(contractState *statedb.ContractState, payload, contractAddress []byte, ctx *vmContext) (string, []*types.Event, string, *big.Int, error) {
	if len(payload) == 0 {
		return "", nil, "", new(big.Int), errors.New("contract code is required")
	}
	if err := contractState.SetCode(nil, payload); err != nil {
		return "", nil, "", new(big.Int), err
	}
	if err := contractState.SetData(dbkey.CreatorMeta(), []byte(types.EncodeAddress(ctx.sender.ID()))); err != nil {
		return "", nil, "", new(big.Int), err
	}
	rv, ev, fee, err := runScript(contractState, string(payload), ctx)
	return rv, ev, "", fee, err
}

func Query(contractAddress []byte, bs *state.BlockState, cdb ChainAccessor, contractState *statedb.ContractState, queryInfo []byte) ([]byte, error) {
	code, _ := contractState.GetCode()
	if len(code) == 0 {
		return nil, fmt.Errorf("not found contract %s", types.EncodeAddress(contractAddress))
	}
	return contractState.GetData(queryInfo)
}

func CheckFeeDelegation(contractAddress []byte, bs *state.BlockState, bi *types.BlockHeaderInfo, cdb ChainAccessor,
	contractState *statedb.ContractState, payload, txHash, sender, amount []byte) error {
	v, err := contractState.GetData([]byte("fd"))
	if err != nil {
		return err
	}
	if string(v) != "1" {
		return types.ErrNotAllowedFeeDelegation
	}
	return nil
}

func GetABI(contractState *statedb.ContractState, bs *state.BlockState) (*types.ABI, error) {
	code, _ := contractState.GetCode()
	if len(code) == 0 {
		return nil, errors.New("cannot find contract")
	}
	return &types.ABI{Version: "stub", Language: "stub"}, nil
}
