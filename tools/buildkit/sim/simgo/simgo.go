// Package simgo owns the goroutine choice of code that the overlay rewrote from
// `go f(); go g()` to simgo.Pair(f, g).
package simgo

// Order, when set by the simulator, decides which of the two sibling tasks runs
// first; both then run sequentially on the caller's goroutine. When nil (default)
// the original behaviour is kept: two goroutines.
var Order func() bool

// Pairs counts how often a pair was scheduled by the simulator.
var Pairs int64

func Pair(f, g func()) {
	if Order == nil {
		go f()
		go g()
		return
	}
	Pairs++
	if Order() {
		g()
		f()
	} else {
		f()
		g()
	}
}
