// Package simclock is the wall clock of code that the overlay rewrote from
// time.Now() to simclock.Now(): world time plus the skew of the node whose
// context is installed.
package simclock

import "time"

var (
	// Base is the simulated world time; Skew the installed node's offset.
	Base time.Time
	Skew time.Duration
	// Enabled switches the simulated clock on; otherwise the real clock is used.
	Enabled bool
)

func Now() time.Time {
	if !Enabled {
		return time.Now()
	}
	return Base.Add(Skew)
}

func Set(t time.Time)         { Base = t; Enabled = true }
func Advance(d time.Duration) { Base = Base.Add(d) }
