#!/usr/bin/env python3
"""Derive the build overlay from the CURRENT working tree of the repo.

usage: gen_overlay.py <repo> <outdir>

Writes <outdir>/overlay.json (+ derived files). Nothing is written below <repo>.
Exit status 2 (with the failing pattern named) means *build trouble*, never a verdict.
"""
import json, os, re, subprocess, sys

VERIF = os.path.dirname(os.path.dirname(os.path.abspath(__file__)))


def die(msg):
    sys.stderr.write("gen_overlay: " + msg + "\n")
    sys.exit(2)


def main():
    repo, out = os.path.abspath(sys.argv[1]), os.path.abspath(sys.argv[2])
    os.makedirs(out, exist_ok=True)
    repl = {}

    def derived(name, content):
        p = os.path.join(out, "derived", name)
        os.makedirs(os.path.dirname(p), exist_ok=True)
        with open(p, "w") as f:
            f.write(content)
        return p

    # 1. package contract: drop the cgo/LuaJIT part, keep contract.go/errors.go/statesql_params.go
    cdir = os.path.join(repo, "contract")
    keep = {"contract.go", "errors.go", "statesql_params.go"}
    for fn in sorted(os.listdir(cdir)):
        p = os.path.join(cdir, fn)
        if not os.path.isfile(p):
            continue
        if fn in keep:
            continue
        if fn.endswith(("_test.go",)):
            repl[p] = ""
            continue
        if fn.endswith((".go", ".c", ".h", ".lua")):
            repl[p] = ""
    src = open(os.path.join(cdir, "contract.go")).read()
    if src.count('import "C"\n') != 1:
        die('contract/contract.go: expected exactly one `import "C"` line')
    repl[os.path.join(cdir, "contract.go")] = derived("contract/contract.go", src.replace('import "C"\n', "", 1))
    repl[os.path.join(cdir, "zz_vm_stub.go")] = os.path.join(VERIF, "stub/contract/zz_vm_stub.go")

    # 2. shims: /verif/shims/<path with __>/x.go -> /repo/<path>/zz_verif_<x>.go
    sdir = os.path.join(VERIF, "shims")
    for d in sorted(os.listdir(sdir)):
        pkg = d.replace("__", "/")
        if not os.path.isdir(os.path.join(repo, pkg)):
            die("shim target package %s does not exist in the repo" % pkg)
        for fn in sorted(os.listdir(os.path.join(sdir, d))):
            if fn.endswith(".go"):
                repl[os.path.join(repo, pkg, "zz_verif_" + fn)] = os.path.join(sdir, d, fn)

    # 3. simulator packages: /verif/sim/** -> /repo/zz_verif/** (exist only in the overlay)
    simdir = os.path.join(VERIF, "sim")
    for root, _, files in os.walk(simdir):
        for fn in files:
            if fn.endswith(".go"):
                rel = os.path.relpath(os.path.join(root, fn), simdir)
                repl[os.path.join(repo, "zz_verif", rel)] = os.path.join(root, fn)

    # 4. source rewrites with asserted match counts (seams the repo lacks)
    def rewrite(rel, subs, extra_import=None):
        p = os.path.join(repo, rel)
        s = open(p).read()
        for pat, rep, cnt in subs:
            n = len(re.findall(pat, s))
            if cnt is not None and n != cnt:
                die("%s: pattern %r matched %d times, expected %d" % (rel, pat, n, cnt))
            if cnt is None and n == 0:
                die("%s: pattern %r did not match" % (rel, pat))
            s = re.sub(pat, rep, s)
        if extra_import:
            m = re.search(r'^import \(\n', s, re.M)
            if not m:
                die("%s: no import block" % rel)
            s = s[:m.end()] + "\t" + extra_import + "\n" + s[m.end():]
        repl[p] = derived(rel, s)

    simclock = 'simclock "github.com/aergoio/aergo/v2/zz_verif/simclock"'
    rewrite("consensus/impl/dpos/slot/slot.go", [(r"time\.Now\(\)", "simclock.Now()", 2)], simclock)
    rewrite("mempool/txlist.go", [(r"time\.Now\(\)", "simclock.Now()", None)], simclock)
    rewrite("mempool/mempool.go", [(r"eTime := time\.Now\(\)", "eTime := simclock.Now()", 1)], simclock)
    # a panic below the chain manager must surface as a Go panic, not end the simulator process
    rewrite("chain/recover.go", [(r"os\.Exit\(10\)", 'panic(fmt.Sprint("verif: RecoverExit: ", r))', 1),
                                 (r'\n\t"os"\n', '\n', 1)])
    # the signature verifier is asynchronous: count requests / finished collections / collected results
    # so that the simulator can wait for its quiescence without consuming anything
    rewrite("chain/signVerifier.go", [
        (r"(?m)^(type SignVerifier struct \{)$", r"\1\n\tverifReq, verifDone, verifTaken atomic.Int64", 1),
        (r"(?m)^(func \(sv \*SignVerifier\) RequestVerifyTxs\(txlist \*types\.TxList\) \{)$", r"\1\n\tsv.verifReq.Add(1)", 1),
        (r"(?m)^(\s*)(sv\.resultCh <- &VerifyResult\{.*\})$", r"\1sv.verifDone.Add(1)\n\1\2", 2),
        (r"(?m)^(\s*)(case res := <-sv\.resultCh:)$", r"\1\2\n\1\tsv.verifTaken.Add(1)", 1),
    ], '"sync/atomic"')
    # the trie starts one goroutine per sibling subtree: let the simulator choose the order
    simgo = 'simgo "github.com/aergoio/aergo/v2/zz_verif/simgo"'
    rewrite("pkg/trie/trie.go", [
        (r"(?m)^(\s*)go (s\.update\(lnode.*\))\n\s*go (s\.update\(rnode.*\))$",
         r"\1simgo.Pair(func() { \2 }, func() { \3 })", 1)], simgo)

    # 5. patched copies of two dependencies (go >= 1.24 refuses overlays below GOMODCACHE, so
    #    they are wired in through `replace` directives of the scratch go.mod instead)
    modcache = subprocess.check_output(["go", "env", "GOMODCACHE"], text=True).strip()
    import shutil, stat
    def copymod(rel, name):
        src = os.path.join(modcache, rel)
        dst = os.path.join(out, "mods", name)
        if os.path.exists(dst):
            shutil.rmtree(dst)
        shutil.copytree(src, dst)
        for r, ds, fs in os.walk(dst):
            for n in ds + fs:
                q = os.path.join(r, n)
                os.chmod(q, os.stat(q).st_mode | stat.S_IWUSR)
        return dst
    lib = copymod("github.com/aergoio/aergo-lib@v1.3.0", "aergo-lib")
    dbgo = os.path.join(lib, "db/db.go")
    s = open(dbgo).read()
    if "func registerDBConstructor" not in s:
        die("aergo-lib db.go: registerDBConstructor not found")
    s += "\n// VerifRegister lets the simulator plug its own disk (added by the verif build).\n" \
         "func VerifRegister(name string, c func(dir string, options ...Option) (DB, error)) {\n" \
         "\tregisterDBConstructor(ImplType(name), c)\n}\n"
    open(dbgo, "w").write(s)
    zl = copymod("github.com/rs/zerolog@v1.31.0", "zerolog")
    zlog = os.path.join(zl, "log.go")
    s = open(zlog).read()
    pat = "return l.newEvent(FatalLevel, func(msg string) { os.Exit(1) })"
    if s.count(pat) != 1:
        die("zerolog log.go: Fatal hook pattern not found")
    s = s.replace(pat, 'return l.newEvent(FatalLevel, func(msg string) { _ = os.Stderr; panic("verif: logger.Fatal: " + msg) })')
    open(zlog, "w").write(s)
    with open(os.path.join(out, "replaces.txt"), "w") as f:
        f.write("replace github.com/aergoio/aergo-lib => %s\n" % lib)
        f.write("replace github.com/rs/zerolog => %s\n" % zl)

    with open(os.path.join(out, "overlay.json"), "w") as f:
        json.dump({"Replace": repl}, f, indent=1)
    print(os.path.join(out, "overlay.json"))


if __name__ == "__main__":
    main()
