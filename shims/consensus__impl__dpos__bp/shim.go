//go:build verif

package bp

import "github.com/aergoio/aergo/v2/types"

// VerifElectionPeriod, when non-zero, replaces the election period (100 blocks) under
// simulation, so that a run of a few dozen blocks crosses several producer elections. It is a
// process-wide deployment constant: the simulator sets it before the nodes of a run boot and
// resets it with the rest of the process-wide settings.
var VerifElectionPeriod types.BlockNo
