//go:build verif

package chain

import (
	"github.com/aergoio/aergo/v2/state"
	"github.com/aergoio/aergo/v2/types"
)

// Thin exported wrappers for the simulator (no logic).

func (cs *ChainService) VerifAddBlock(b *types.Block, bs *state.BlockState, peer types.PeerID) error {
	return cs.addBlock(b, bs, peer)
}
func (cs *ChainService) VerifVerifyBlock(b *types.Block) error { return cs.verifyBlock(b) }
func (cs *ChainService) VerifGetTx(h []byte) (*types.Tx, *types.TxIdx, error) {
	return cs.getTx(h)
}
func (cs *ChainService) VerifGetReceipt(h []byte) (*types.Receipt, error) { return cs.getReceipt(h) }
func (cs *ChainService) VerifGetReceipts(blockHash []byte) (*types.Receipts, error) {
	return cs.getReceipts(blockHash)
}
func (cs *ChainService) VerifGetBlockByNo(no types.BlockNo) (*types.Block, error) {
	return cs.getBlockByNo(no)
}
func (cs *ChainService) VerifOrphanCount() int   { return len(cs.op.cache) }
func (cs *ChainService) VerifErrBlocksLen() int  { return cs.errBlocks.Len() }
func (cs *ChainService) VerifHasReorgMarker() bool {
	m, err := cs.cdb.getReorgMarker()
	return err == nil && m != nil
}

// VerifStop releases what NewChainService started (actors, verifier workers).
func (cs *ChainService) VerifStop() {
	cs.chainManager.Stop()
	cs.chainWorker.Stop()
	cs.validator.Stop()
}

func VerifSetCoinbase(a []byte) { CoinbaseAccount = a }
func VerifCoinbase() []byte     { return CoinbaseAccount }
