//go:build verif

package chain

import (
	"sync/atomic"
	"time"

	"github.com/aergoio/aergo/v2/state"
	"github.com/aergoio/aergo/v2/types"
)

// Thin exported wrappers for the simulator (no logic).

func (cs *ChainService) VerifAddBlock(b *types.Block, bs *state.BlockState, peer types.PeerID) error {
	return cs.addBlock(b, bs, peer)
}
func (cs *ChainService) VerifVerifyBlock(b *types.Block) error { return cs.verifyBlock(b) }
func (cs *ChainService) VerifGetTx(h []byte) (*types.Tx, *types.TxIdx, error) {
	return cs.getTx(h)
}
func (cs *ChainService) VerifGetReceipt(h []byte) (*types.Receipt, error) { return cs.getReceipt(h) }
func (cs *ChainService) VerifGetReceipts(blockHash []byte) (*types.Receipts, error) {
	return cs.getReceipts(blockHash)
}
func (cs *ChainService) VerifGetBlockByNo(no types.BlockNo) (*types.Block, error) {
	return cs.getBlockByNo(no)
}
func (cs *ChainService) VerifOrphanCount() int  { return len(cs.op.cache) }
func (cs *ChainService) VerifErrBlocksLen() int { return cs.errBlocks.Len() }
func (cs *ChainService) VerifHasReorgMarker() bool {
	m, err := cs.cdb.getReorgMarker()
	return err == nil && m != nil
}

// VerifQuiesce waits until a signature verification that was requested for a block and never
// collected (the block failed before the wait) has finished. Nothing is consumed: the pending
// result stays where the next block will find it, exactly as in a real node a moment later.
func (cs *ChainService) VerifQuiesce() {
	sv := cs.validator.signVerifier
	for i := 0; ; i++ {
		r, p, k := sv.verifReq.Load(), sv.verifDone.Load(), sv.verifTaken.Load()
		out := p - k
		want := 0
		if out > 0 {
			want = 1
		}
		if r == p && len(sv.resultCh) == want {
			if out > 1 {
				time.Sleep(50 * time.Microsecond) // let the surplus collector park on its send
			}
			return
		}
		if i > 2000000 {
			panic("verif: signature verifier did not finish")
		}
		time.Sleep(5 * time.Microsecond)
	}
}

// VerifStaleVerifyResult reports whether an uncollected verification result is pending.
func (cs *ChainService) VerifStaleVerifyResult() bool {
	sv := cs.validator.signVerifier
	return sv.verifDone.Load() != sv.verifTaken.Load()
}

// VerifStop releases what NewChainService started (actors, verifier workers).
func (cs *ChainService) VerifStop() {
	cs.VerifQuiesce()
	cs.chainManager.Stop()
	cs.chainWorker.Stop()
	if sv := cs.validator.signVerifier; sv.verifJobs.Load() != sv.verifGot.Load() {
		// verification jobs whose results nobody collected are still parked in the workers: leave
		// them (a leak inside the simulator process) rather than close the channels under them
		VerifLeftoverVerifyJobs.Add(1)
		return
	}
	cs.validator.Stop()
}

// VerifLeftoverVerifyJobs counts stops that found uncollected per-transaction verification results.
var VerifLeftoverVerifyJobs atomic.Int64

func VerifSetCoinbase(a []byte) { CoinbaseAccount = a }
func VerifCoinbase() []byte     { return CoinbaseAccount }

// VerifFindAncestor is what the chain worker does for a GetAncestor request (the remote side of
// the syncer's ancestor search).
func (cs *ChainService) VerifFindAncestor(hashes [][]byte) (*types.BlockInfo, error) {
	return cs.findAncestor(hashes)
}
