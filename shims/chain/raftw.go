//go:build verif

package chain

import "github.com/aergoio/aergo/v2/types"

// Thin exported wrappers for the RAFT world (no logic).

// VerifAddGenesisBlock stores the genesis block the way InitGenesisBlock does for the chain DB part.
func (cdb *ChainDB) VerifAddGenesisBlock(g *types.Genesis) error { return cdb.addGenesisBlock(g) }

// VerifConnectBlock makes b the best block of the main chain (one transaction, as connectToChain's callers do).
func (cdb *ChainDB) VerifConnectBlock(b *types.Block) {
	tx := cdb.store.NewTx()
	cdb.connectToChain(tx, b, false)
	tx.Commit()
}
