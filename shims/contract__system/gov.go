//go:build verif

package system

import (
	"encoding/hex"
	"fmt"
	"sort"
	"strings"
)

// Observers for the GOV world (read-only; nothing here changes package state).

// The two lock periods, read from the compiled package.
func VerifStakingDelay() uint64 { return StakingDelay }
func VerifVotingDelay() uint64  { return VotingDelay }

// VerifVprDump renders the live voting-power rank in a canonical text form:
// total power, voters with their power in rank order, and the persisted-bucket lists in
// their stored order (the order the voting-reward winner is drawn from).
func VerifVprDump() string { return verifDumpVpr(votingPowerRank) }

// VerifVprDumpReload renders the rank rebuilt from state in the same form.
func VerifVprDumpReload(g dataGetter) (string, error) {
	v, err := loadVpr(g)
	if err != nil {
		return "", err
	}
	return verifDumpVpr(v), nil
}

func verifDumpVpr(v *vpr) string {
	if v == nil {
		return "nil"
	}
	var b strings.Builder
	fmt.Fprintf(&b, "total=%s\n", v.totalPower.String())
	ids := make([]string, 0, len(v.voters.powers))
	for id, vp := range v.voters.powers {
		ids = append(ids, fmt.Sprintf("%s=%s", hex.EncodeToString(id[:6]), vp.getPower().String()))
	}
	sort.Strings(ids)
	fmt.Fprintf(&b, "powers=%s\n", strings.Join(ids, ","))
	// walk the rank tree node by node (Keys() trusts the tree's size counter)
	var rank []string
	it := v.voters.members.Iterator()
	for it.Next() {
		vp := it.Key().(*votingPower)
		rank = append(rank, fmt.Sprintf("%s=%s", hex.EncodeToString(vp.idBytes()[:6]), vp.getPower().String()))
		if len(rank) > 4*len(v.voters.powers)+8 {
			rank = append(rank, "...")
			break
		}
	}
	fmt.Fprintf(&b, "rank=%s\n", strings.Join(rank, ","))
	if n := v.voters.members.Size(); n != len(rank) || n != len(v.voters.powers) {
		fmt.Fprintf(&b, "rank tree: size counter %d, nodes reached %d, voters %d\n", n, len(rank), len(v.voters.powers))
	}
	for i := uint8(0); i < vprBucketsMax; i++ {
		l := v.store.buckets[i]
		if l == nil || l.Len() == 0 {
			continue
		}
		var es []string
		for e := l.Front(); e != nil; e = e.Next() {
			vp := toVotingPower(e)
			es = append(es, fmt.Sprintf("%s=%s", hex.EncodeToString(vp.idBytes()[:6]), vp.getPower().String()))
		}
		fmt.Fprintf(&b, "bucket%d=%s\n", i, strings.Join(es, ","))
	}
	return b.String()
}

// VerifVprLowest renders the cached "lowest voter" of the live rank and of a reload.
func VerifVprLowest(g dataGetter) (live, reload string, err error) {
	f := func(v *vpr) string {
		if v == nil || v.lowest == nil {
			return "none"
		}
		return fmt.Sprintf("%s=%s", hex.EncodeToString(v.lowest.idBytes()[:6]), v.lowest.getPower().String())
	}
	re, err := loadVpr(g)
	if err != nil {
		return "", "", err
	}
	return f(votingPowerRank), f(re), nil
}

// VerifVprPending is the number of buffered, not yet applied voting-power changes that are non-zero.
func VerifVprPending() int {
	if votingPowerRank == nil {
		return 0
	}
	n := 0
	for _, d := range votingPowerRank.changes {
		if d.cmp(zeroValue) != 0 {
			n++
		}
	}
	return n
}

// VerifParamsDump renders the in-memory system parameters (including values waiting for
// the next block) in sorted order.
func VerifParamsDump() string {
	systemParams.mutex.Lock()
	defer systemParams.mutex.Unlock()
	var ks []string
	for k, v := range systemParams.params {
		if v == nil {
			continue
		}
		ks = append(ks, k+"="+v.String())
	}
	sort.Strings(ks)
	return strings.Join(ks, ",")
}

// VerifParamIDs lists the ids of the votable parameters in catalog order.
func VerifParamIDs() []string {
	var out []string
	for i := sysParamIndex(0); i < sysParamMax; i++ {
		out = append(out, i.ID())
	}
	return out
}
