//go:build verif

package system

import "github.com/aergoio/aergo/v2/types"

// VerifCtx holds the package-level state that is really per node.
type VerifCtx struct {
	vpr    *vpr
	params *parameters
}

func VerifSaveCtx() VerifCtx     { return VerifCtx{votingPowerRank, systemParams} }
func VerifRestoreCtx(c VerifCtx) { votingPowerRank, systemParams = c.vpr, c.params }

// VerifResetProcess undoes process-sticky defaults so that the next simulated chain
// (other BP count) starts like a fresh process.
func VerifResetProcess() { delete(DefaultParams, bpCount.ID()); votingPowerRank = nil }

// VerifVprEqualsReload reports whether the in-memory voting power rank equals the one
// rebuilt from persisted state.
func VerifVprEqualsReload(g dataGetter) (bool, error) {
	re, err := loadVpr(g)
	if err != nil {
		return false, err
	}
	if votingPowerRank == nil {
		return re == nil, nil
	}
	return votingPowerRank.equals(re), nil
}

func VerifVprTotal() string {
	if votingPowerRank == nil {
		return ""
	}
	return votingPowerRank.getTotalPower().String()
}

var _ = types.AergoSystem
