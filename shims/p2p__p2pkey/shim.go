//go:build verif

package p2pkey

import (
	"time"

	"github.com/aergoio/aergo/v2/internal/enc/base58"
	"github.com/aergoio/aergo/v2/types"
	"github.com/libp2p/go-libp2p/core/crypto"
)

// VerifSetKey installs the node identity of the simulated node that runs next.
func VerifSetKey(priv crypto.PrivKey) {
	pub := priv.GetPublic()
	id, _ := types.IDFromPublicKey(pub)
	ni = &nodeInfo{id: id, sid: base58.Encode([]byte(id)), pubKey: pub, privKey: priv, version: "v2.0.0", startTime: time.Unix(0, 0)}
}
