//go:build verif

package mempool

import "github.com/aergoio/aergo/v2/types"

func (mp *MemPool) VerifInit(best *types.Block) { mp.setStateDB(best); mp.status = running }

// VerifPut is what the TxVerifier actor does for one MemPoolPut: verifyTx, then put.
func (mp *MemPool) VerifPut(tx *types.Tx) error {
	t := types.NewTransaction(tx)
	if err := mp.verifyTx(t); err != nil {
		return err
	}
	return mp.put(t)
}
func (mp *MemPool) VerifVerifyTx(tx types.Transaction) error            { return mp.verifyTx(tx) }
func (mp *MemPool) VerifPutOnly(tx types.Transaction) error             { return mp.put(tx) }
func (mp *MemPool) VerifGet(max uint32) ([]types.Transaction, error)    { return mp.get(max) }
func (mp *MemPool) VerifOnBlock(b *types.Block) error                   { return mp.removeOnBlockArrival(b) }
func (mp *MemPool) VerifExist(h []byte) *types.Tx                       { return mp.exist(h) }
func (mp *MemPool) VerifRemoveTx(tx *types.Tx) error                    { return mp.removeTx(tx) }
func (mp *MemPool) VerifEvict()                                         { mp.evictTransactions() }
func (mp *MemPool) VerifUnconfirmed() []*types.Tx {
	var out []*types.Tx
	mp.RLock()
	defer mp.RUnlock()
	for _, l := range mp.pool {
		for _, t := range l.GetAll() {
			out = append(out, t.GetTx())
		}
	}
	return out
}
