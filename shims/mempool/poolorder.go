//go:build verif

package mempool

import (
	"crypto/sha256"
	"encoding/binary"
	"sort"

	"github.com/aergoio/aergo/v2/types"
)

// verifPoolOrderSeed, when non-zero, replaces Go's randomised map order in MemPool.get by a
// seeded one (every order is legal; a fixed seed makes a size-limited fetch replayable).
var verifPoolOrderSeed uint64

func VerifSetPoolOrder(seed uint64) { verifPoolOrderSeed = seed }

func verifPoolOrder(m map[types.AccountID]*txList) []*txList {
	out := make([]*txList, 0, len(m))
	if verifPoolOrderSeed == 0 {
		for _, l := range m {
			out = append(out, l)
		}
		return out
	}
	type kv struct {
		k uint64
		a types.AccountID
	}
	keys := make([]kv, 0, len(m))
	var sd [8]byte
	binary.LittleEndian.PutUint64(sd[:], verifPoolOrderSeed)
	for a := range m {
		h := sha256.Sum256(append(sd[:], a[:]...))
		keys = append(keys, kv{binary.LittleEndian.Uint64(h[:8]), a})
	}
	sort.Slice(keys, func(i, j int) bool {
		if keys[i].k != keys[j].k {
			return keys[i].k < keys[j].k
		}
		return string(keys[i].a[:]) < string(keys[j].a[:])
	})
	for _, k := range keys {
		out = append(out, m[k.a])
	}
	return out
}
