//go:build verif

package mempool

import (
	"time"

	"github.com/aergoio/aergo/v2/state"
	"github.com/aergoio/aergo/v2/types"
)

// Wrappers used by the POOL world (C13). No logic: they expose unexported entry points and
// copy the pool's internal bookkeeping out for the oracle.

// VerifSetSDB gives a pool that was constructed without a chain service its chain state DB.
func (mp *MemPool) VerifSetSDB(sdb *state.ChainStateDB) { mp.sdb = sdb }

// VerifSetEvictWorkTimeout replaces the wall-clock work limit of one eviction pass (a real
// timer the simulated clock cannot drive); it returns the previous value.
func VerifSetEvictWorkTimeout(d time.Duration) time.Duration {
	old := evictWorkTimeout
	evictWorkTimeout = d
	return old
}

func VerifEvictPeriod() time.Duration { return evictPeriod }

// VerifAcct is a copy of one per-account list.
type VerifAcct struct {
	Account   []byte
	BaseNonce uint64
	Ready     int
	LastTime  time.Time
	Txs       []*types.Tx // list order
}

// VerifDump copies the per-account lists without taking the pool lock (the caller owns the schedule).
func (mp *MemPool) VerifDump() []VerifAcct {
	out := make([]VerifAcct, 0, len(mp.pool))
	for _, l := range mp.pool {
		a := VerifAcct{Account: l.account, BaseNonce: l.base.GetNonce(), Ready: l.ready, LastTime: l.lastTime}
		for _, t := range l.list {
			a.Txs = append(a.Txs, t.GetTx())
		}
		out = append(out, a)
	}
	return out
}

// VerifCounters returns the pool's counters and the number of entries of the hash index.
func (mp *MemPool) VerifCounters() (length, orphan, cached int) {
	mp.cache.Range(func(_, _ interface{}) bool { cached++; return true })
	return mp.length, mp.orphan, cached
}

// VerifReport is the unconfirmed-transaction report (MemPoolTx / MemPoolTxStat).
type VerifReport struct {
	Address       string
	HasExpire     bool
	Expire        time.Time
	PooledCount   int
	OrphanedCount int
	Pooled        []string
	Orphaned      []string
}

func (mp *MemPool) VerifGetUnconfirmed(accounts []types.Address, countOnly bool) []VerifReport {
	us := mp.getUnconfirmed(accounts, countOnly)
	out := make([]VerifReport, len(us))
	for i, u := range us {
		out[i] = VerifReport{Address: u.Address, PooledCount: u.Pooled.Count, OrphanedCount: u.Orphaned.Count,
			Pooled: u.Pooled.IDs, Orphaned: u.Orphaned.IDs}
		if u.Expire != nil {
			out[i].HasExpire, out[i].Expire = true, *u.Expire
		}
	}
	return out
}

func (mp *MemPool) VerifListHash(max int) ([]types.TxID, bool) { return mp.listHash(max) }

func (mp *MemPool) VerifExistEx(hs []types.TxHash) []*types.Tx { return mp.existEx(hs) }
