//go:build verif

package raftv2

import (
	"github.com/aergoio/aergo/v2/consensus"
	"github.com/aergoio/aergo/v2/types"
	raftlib "github.com/aergoio/etcd/raft"
	"github.com/aergoio/etcd/raft/raftpb"
	"github.com/rs/zerolog"
)

// Thin exported wrappers for the RAFT world (no logic).

// VerifWireServer gives the cluster a raft server whose node and storage are supplied by the
// simulator (the seam is the raft.Node interface); leader is the id the server believes leads.
func VerifWireServer(cl *Cluster, node raftlib.Node, storage *raftlib.MemoryStorage, leader uint64) {
	rs := &raftServer{cluster: cl, node: node, raftStorage: storage}
	rs.leaderStatus.Leader = leader
	rs.leaderStatus.IsLeader = rs.checkLeader()
	cl.rs = rs
}

func (cl *Cluster) VerifValidateChangeMembership(cc *raftpb.ConfChange, m *consensus.Member, needlock bool) error {
	return cl.validateChangeMembership(cc, m, needlock)
}
func (cl *Cluster) VerifIsEnableChangeMembership(cc *raftpb.ConfChange) error {
	return cl.isEnableChangeMembership(cc)
}
func (cl *Cluster) VerifMakeConfChange(reqID uint64, t types.MembershipChangeType, m *consensus.Member) (*raftpb.ConfChange, error) {
	return cl.makeConfChange(reqID, t, m)
}
func (cl *Cluster) VerifMakeProposal(req *types.MembershipChange, nowait bool) (*consensus.ConfChangePropose, error) {
	return cl.makeProposal(req, nowait)
}
func (cl *Cluster) VerifValidateConfChangeEntry(e *raftpb.Entry) (*raftpb.ConfChange, *consensus.Member, error) {
	return cl.rs.ValidateConfChangeEntry(e)
}
func (cl *Cluster) VerifAddMember(m *consensus.Member, applied bool) error {
	return cl.addMember(m, applied)
}
func (cl *Cluster) VerifRemoveMember(m *consensus.Member) error { return cl.removeMember(m) }

// VerifCreateSnapshotData is ChainSnapshotter.createSnapshotData (it only uses its arguments).
func VerifCreateSnapshotData(cl *Cluster, b *types.Block, cs *raftpb.ConfState) (*consensus.SnapshotData, error) {
	return (&ChainSnapshotter{}).createSnapshotData(cl, b, cs)
}

func VerifMarshalEntryData(b *types.Block) ([]byte, error) { return marshalEntryData(b) }

// VerifQuiet raises the package logger's threshold: refused requests are logged at error level,
// which only costs time in exhaustive sweeps.
func VerifQuiet() {
	z := logger.Logger.Level(zerolog.PanicLevel)
	logger.Logger = &z
}
