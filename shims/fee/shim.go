//go:build verif

package fee

// VerifSetZeroFee sets the process-wide fee mode for the next simulated chain.
func VerifSetZeroFee(on bool) { zeroFee = on }
