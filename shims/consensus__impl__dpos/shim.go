//go:build verif

package dpos

import (
	"context"
	"fmt"
	"sort"
	"time"

	"github.com/aergoio/aergo/v2/consensus/impl/dpos/bp"
	"github.com/aergoio/aergo/v2/consensus/impl/dpos/slot"
	"github.com/aergoio/aergo/v2/state"
	"github.com/aergoio/aergo/v2/types"
)

// VerifGenerate runs the block factory's generateBlock for the slot containing ts
// on top of the node's current best block (the worker goroutine is not started).
func (dpos *DPoS) VerifGenerate(ctx context.Context, ts time.Time, lpbNo types.BlockNo) (*types.Block, *state.BlockState, error) {
	best, _ := dpos.GetBestBlock()
	bpi := &bpInfo{ChainDB: dpos.ChainDB, bestBlock: best, slot: slot.Time(ts)}
	return dpos.bf.generateBlock(ctx, bpi, lpbNo)
}

// VerifLoad forces the lazy status load now, while this node's boot loader is installed.
func (dpos *DPoS) VerifLoad() { dpos.Status.Lock(); dpos.Status.load(); dpos.Status.Unlock() }

func (dpos *DPoS) VerifLib() (types.BlockNo, string) {
	l := dpos.lib()
	if l == nil {
		return 0, ""
	}
	return l.BlockNo, l.BlockHash
}
func (dpos *DPoS) VerifLpbNo() types.BlockNo { return dpos.Status.lpbNo() }
func (dpos *DPoS) VerifBootLpbNo() types.BlockNo {
	if bsLoader == nil {
		return 0
	}
	return bsLoader.lpbNo()
}
func (dpos *DPoS) VerifQuit() { close(dpos.quit) }
func (dpos *DPoS) VerifBPs() []string {
	var out []string
	for _, id := range dpos.bpc.BPs() {
		out = append(out, id)
	}
	return out
}

// VerifCtx holds the package-level state that is really per node: the boot loader (its chain
// DB is read again whenever the LIB status is rolled back in a reorganization) and the last
// queued slot.
type VerifCtx struct {
	bs *bootLoader
	lj *lastSlot
}

func VerifSaveCtx() VerifCtx { return VerifCtx{bsLoader, lastJob} }
func VerifRestoreCtx(c VerifCtx) {
	bsLoader = c.bs
	if c.lj != nil {
		lastJob = c.lj
	}
}

// VerifFreshCtx is installed before a node boots.
func VerifFreshCtx() { bsLoader = nil; lastJob = &lastSlot{} }

// VerifBpInfoSlot runs the producer's own decision for time now: nil error and a slot when this
// node may produce now (member, owner of the slot, not yet produced, timing ok).
func (dpos *DPoS) VerifWouldProduce(now time.Time) bool {
	saved := lastJob.s
	bpi := dpos.getBpInfo(now)
	lastJob.s = saved
	return bpi != nil
}

// VerifGenerateNow is QueueJob + the block factory's generateBlock for the job, without the
// worker goroutines: the production path of a correct producer at local time now.
func (dpos *DPoS) VerifGenerateNow(ctx context.Context, now time.Time, lpbNo types.BlockNo) (*types.Block, *state.BlockState, error, bool) {
	bpi := dpos.getBpInfo(now)
	if bpi == nil {
		return nil, nil, nil, false
	}
	lastJob.set(bpi.slot)
	b, bs, err := dpos.bf.generateBlock(ctx, bpi, lpbNo)
	return b, bs, err, true
}

func (dpos *DPoS) VerifLibStatusDump() string {
	dpos.Status.RLock()
	defer dpos.Status.RUnlock()
	ls := dpos.Status.libState
	if ls == nil {
		return ""
	}
	out := fmt.Sprintf("lib=%d/%s lpb=%d;", ls.Lib.BlockNo, ls.Lib.BlockHash, ls.LpbNo)
	var ids []string
	for id := range ls.Prpsd {
		ids = append(ids, id)
	}
	sort.Strings(ids)
	for _, id := range ids {
		p := ls.Prpsd[id]
		if p == nil || p.Plib == nil || p.PlibBy == nil {
			continue
		}
		out += fmt.Sprintf("%s:%d/%s<-%d/%s;", id, p.Plib.BlockNo, p.Plib.BlockHash, p.PlibBy.BlockNo, p.PlibBy.BlockHash)
	}
	return out
}

func VerifMajority() uint16 { return majorityCount }

// VerifBPIDs returns the node's current producer set in index order.
func (dpos *DPoS) VerifBPIDs() []types.PeerID {
	var out []types.PeerID
	for i := 0; i < int(dpos.bpc.Size()); i++ {
		id, ok := dpos.bpc.BpIndex2ID(bp.Index(i))
		if !ok {
			out = append(out, "")
			continue
		}
		out = append(out, id)
	}
	return out
}

// VerifCluster exposes the node's producer cluster (membership scan of the C09 world).
func (dpos *DPoS) VerifCluster() *bp.Cluster { return dpos.bpc }
