//go:build verif

package dpos

import (
	"context"
	"time"

	"github.com/aergoio/aergo/v2/consensus/impl/dpos/slot"
	"github.com/aergoio/aergo/v2/state"
	"github.com/aergoio/aergo/v2/types"
)

// VerifGenerate runs the block factory's generateBlock for the slot containing ts
// on top of the node's current best block (the worker goroutine is not started).
func (dpos *DPoS) VerifGenerate(ctx context.Context, ts time.Time, lpbNo types.BlockNo) (*types.Block, *state.BlockState, error) {
	best, _ := dpos.GetBestBlock()
	bpi := &bpInfo{ChainDB: dpos.ChainDB, bestBlock: best, slot: slot.Time(ts)}
	return dpos.bf.generateBlock(ctx, bpi, lpbNo)
}

// VerifLoad forces the lazy status load now, while this node's boot loader is installed.
func (dpos *DPoS) VerifLoad() { dpos.Status.Lock(); dpos.Status.load(); dpos.Status.Unlock() }

func (dpos *DPoS) VerifLib() (types.BlockNo, string) {
	l := dpos.lib()
	if l == nil {
		return 0, ""
	}
	return l.BlockNo, l.BlockHash
}
func (dpos *DPoS) VerifLpbNo() types.BlockNo { return dpos.Status.lpbNo() }
func (dpos *DPoS) VerifBootLpbNo() types.BlockNo {
	if bsLoader == nil {
		return 0
	}
	return bsLoader.lpbNo()
}
func (dpos *DPoS) VerifQuit() { close(dpos.quit) }
func (dpos *DPoS) VerifBPs() []string {
	var out []string
	for _, id := range dpos.bpc.BPs() {
		out = append(out, id)
	}
	return out
}
