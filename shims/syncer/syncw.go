//go:build verif

package syncer

import (
	"time"

	"github.com/rs/zerolog"

	"github.com/aergoio/aergo/v2/types"
)

// Thin exported wrappers for the SYNC world (no logic): timing knobs, a syncer
// configuration, and read-only access to the session context.

// VerifSetTimers sets the package-level scheduler tick of the block fetcher and the
// hash fetcher / GetPeers timeout and returns the previous values.
func VerifSetTimers(tick, dflt time.Duration) (time.Duration, time.Duration) {
	ot, od := schedTick, dfltTimeout
	schedTick, dfltTimeout = tick, dflt
	return ot, od
}

// VerifConfig builds a SyncerConfig (all fields are unexported).
func VerifConfig(hashReq uint64, blockReq, pendingConn, tasks int, fetchTimeOut time.Duration, fullScanOnly bool) *SyncerConfig {
	return &SyncerConfig{
		maxHashReqSize:   hashReq,
		maxBlockReqSize:  blockReq,
		maxPendingConn:   pendingConn,
		maxBlockReqTasks: tasks,
		fetchTimeOut:     fetchTimeOut,
		useFullScanOnly:  fullScanOnly,
	}
}

// VerifSession reports the session flag, the sequence number, the ancestor the
// session works from (nil until the finder result was accepted) and the target.
func (syncer *Syncer) VerifSession() (running bool, seq uint64, ancestor *types.Block, target uint64) {
	running, seq = syncer.isRunning, syncer.Seq
	if syncer.ctx != nil {
		ancestor, target = syncer.ctx.CommonAncestor, syncer.ctx.TargetNo
	}
	return
}

// VerifQuiet turns the package logger off (the fault-injecting runs would print thousands of
// error lines).
func VerifQuiet() {
	l := logger.Logger.Level(zerolog.Disabled)
	logger.Logger = &l
}

// VerifFetchState exposes the block fetcher's queues (read only) so that a session that never
// ends can be classified: peers known / free / bad, fetch tasks running / pending / waiting for a
// retry, chunks waiting to be connected, whether a block is being connected, the height the block
// processor waits for and the first height of the first waiting chunk.
func (syncer *Syncer) VerifFetchState() (ok bool, total, free, bad, running, pending, retry, connQ int, connecting bool, want, first uint64) {
	bf := syncer.blockFetcher
	if bf == nil || bf.peers == nil || bf.blockProcessor == nil {
		return
	}
	ok = true
	total, free, bad = bf.peers.total, bf.peers.free, bf.peers.bad
	running, pending, retry = bf.runningQueue.Len(), bf.pendingQueue.Len(), bf.retryQueue.Len()
	bp := bf.blockProcessor
	connQ, connecting = len(bp.connQueue), bp.curBlock != nil
	if bp.prevBlock != nil {
		want = bp.prevBlock.BlockNo() + 1
	}
	if connQ > 0 {
		first = bp.connQueue[0].firstNo
	}
	return
}

// VerifAwaitsFirstHashSet reports whether a block fetcher exists that has not yet taken its first
// hash set (it is then blocked outside its main select loop: in init() or in getNewHashSet()).
func (syncer *Syncer) VerifAwaitsFirstHashSet() bool {
	bf := syncer.blockFetcher
	return bf != nil && bf.isRunning && bf.curHashSet == nil
}
