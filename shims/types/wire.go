//go:build verif

package types

// VerifBytesForDigest exposes the bytes a block producer signs (no logic).
func (bh *BlockHeader) VerifBytesForDigest() ([]byte, error) { return bh.bytesForDigest() }
