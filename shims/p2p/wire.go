//go:build verif

package p2p

import (
	"github.com/aergoio/aergo-lib/log"
	"github.com/aergoio/aergo/v2/p2p/p2pcommon"
	"github.com/aergoio/aergo/v2/types"
)

// VerifNewVersionManager exposes the node's own version manager (it builds the versioned
// handshakers exactly as a running node does). No logic.
func VerifNewVersionManager(is p2pcommon.InternalService, actor p2pcommon.ActorService, pm p2pcommon.PeerManager, ca types.ChainAccessor, logger *log.Logger, localChainID *types.ChainID) p2pcommon.VersionedManager {
	return newDefaultVersionManager(is, actor, pm, ca, logger, localChainID)
}
