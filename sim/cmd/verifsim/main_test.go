// verifsim is built as a test binary (go test -c) so that the SYNC world can use
// testing/synctest; every other world runs straight from TestMain.
package verifsim

import (
	"encoding/json"
	"flag"
	"fmt"
	"os"
	"strings"
	"testing"
	"time"

	"github.com/aergoio/aergo/v2/zz_verif/simkit"
	"github.com/aergoio/aergo/v2/zz_verif/worlds"
)

var (
	fWorld   = flag.String("vs.world", "", "world name")
	fProp    = flag.String("vs.prop", "", "property id")
	fTier    = flag.String("vs.tier", "quick", "quick|thorough")
	fSeed    = flag.Uint64("vs.seed", 1, "batch seed (VERIF_SEED)")
	fFrom    = flag.Int("vs.from", 0, "first run index")
	fTo      = flag.Int("vs.to", 1<<30, "last run index (exclusive)")
	fBudget  = flag.Duration("vs.budget", 30*time.Second, "wall-clock budget of this worker")
	fShrink  = flag.Duration("vs.shrink", 60*time.Second, "wall-clock budget for minimisation")
	fOut     = flag.String("vs.out", "", "result file")
	fReplay  = flag.String("vs.replay", "", "replay file")
	fVerbose = flag.Bool("vs.v", false, "verbose trace on replay")
	fDet     = flag.Bool("vs.det", false, "print seed:loghash lines only (determinism self-test)")
	fScratch = flag.String("vs.scratch", os.TempDir(), "scratch dir")
	fKnown   = flag.String("vs.known", "", "known_findings.json")
	fDirect  = flag.String("vs.directed", "", "comma-separated directories of recorded findings to re-execute first")
	fRepDir  = flag.String("vs.replaydir", "", "where replay files go")
	fRepoFP  = flag.String("vs.repofp", "", "repo fingerprint")
	fCase    = flag.Uint64("vs.case", 0, "run exactly this case seed in generate mode, then replay it (debugging aid)")
)

var exitCode int

// TestMain routes every simulator invocation through TestVerifMain so that worlds have a
// *testing.T (testing/synctest needs one).
func TestMain(m *testing.M) {
	flag.Parse()
	if *fWorld == "" && *fReplay == "" {
		os.Exit(m.Run())
	}
	_ = flag.Set("test.run", "^TestVerifMain$")
	_ = flag.Set("test.timeout", "0")
	rc := m.Run()
	if exitCode == 0 && rc != 0 {
		exitCode = 2
	}
	os.Exit(exitCode)
}

func TestVerifMain(t *testing.T) {
	if *fWorld == "" && *fReplay == "" {
		t.Skip("simulator entry point; use the -vs.* flags")
	}
	exitCode = run(t)
}

func run(m *testing.T) int {
	simkit.InstallKnown(*fKnown)
	if *fReplay != "" {
		b, err := os.ReadFile(*fReplay)
		if err != nil {
			fmt.Println("cannot read replay file:", err)
			return 2
		}
		var rf simkit.ReplayFile
		if err := json.Unmarshal(b, &rf); err != nil {
			fmt.Println("bad replay file:", err)
			return 2
		}
		w := worlds.Get(rf.Case.World, *fScratch, m)
		if w == nil {
			fmt.Println("unknown world", rf.Case.World)
			return 2
		}
		code, msg := simkit.Replay(w, &rf, *fVerbose)
		fmt.Println(msg)
		if code == 1 {
			fmt.Printf("VIOLATION property=%s replay=%s\n", rf.Property, *fReplay)
		}
		return code
	}
	w := worlds.Get(*fWorld, *fScratch, m)
	if w == nil {
		fmt.Println("unknown world", *fWorld)
		return 2
	}
	if *fCase != 0 {
		c := &simkit.Case{World: w.Name(), Prop: *fProp, Tier: *fTier, Seed: *fCase}
		out, tr := simkit.Exec(w, c, true, *fVerbose)
		for _, l := range tr {
			fmt.Println(l)
		}
		fmt.Printf("generate: hash=%s viol=%v infra=%q\n", out.LogHash, out.Violation, firstLine(out.Infra))
		for i := 0; i < 2; i++ {
			o2, _ := simkit.Exec(w, c.Clone(), false, false)
			fmt.Printf("replay %d: hash=%s viol=%v infra=%q\n", i, o2.LogHash, o2.Violation, firstLine(o2.Infra))
		}
		b, _ := json.Marshal(c)
		fmt.Println(string(b))
		return 0
	}
	if *fDet {
		for i := *fFrom; i < *fTo; i++ {
			cs := simkit.Mix(*fSeed, uint64(i))
			c := &simkit.Case{World: w.Name(), Prop: *fProp, Tier: *fTier, Seed: cs}
			out, _ := simkit.Exec(w, c, true, false)
			v := ""
			if out.Violation != nil {
				v = out.Violation.Key()
			}
			fmt.Printf("%d %s steps=%d viol=%q infra=%q\n", cs, out.LogHash, len(c.Steps), v, firstLine(out.Infra))
		}
		return 0
	}
	res := simkit.RunBatch(w, simkit.BatchOpts{Prop: *fProp, Tier: *fTier, Seed: *fSeed, From: *fFrom, To: *fTo,
		Budget: *fBudget, ShrinkFor: *fShrink, ReplayDir: *fRepDir, KnownPath: *fKnown, RepoFP: *fRepoFP, Directed: splitDirs(*fDirect)})
	b, _ := json.Marshal(res)
	if *fOut != "" {
		if err := os.WriteFile(*fOut, b, 0o644); err != nil {
			fmt.Println(err)
			return 2
		}
	} else {
		fmt.Println(string(b))
	}
	if len(res.Infra) > 0 {
		return 2
	}
	if len(res.Violations) > 0 {
		return 1
	}
	return 0
}

func splitDirs(s string) []string {
	if s == "" {
		return nil
	}
	return strings.Split(s, ",")
}

func firstLine(s string) string {
	for i, c := range s {
		if c == '\n' {
			return s[:i]
		}
	}
	return s
}
