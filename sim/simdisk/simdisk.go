// Package simdisk is the simulated disk: an implementation of aergo-lib's db.DB
// that keeps every store of a node in memory together with a journal of durable
// write units (single set/delete, committed transaction, bulk chunk). A crash is
// "the journal stops at unit k (optionally with a torn prefix of a bulk chunk)";
// a restart reopens the stores with exactly that content.
package simdisk

import (
	"bytes"
	"fmt"
	"sort"
	"strings"
	"sync"

	"github.com/aergoio/aergo-lib/db"
)

const Impl = "simdb"

type Op struct {
	Del  bool
	K, V []byte
}

type Unit struct {
	Store string // "chain" / "state" / other dir basename
	Kind  string // set, del, tx, bulk
	Ops   []Op
	Part  int // chunk ordinal inside one Flush (bulk only)
}

// Crash is the panic value thrown when the armed crash point is reached: the
// process "dies" here; the harness recovers it at the node boundary.
type Crash struct{ Unit int }

func (c Crash) Error() string { return fmt.Sprintf("simulated crash at write unit %d", c.Unit) }

type Disk struct {
	mu      sync.Mutex
	Root    string
	stores  map[string]*store
	Journal []Unit
	base    map[string]map[string][]byte // checkpoint content (journal is relative to it)
	// BulkChunk is the number of ops a bulk makes durable at once (0 = whole flush).
	BulkChunk int
	// ChunkStore, when set, restricts chunking to bulks of that store; bulks of other stores are
	// one atomic unit (the real backend commits a small write batch as one transaction).
	ChunkStore string
	// crash control
	armed   bool
	crashAt int // crash when len(Journal) == crashAt, i.e. unit crashAt is NOT applied
	torn    int // for a bulk unit: number of leading ops of unit crashAt that do reach the disk
	dead    bool
	// PermBulk, when set, reorders the ops of one bulk flush before chunking (the
	// real order partly comes from Go map iteration; every order is legal).
	PermBulk func(ops []Op) []Op
	// PermBulkStore is the same hook with the store name (takes precedence).
	PermBulkStore func(store string, ops []Op) []Op
	Writes        int64
}

var (
	regMu sync.Mutex
	disks = map[string]*Disk{}
)

func init() {
	db.VerifRegister(Impl, func(dir string, opts ...db.Option) (db.DB, error) {
		regMu.Lock()
		defer regMu.Unlock()
		for root, d := range disks {
			if strings.HasPrefix(dir, root+"/") || dir == root {
				return d.open(strings.TrimPrefix(strings.TrimPrefix(dir, root), "/")), nil
			}
		}
		return nil, fmt.Errorf("simdisk: no disk registered for %s", dir)
	})
}

// New registers a disk for every db path below root.
func New(root string) *Disk {
	d := &Disk{Root: root, stores: map[string]*store{}, base: map[string]map[string][]byte{}}
	regMu.Lock()
	disks[root] = d
	regMu.Unlock()
	return d
}

func (d *Disk) Unregister() {
	regMu.Lock()
	delete(disks, d.Root)
	regMu.Unlock()
}

func (d *Disk) open(name string) *store {
	d.mu.Lock()
	defer d.mu.Unlock()
	if s, ok := d.stores[name]; ok {
		return s
	}
	s := &store{d: d, name: name, data: map[string][]byte{}}
	d.stores[name] = s
	return s
}

// Store returns the named store (e.g. "chain", "state") for raw inspection.
func (d *Disk) Store(name string) db.DB { return d.open(name) }

// Units is the number of durable write units issued so far.
func (d *Disk) Units() int { d.mu.Lock(); defer d.mu.Unlock(); return len(d.Journal) }

// Checkpoint makes the current content the base and empties the journal.
func (d *Disk) Checkpoint() {
	d.mu.Lock()
	defer d.mu.Unlock()
	d.base = map[string]map[string][]byte{}
	for n, s := range d.stores {
		m := make(map[string][]byte, len(s.data))
		for k, v := range s.data {
			m[k] = v
		}
		d.base[n] = m
	}
	d.Journal = nil
}

// Snap is a full copy of a disk (content, base and journal).
type Snap struct {
	stores, base map[string]map[string][]byte
	journal      []Unit
}

func copyStores(m map[string]map[string][]byte) map[string]map[string][]byte {
	out := make(map[string]map[string][]byte, len(m))
	for n, s := range m {
		c := make(map[string][]byte, len(s))
		for k, v := range s {
			c[k] = v
		}
		out[n] = c
	}
	return out
}

func (s *Snap) JournalLen() int { return len(s.journal) }

// UnitAt describes journal unit k of the snapshot (store, kind, number of ops).
func (s *Snap) UnitAt(k int) (string, string, int) {
	if k < 0 || k >= len(s.journal) {
		return "", "", 0
	}
	u := s.journal[k]
	return u.Store, u.Kind, len(u.Ops)
}

// Snapshot copies the disk; values are never mutated in place, so sharing them is safe.
func (d *Disk) Snapshot() *Snap {
	d.mu.Lock()
	defer d.mu.Unlock()
	cur := map[string]map[string][]byte{}
	for n, s := range d.stores {
		cur[n] = s.data
	}
	return &Snap{stores: copyStores(cur), base: copyStores(d.base), journal: append([]Unit{}, d.Journal...)}
}

// Restore puts the disk back to a snapshot (crash control is reset).
func (d *Disk) Restore(sn *Snap) {
	d.mu.Lock()
	defer d.mu.Unlock()
	cp := copyStores(sn.stores)
	for n, s := range d.stores {
		if m, ok := cp[n]; ok {
			s.data = m
		} else {
			s.data = map[string][]byte{}
		}
	}
	d.base = copyStores(sn.base)
	d.Journal = append([]Unit{}, sn.journal...)
	d.armed, d.dead = false, false
}

// UnitAt describes journal unit k (store, kind, number of ops).
func (d *Disk) UnitAt(k int) (string, string, int) {
	d.mu.Lock()
	defer d.mu.Unlock()
	if k < 0 || k >= len(d.Journal) {
		return "", "", 0
	}
	u := d.Journal[k]
	return u.Store, u.Kind, len(u.Ops)
}

// CanonStateBulk is a PermBulkStore hook: the ops of a state-store bulk come in Go map order
// (stateBuffer.stage, CacheDB.commit); every order is legal, so they are sorted by key (stable,
// the final marker op stays last) and then, if perm is non-nil, the distinct-key groups are
// permuted by it. Bulks of other stores keep their program order.
func CanonStateBulk(perm func(n int) []int) func(store string, ops []Op) []Op {
	return func(store string, ops []Op) []Op {
		n := len(ops)
		if store != "state" || n < 3 {
			return ops
		}
		last := ops[n-1]
		body := append([]Op{}, ops[:n-1]...)
		sort.SliceStable(body, func(i, j int) bool { return bytes.Compare(body[i].K, body[j].K) < 0 })
		var groups [][]Op
		for i := 0; i < len(body); {
			j := i + 1
			for j < len(body) && bytes.Equal(body[j].K, body[i].K) {
				j++
			}
			groups = append(groups, body[i:j])
			i = j
		}
		out := make([]Op, 0, n)
		if perm != nil {
			for _, gi := range perm(len(groups)) {
				out = append(out, groups[gi]...)
			}
		} else {
			for _, g := range groups {
				out = append(out, g...)
			}
		}
		return append(out, last)
	}
}

// Arm makes the disk "die" when unit number k (0-based, counted from the last
// checkpoint) is about to be written; torn>0 lets that many leading ops of a
// bulk unit reach the disk first.
func (d *Disk) Arm(k, torn int) {
	d.mu.Lock()
	d.armed, d.crashAt, d.torn, d.dead = true, k, torn, false
	d.mu.Unlock()
}

func (d *Disk) Disarm()    { d.mu.Lock(); d.armed, d.dead = false, false; d.mu.Unlock() }
func (d *Disk) Dead() bool { d.mu.Lock(); defer d.mu.Unlock(); return d.dead }

// RebuildAt resets every store to base + Journal[0:k] (+ torn prefix of unit k)
// and truncates the journal accordingly: the state a restarted process finds.
func (d *Disk) RebuildAt(k, torn int) {
	d.mu.Lock()
	defer d.mu.Unlock()
	if k > len(d.Journal) {
		k = len(d.Journal)
	}
	for n, s := range d.stores {
		s.data = map[string][]byte{}
		for kk, v := range d.base[n] {
			s.data[kk] = v
		}
	}
	for i := 0; i < k; i++ {
		u := d.Journal[i]
		d.stores[u.Store].apply(u.Ops)
	}
	if torn > 0 && k < len(d.Journal) && d.Journal[k].Kind == "bulk" {
		u := d.Journal[k]
		if torn > len(u.Ops) {
			torn = len(u.Ops)
		}
		d.stores[u.Store].apply(u.Ops[:torn])
		d.Journal = append(d.Journal[:k:k], Unit{Store: u.Store, Kind: "bulk-torn", Ops: u.Ops[:torn]})
	} else {
		d.Journal = d.Journal[:k:k]
	}
	d.armed, d.dead = false, false
}

// write appends a unit (or dies). Caller holds no lock.
func (d *Disk) write(u Unit) {
	d.mu.Lock()
	if d.dead {
		d.mu.Unlock()
		panic(Crash{Unit: d.crashAt})
	}
	if d.armed && len(d.Journal) == d.crashAt {
		d.dead = true
		if d.torn > 0 && u.Kind == "bulk" {
			t := d.torn
			if t > len(u.Ops) {
				t = len(u.Ops)
			}
			d.stores[u.Store].apply(u.Ops[:t])
			d.Journal = append(d.Journal, Unit{Store: u.Store, Kind: "bulk-torn", Ops: u.Ops[:t]})
		}
		d.mu.Unlock()
		panic(Crash{Unit: d.crashAt})
	}
	d.Journal = append(d.Journal, u)
	d.stores[u.Store].apply(u.Ops)
	d.Writes++
	d.mu.Unlock()
}

// Dump returns the sorted key list of a store (raw key scan).
func (d *Disk) Dump(name string) map[string][]byte {
	d.mu.Lock()
	defer d.mu.Unlock()
	s := d.stores[name]
	m := map[string][]byte{}
	if s != nil {
		for k, v := range s.data {
			m[k] = v
		}
	}
	return m
}

type store struct {
	d    *Disk
	name string
	data map[string][]byte // guarded by d.mu
}

func (s *store) apply(ops []Op) {
	for _, o := range ops {
		if o.Del {
			delete(s.data, string(o.K))
		} else {
			s.data[string(o.K)] = o.V
		}
	}
}

func cp(b []byte) []byte {
	if b == nil {
		return []byte{}
	}
	return append([]byte{}, b...)
}

func (s *store) Type() string { return Impl }
func (s *store) Set(k, v []byte) {
	s.d.write(Unit{Store: s.name, Kind: "set", Ops: []Op{{K: cp(k), V: cp(v)}}})
}
func (s *store) Delete(k []byte) {
	s.d.write(Unit{Store: s.name, Kind: "del", Ops: []Op{{Del: true, K: cp(k)}}})
}
func (s *store) Get(k []byte) []byte {
	s.d.mu.Lock()
	defer s.d.mu.Unlock()
	v, ok := s.data[string(k)]
	if !ok {
		return []byte{}
	}
	return v
}
func (s *store) Exist(k []byte) bool {
	s.d.mu.Lock()
	defer s.d.mu.Unlock()
	_, ok := s.data[string(k)]
	return ok
}
func (s *store) Close() {}

func (s *store) NewTx() db.Transaction { return &txn{s: s} }
func (s *store) NewBulk() db.Bulk      { return &bulk{s: s} }

type txn struct {
	s    *store
	ops  []Op
	done bool
}

func (t *txn) Set(k, v []byte) { t.ops = append(t.ops, Op{K: cp(k), V: cp(v)}) }
func (t *txn) Delete(k []byte) { t.ops = append(t.ops, Op{Del: true, K: cp(k)}) }
func (t *txn) Commit() {
	if t.done {
		panic("simdisk: commit after commit/discard")
	}
	t.done = true
	t.s.d.write(Unit{Store: t.s.name, Kind: "tx", Ops: t.ops})
}
func (t *txn) Discard() { t.done = true }

type bulk struct {
	s    *store
	ops  []Op
	done bool
}

func (b *bulk) Set(k, v []byte) { b.ops = append(b.ops, Op{K: cp(k), V: cp(v)}) }
func (b *bulk) Delete(k []byte) { b.ops = append(b.ops, Op{Del: true, K: cp(k)}) }
func (b *bulk) Flush() {
	if b.done {
		panic("simdisk: flush after flush/discard")
	}
	b.done = true
	ops := b.ops
	if b.s.d.PermBulkStore != nil {
		ops = b.s.d.PermBulkStore(b.s.name, ops)
	} else if b.s.d.PermBulk != nil {
		ops = b.s.d.PermBulk(ops)
	}
	ch := b.s.d.BulkChunk
	if b.s.d.ChunkStore != "" && b.s.d.ChunkStore != b.s.name {
		ch = 0
	}
	if ch <= 0 || ch >= len(ops) {
		b.s.d.write(Unit{Store: b.s.name, Kind: "bulk", Ops: ops})
		return
	}
	part := 0
	for i := 0; i < len(ops); i += ch {
		j := i + ch
		if j > len(ops) {
			j = len(ops)
		}
		b.s.d.write(Unit{Store: b.s.name, Kind: "bulk", Ops: ops[i:j], Part: part})
		part++
	}
}
func (b *bulk) DiscardLast() { b.done = true }

// Iterator: same semantics as aergo-lib memorydb (start>end ⇒ reverse).
type iter struct {
	keys []string
	vals [][]byte
	cur  int
}

func inRange(key, start, end []byte, reverse bool) bool {
	if reverse {
		if start != nil && bytes.Compare(start, key) < 0 {
			return false
		}
		if end != nil && bytes.Compare(key, end) <= 0 {
			return false
		}
		return true
	}
	if bytes.Compare(key, start) < 0 {
		return false
	}
	if end != nil && bytes.Compare(end, key) <= 0 {
		return false
	}
	return true
}

func (s *store) Iterator(start, end []byte) db.Iterator {
	s.d.mu.Lock()
	defer s.d.mu.Unlock()
	reverse := bytes.Compare(start, end) == 1
	var keys []string
	for k := range s.data {
		if inRange([]byte(k), start, end, reverse) {
			keys = append(keys, k)
		}
	}
	sort.Strings(keys)
	if reverse {
		for i, j := 0, len(keys)-1; i < j; i, j = i+1, j-1 {
			keys[i], keys[j] = keys[j], keys[i]
		}
	}
	it := &iter{keys: keys}
	for _, k := range keys {
		it.vals = append(it.vals, s.data[k])
	}
	return it
}

func (i *iter) Next() {
	if !i.Valid() {
		panic("Iterator is Invalid")
	}
	i.cur++
}
func (i *iter) Valid() bool   { return i.cur >= 0 && i.cur < len(i.keys) }
func (i *iter) Key() []byte   { return []byte(i.keys[i.cur]) }
func (i *iter) Value() []byte { return i.vals[i.cur] }
