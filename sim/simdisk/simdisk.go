// Package simdisk is the simulated disk: an implementation of aergo-lib's db.DB
// that keeps every store of a node in memory together with a journal of durable
// write units (single set/delete, committed transaction, bulk chunk). A crash is
// "the journal stops at unit k (optionally with a torn prefix of a bulk chunk)";
// a restart reopens the stores with exactly that content.
package simdisk

import (
	"bytes"
	"fmt"
	"sort"
	"strings"
	"sync"

	"github.com/aergoio/aergo-lib/db"
)

const Impl = "simdb"

type Op struct {
	Del  bool
	K, V []byte
}

type Unit struct {
	Store string // "chain" / "state" / other dir basename
	Kind  string // set, del, tx, bulk
	Ops   []Op
	Part  int // chunk ordinal inside one Flush (bulk only)
}

// Crash is the panic value thrown when the armed crash point is reached: the
// process "dies" here; the harness recovers it at the node boundary.
type Crash struct{ Unit int }

func (c Crash) Error() string { return fmt.Sprintf("simulated crash at write unit %d", c.Unit) }

type Disk struct {
	mu      sync.Mutex
	Root    string
	stores  map[string]*store
	Journal []Unit
	base    map[string]map[string][]byte // checkpoint content (journal is relative to it)
	// BulkChunk is the number of ops a bulk makes durable at once (0 = whole flush).
	BulkChunk int
	// crash control
	armed   bool
	crashAt int // crash when len(Journal) == crashAt, i.e. unit crashAt is NOT applied
	torn    int // for a bulk unit: number of leading ops of unit crashAt that do reach the disk
	dead    bool
	// PermBulk, when set, reorders the ops of one bulk flush before chunking (the
	// real order partly comes from Go map iteration; every order is legal).
	PermBulk func(ops []Op) []Op
	Writes   int64
}

var (
	regMu sync.Mutex
	disks = map[string]*Disk{}
)

func init() {
	db.VerifRegister(Impl, func(dir string, opts ...db.Option) (db.DB, error) {
		regMu.Lock()
		defer regMu.Unlock()
		for root, d := range disks {
			if strings.HasPrefix(dir, root+"/") || dir == root {
				return d.open(strings.TrimPrefix(strings.TrimPrefix(dir, root), "/")), nil
			}
		}
		return nil, fmt.Errorf("simdisk: no disk registered for %s", dir)
	})
}

// New registers a disk for every db path below root.
func New(root string) *Disk {
	d := &Disk{Root: root, stores: map[string]*store{}, base: map[string]map[string][]byte{}}
	regMu.Lock()
	disks[root] = d
	regMu.Unlock()
	return d
}

func (d *Disk) Unregister() {
	regMu.Lock()
	delete(disks, d.Root)
	regMu.Unlock()
}

func (d *Disk) open(name string) *store {
	d.mu.Lock()
	defer d.mu.Unlock()
	if s, ok := d.stores[name]; ok {
		return s
	}
	s := &store{d: d, name: name, data: map[string][]byte{}}
	d.stores[name] = s
	return s
}

// Store returns the named store (e.g. "chain", "state") for raw inspection.
func (d *Disk) Store(name string) db.DB { return d.open(name) }

// Units is the number of durable write units issued so far.
func (d *Disk) Units() int { d.mu.Lock(); defer d.mu.Unlock(); return len(d.Journal) }

// Checkpoint makes the current content the base and empties the journal.
func (d *Disk) Checkpoint() {
	d.mu.Lock()
	defer d.mu.Unlock()
	d.base = map[string]map[string][]byte{}
	for n, s := range d.stores {
		m := make(map[string][]byte, len(s.data))
		for k, v := range s.data {
			m[k] = v
		}
		d.base[n] = m
	}
	d.Journal = nil
}

// Arm makes the disk "die" when unit number k (0-based, counted from the last
// checkpoint) is about to be written; torn>0 lets that many leading ops of a
// bulk unit reach the disk first.
func (d *Disk) Arm(k, torn int) {
	d.mu.Lock()
	d.armed, d.crashAt, d.torn, d.dead = true, k, torn, false
	d.mu.Unlock()
}

func (d *Disk) Disarm() { d.mu.Lock(); d.armed, d.dead = false, false; d.mu.Unlock() }
func (d *Disk) Dead() bool { d.mu.Lock(); defer d.mu.Unlock(); return d.dead }

// RebuildAt resets every store to base + Journal[0:k] (+ torn prefix of unit k)
// and truncates the journal accordingly: the state a restarted process finds.
func (d *Disk) RebuildAt(k, torn int) {
	d.mu.Lock()
	defer d.mu.Unlock()
	if k > len(d.Journal) {
		k = len(d.Journal)
	}
	for n, s := range d.stores {
		s.data = map[string][]byte{}
		for kk, v := range d.base[n] {
			s.data[kk] = v
		}
	}
	for i := 0; i < k; i++ {
		u := d.Journal[i]
		d.stores[u.Store].apply(u.Ops)
	}
	if torn > 0 && k < len(d.Journal) && d.Journal[k].Kind == "bulk" {
		u := d.Journal[k]
		if torn > len(u.Ops) {
			torn = len(u.Ops)
		}
		d.stores[u.Store].apply(u.Ops[:torn])
		d.Journal = append(d.Journal[:k:k], Unit{Store: u.Store, Kind: "bulk-torn", Ops: u.Ops[:torn]})
	} else {
		d.Journal = d.Journal[:k:k]
	}
	d.armed, d.dead = false, false
}

// write appends a unit (or dies). Caller holds no lock.
func (d *Disk) write(u Unit) {
	d.mu.Lock()
	if d.dead {
		d.mu.Unlock()
		panic(Crash{Unit: d.crashAt})
	}
	if d.armed && len(d.Journal) == d.crashAt {
		d.dead = true
		if d.torn > 0 && u.Kind == "bulk" {
			t := d.torn
			if t > len(u.Ops) {
				t = len(u.Ops)
			}
			d.stores[u.Store].apply(u.Ops[:t])
			d.Journal = append(d.Journal, Unit{Store: u.Store, Kind: "bulk-torn", Ops: u.Ops[:t]})
		}
		d.mu.Unlock()
		panic(Crash{Unit: d.crashAt})
	}
	d.Journal = append(d.Journal, u)
	d.stores[u.Store].apply(u.Ops)
	d.Writes++
	d.mu.Unlock()
}

// Dump returns the sorted key list of a store (raw key scan).
func (d *Disk) Dump(name string) map[string][]byte {
	d.mu.Lock()
	defer d.mu.Unlock()
	s := d.stores[name]
	m := map[string][]byte{}
	if s != nil {
		for k, v := range s.data {
			m[k] = v
		}
	}
	return m
}

type store struct {
	d    *Disk
	name string
	data map[string][]byte // guarded by d.mu
}

func (s *store) apply(ops []Op) {
	for _, o := range ops {
		if o.Del {
			delete(s.data, string(o.K))
		} else {
			s.data[string(o.K)] = o.V
		}
	}
}

func cp(b []byte) []byte {
	if b == nil {
		return []byte{}
	}
	return append([]byte{}, b...)
}

func (s *store) Type() string { return Impl }
func (s *store) Set(k, v []byte) {
	s.d.write(Unit{Store: s.name, Kind: "set", Ops: []Op{{K: cp(k), V: cp(v)}}})
}
func (s *store) Delete(k []byte) {
	s.d.write(Unit{Store: s.name, Kind: "del", Ops: []Op{{Del: true, K: cp(k)}}})
}
func (s *store) Get(k []byte) []byte {
	s.d.mu.Lock()
	defer s.d.mu.Unlock()
	v, ok := s.data[string(k)]
	if !ok {
		return []byte{}
	}
	return v
}
func (s *store) Exist(k []byte) bool {
	s.d.mu.Lock()
	defer s.d.mu.Unlock()
	_, ok := s.data[string(k)]
	return ok
}
func (s *store) Close() {}

func (s *store) NewTx() db.Transaction { return &txn{s: s} }
func (s *store) NewBulk() db.Bulk      { return &bulk{s: s} }

type txn struct {
	s    *store
	ops  []Op
	done bool
}

func (t *txn) Set(k, v []byte) { t.ops = append(t.ops, Op{K: cp(k), V: cp(v)}) }
func (t *txn) Delete(k []byte) { t.ops = append(t.ops, Op{Del: true, K: cp(k)}) }
func (t *txn) Commit() {
	if t.done {
		panic("simdisk: commit after commit/discard")
	}
	t.done = true
	t.s.d.write(Unit{Store: t.s.name, Kind: "tx", Ops: t.ops})
}
func (t *txn) Discard() { t.done = true }

type bulk struct {
	s    *store
	ops  []Op
	done bool
}

func (b *bulk) Set(k, v []byte) { b.ops = append(b.ops, Op{K: cp(k), V: cp(v)}) }
func (b *bulk) Delete(k []byte) { b.ops = append(b.ops, Op{Del: true, K: cp(k)}) }
func (b *bulk) Flush() {
	if b.done {
		panic("simdisk: flush after flush/discard")
	}
	b.done = true
	ops := b.ops
	if b.s.d.PermBulk != nil {
		ops = b.s.d.PermBulk(ops)
	}
	ch := b.s.d.BulkChunk
	if ch <= 0 || ch >= len(ops) {
		b.s.d.write(Unit{Store: b.s.name, Kind: "bulk", Ops: ops})
		return
	}
	part := 0
	for i := 0; i < len(ops); i += ch {
		j := i + ch
		if j > len(ops) {
			j = len(ops)
		}
		b.s.d.write(Unit{Store: b.s.name, Kind: "bulk", Ops: ops[i:j], Part: part})
		part++
	}
}
func (b *bulk) DiscardLast() { b.done = true }

// Iterator: same semantics as aergo-lib memorydb (start>end ⇒ reverse).
type iter struct {
	keys []string
	vals [][]byte
	cur  int
}

func inRange(key, start, end []byte, reverse bool) bool {
	if reverse {
		if start != nil && bytes.Compare(start, key) < 0 {
			return false
		}
		if end != nil && bytes.Compare(key, end) <= 0 {
			return false
		}
		return true
	}
	if bytes.Compare(key, start) < 0 {
		return false
	}
	if end != nil && bytes.Compare(end, key) <= 0 {
		return false
	}
	return true
}

func (s *store) Iterator(start, end []byte) db.Iterator {
	s.d.mu.Lock()
	defer s.d.mu.Unlock()
	reverse := bytes.Compare(start, end) == 1
	var keys []string
	for k := range s.data {
		if inRange([]byte(k), start, end, reverse) {
			keys = append(keys, k)
		}
	}
	sort.Strings(keys)
	if reverse {
		for i, j := 0, len(keys)-1; i < j; i, j = i+1, j-1 {
			keys[i], keys[j] = keys[j], keys[i]
		}
	}
	it := &iter{keys: keys}
	for _, k := range keys {
		it.vals = append(it.vals, s.data[k])
	}
	return it
}

func (i *iter) Next() {
	if !i.Valid() {
		panic("Iterator is Invalid")
	}
	i.cur++
}
func (i *iter) Valid() bool   { return i.cur >= 0 && i.cur < len(i.keys) }
func (i *iter) Key() []byte   { return []byte(i.keys[i.cur]) }
func (i *iter) Value() []byte { return i.vals[i.cur] }
