// Package simnode wires real aergo services (chain service, state DB, mempool,
// DPoS) into simulated nodes that live in one process, on simulated disks, joined
// by a ComponentHub whose components are synchronous adapters owned by the simulator.
package simnode

import (
	"context"
	"crypto/sha256"
	"fmt"
	"math/big"
	"os"
	"runtime/debug"
	"sort"
	"time"

	"github.com/aergoio/aergo-actor/actor"
	"github.com/aergoio/aergo/v2/account/key"
	keycrypto "github.com/aergoio/aergo/v2/account/key/crypto"
	"github.com/aergoio/aergo/v2/chain"
	"github.com/aergoio/aergo/v2/config"
	"github.com/aergoio/aergo/v2/consensus"
	"github.com/aergoio/aergo/v2/consensus/impl/dpos"
	"github.com/aergoio/aergo/v2/consensus/impl/dpos/bp"
	"github.com/aergoio/aergo/v2/contract"
	"github.com/aergoio/aergo/v2/contract/system"
	"github.com/aergoio/aergo/v2/fee"
	"github.com/aergoio/aergo/v2/internal/common"
	"github.com/aergoio/aergo/v2/internal/enc/base58"
	"github.com/aergoio/aergo/v2/mempool"
	"github.com/aergoio/aergo/v2/p2p/p2pkey"
	"github.com/aergoio/aergo/v2/pkg/component"
	"github.com/aergoio/aergo/v2/state"
	"github.com/aergoio/aergo/v2/state/statedb"
	"github.com/aergoio/aergo/v2/types"
	"github.com/aergoio/aergo/v2/types/message"
	"github.com/aergoio/aergo/v2/zz_verif/simclock"
	"github.com/aergoio/aergo/v2/zz_verif/simdisk"
	"github.com/aergoio/aergo/v2/zz_verif/simgo"
	"github.com/btcsuite/btcd/btcec/v2"
	"github.com/libp2p/go-libp2p/core/crypto"
)

// Account is a client identity (secp256k1 key, 33-byte address).
type Account struct {
	Priv *btcec.PrivateKey
	Addr []byte
}

func NewAccount(label string, i int) *Account {
	seed := sha256.Sum256([]byte(fmt.Sprintf("%s-%d", label, i)))
	priv, _ := btcec.PrivKeyFromBytes(seed[:])
	return &Account{Priv: priv, Addr: keycrypto.GenerateAddress(priv.PubKey().ToECDSA())}
}

// Net is what all nodes of one simulated chain share.
type Net struct {
	Scratch   string
	Genesis   *types.Genesis
	Hardfork  config.HardforkConfig
	BPKeys    []crypto.PrivKey
	BPIDs     []types.PeerID
	Accounts  []*Account
	Public    bool
	Start     time.Time // simulated time of slot 0 (well after genesis)
	BlockIntv int       // seconds
	Nodes     []*Node
}

type NetOpts struct {
	Scratch   string
	NBP       int
	NAcc      int
	Public    bool
	Hardfork  config.HardforkConfig
	Balance   string // initial balance of each account (decimal)
	Vault     string // balance of aergo.vault ("" = none)
	Magic     string
	BlockIntv int
}

func bpKey(i int) crypto.PrivKey {
	seed := sha256.Sum256([]byte(fmt.Sprintf("bpkey-%d", i)))
	k, err := crypto.UnmarshalSecp256k1PrivateKey(seed[:])
	if err != nil {
		panic(err)
	}
	return k
}

// NewNet prepares a chain definition and resets the process-wide settings that a
// real deployment would fix at process start.
func NewNet(o NetOpts) *Net {
	if o.BlockIntv <= 0 {
		o.BlockIntv = 1
	}
	if o.Magic == "" {
		o.Magic = "verif.sim"
	}
	n := &Net{Scratch: o.Scratch, Hardfork: o.Hardfork, Public: o.Public, BlockIntv: o.BlockIntv}
	g := &types.Genesis{
		ID:        types.ChainID{Magic: o.Magic, Consensus: "dpos", PublicNet: o.Public},
		Timestamp: time.Date(2020, 1, 1, 0, 0, 0, 0, time.UTC).UnixNano(),
		Balance:   map[string]string{},
	}
	for i := 0; i < o.NBP; i++ {
		k := bpKey(i)
		id, _ := types.IDFromPublicKey(k.GetPublic())
		n.BPKeys = append(n.BPKeys, k)
		n.BPIDs = append(n.BPIDs, id)
		g.BPs = append(g.BPs, base58.Encode([]byte(id)))
	}
	for i := 0; i < o.NAcc; i++ {
		a := NewAccount("acct", i)
		n.Accounts = append(n.Accounts, a)
		g.Balance[types.EncodeAddress(a.Addr)] = o.Balance
	}
	if o.Vault != "" {
		g.Balance[types.AergoVault] = o.Vault
	}
	n.Genesis = g
	n.Start = time.Date(2021, 1, 1, 0, 0, 0, 0, time.UTC)
	// process-wide state
	consensus.InitBlockInterval(int64(o.BlockIntv))
	fee.VerifSetZeroFee(false)
	system.VerifResetProcess()
	bp.VerifElectionPeriod = 0
	simclock.Set(n.Start)
	simclock.Skew = 0
	return n
}

// Sent is a message a node addressed to a service the simulator replaces.
type Sent struct {
	To  string
	Msg interface{}
}

type Node struct {
	Net      *Net
	Idx      int
	Dir      string
	Disk     *simdisk.Disk
	Cfg      *config.Config
	CS       *chain.ChainService
	MP       *mempool.MemPool
	DP       *dpos.DPoS
	Hub      *component.ComponentHub
	Key      crypto.PrivKey // nil for observers
	Coinbase []byte
	Skew     time.Duration
	LpbNo    types.BlockNo
	Outbox   []Sent      // NotifyNewBlock, SyncStart, … (drained by the world)
	HandBack []*types.Tx // txs the chain offered back to the pool (MemPoolPut), in arrival order
	// DeferHandBack keeps MemPoolPut hand-backs queued until DeliverHandBack.
	DeferHandBack bool
	Up            bool
	Wedged        bool // a delivery never returned (see AddBlock)
	// Veto: hashes of blocks the permissive consensus refuses in IsBlockValid (survives restarts:
	// it stands for a property of the block, not for node state)
	Veto map[string]bool
	sysctx        system.VerifCtx
	dpctx         dpos.VerifCtx
	Consensus     string // "dpos" or "permissive"
	// MemPoolGetHook lets a world reorder/perturb what the pool hands to the producer.
	MemPoolGetHook func([]types.Transaction) []types.Transaction
}

type adapter struct {
	name string
	hub  *component.ComponentHub
	h    func(msg interface{}) interface{}
}

func (a *adapter) GetName() string                     { return a.name }
func (a *adapter) Start()                              {}
func (a *adapter) Stop()                               {}
func (a *adapter) Status() component.Status            { return component.StartedStatus }
func (a *adapter) SetHub(h *component.ComponentHub)    { a.hub = h }
func (a *adapter) Hub() *component.ComponentHub        { return a.hub }
func (a *adapter) MsgQueueLen() int32                  { return 0 }
func (a *adapter) Tell(m interface{})                  { a.h(m) }
func (a *adapter) Request(m interface{}, s *actor.PID) { a.h(m) }
func (a *adapter) RequestFuture(m interface{}, to time.Duration, tip string) *actor.Future {
	f := actor.NewFuture(to)
	f.PID().Tell(a.h(m))
	return f
}
func (a *adapter) Receive(actor.Context) {}

// AddNode creates node idx (bpIdx<0: observer) and boots it for the first time.
func (net *Net) AddNode(bpIdx int, coinbase []byte, consensusKind string) *Node {
	idx := len(net.Nodes)
	dir := fmt.Sprintf("%s/n%d", net.Scratch, idx)
	_ = os.MkdirAll(dir, 0o755)
	n := &Node{Net: net, Idx: idx, Dir: dir, Disk: simdisk.New(dir), Coinbase: coinbase, Consensus: consensusKind}
	if bpIdx >= 0 {
		n.Key = net.BPKeys[bpIdx]
	} else {
		seed := sha256.Sum256([]byte(fmt.Sprintf("observer-%d", idx)))
		n.Key, _ = crypto.UnmarshalSecp256k1PrivateKey(seed[:])
	}
	net.Nodes = append(net.Nodes, n)
	n.Boot()
	return n
}

func (n *Node) enter() {
	p2pkey.VerifSetKey(n.Key)
	chain.VerifSetCoinbase(n.Coinbase)
	system.VerifRestoreCtx(n.sysctx)
	dpos.VerifRestoreCtx(n.dpctx)
	simclock.Skew = n.Skew
}

func (n *Node) leave() { n.sysctx = system.VerifSaveCtx(); n.dpctx = dpos.VerifSaveCtx() }

// Do runs f with this node's process context installed.
func (n *Node) Do(f func()) {
	n.enter()
	defer n.leave()
	f()
}

// Boot constructs the services over the node's disk: the production start-up path
// (NewCore+genesis on first boot, NewChainService, NewMemPoolService, dpos.New).
func (n *Node) Boot() {
	ctx := config.NewServerContext("", "")
	cfg := ctx.GetDefaultConfig().(*config.Config)
	cfg.DbType = simdisk.Impl
	cfg.DataDir = n.Dir
	cfg.Consensus.EnableBp = true
	cfg.Blockchain.VerifierCount = 1
	cfg.Blockchain.NumWorkers = 1
	cfg.Mempool.VerifierNumber = 1
	hf := n.Net.Hardfork
	cfg.Hardfork = &hf
	if n.Coinbase != nil {
		cfg.Blockchain.CoinbaseAccount = types.EncodeAddress(n.Coinbase)
	}
	n.Cfg = cfg
	p2pkey.VerifSetKey(n.Key)
	simclock.Skew = n.Skew

	core, err := chain.NewCore(cfg.DbType, cfg.DataDir, false, 0, cfg.DB)
	if err != nil {
		panic(err)
	}
	g := *n.Net.Genesis
	bal := map[string]string{}
	for k, v := range n.Net.Genesis.Balance {
		bal[k] = v
	}
	g.Balance = bal
	g.BPs = append([]string{}, n.Net.Genesis.BPs...)
	if err := core.InitGenesisBlock(&g, true); err != nil {
		panic(err)
	}
	core.Close()

	n.CS = chain.NewChainService(cfg)
	n.MP = mempool.NewMemPoolService(cfg, n.CS)
	n.Hub = component.NewComponentHub()
	n.Hub.Register(
		&adapter{name: message.MemPoolSvc, h: n.onMemPool},
		&adapter{name: message.ChainSvc, h: n.onChain},
		&adapter{name: message.P2PSvc, h: func(m interface{}) interface{} { n.Outbox = append(n.Outbox, Sent{message.P2PSvc, m}); return nil }},
		&adapter{name: message.RPCSvc, h: func(m interface{}) interface{} { return nil }},
		&adapter{name: message.SyncerSvc, h: func(m interface{}) interface{} { n.Outbox = append(n.Outbox, Sent{message.SyncerSvc, m}); return nil }},
	)
	n.CS.SetHub(n.Hub)
	n.MP.SetHub(n.Hub)
	dpos.VerifFreshCtx()
	c, err := dpos.New(cfg, n.Hub, n.CS.CDB(), n.CS.SDB())
	if err != nil {
		panic(err)
	}
	n.DP = c.(*dpos.DPoS)
	n.DP.VerifLoad()
	n.LpbNo = n.DP.VerifBootLpbNo()
	if n.Consensus == "permissive" {
		n.CS.SetChainConsensus(&Permissive{DPoS: n.DP, N: n})
	} else {
		n.CS.SetChainConsensus(n.DP)
	}
	best, _ := n.CS.GetBestBlock()
	n.MP.VerifInit(best)
	n.Up = true
	n.leave()
}

// Recover runs the chain service's start-up recovery (what the first actor message does).
func (n *Node) Recover() (err error) {
	n.Do(func() { err = n.CS.Recover() })
	return
}

// Stop releases goroutines of the current service instances (process exit).
func (n *Node) Stop() {
	if n.Wedged {
		n.Up = false
		n.CS, n.MP, n.DP = nil, nil, nil
		return
	}
	if n.CS != nil {
		func() {
			defer func() { _ = recover() }()
			n.CS.VerifStop()
		}()
	}
	if n.DP != nil {
		func() {
			defer func() { _ = recover() }()
			n.DP.VerifQuit()
		}()
	}
	n.Up = false
	n.CS, n.MP, n.DP = nil, nil, nil
}

// Close stops the node and forgets its disk.
func (n *Node) Close() {
	n.Stop()
	n.Disk.Unregister()
	_ = os.RemoveAll(n.Dir)
}

func (net *Net) Close() {
	for _, n := range net.Nodes {
		n.Close()
	}
}

func (n *Node) onMemPool(m interface{}) interface{} {
	switch msg := m.(type) {
	case *message.MemPoolGet:
		txs, err := n.MP.VerifGet(msg.MaxBlockBodySize)
		txs = CanonTxs(txs)
		if n.MemPoolGetHook != nil {
			txs = n.MemPoolGetHook(txs)
		}
		return &message.MemPoolGetRsp{Txs: txs, Err: err}
	case *message.MemPoolDel:
		return &message.MemPoolDelRsp{Err: n.MP.VerifOnBlock(msg.Block)}
	case *message.MemPoolExist:
		return &message.MemPoolExistRsp{Tx: n.MP.VerifExist(msg.Hash)}
	case *message.MemPoolExistEx:
		var txs []*types.Tx
		for _, h := range msg.Hashes {
			txs = append(txs, n.MP.VerifExist(h))
		}
		return &message.MemPoolExistExRsp{Txs: txs}
	case *message.MemPoolPut:
		n.HandBack = append(n.HandBack, msg.Tx)
		if !n.DeferHandBack {
			return &message.MemPoolPutRsp{Err: n.MP.VerifPut(msg.Tx)}
		}
		return nil
	}
	return nil
}

func (n *Node) onChain(m interface{}) interface{} {
	switch msg := m.(type) {
	case *message.GetBestBlock:
		b, err := n.CS.GetBestBlock()
		return message.GetBestBlockRsp{Block: b, Err: err}
	case *message.CheckFeeDelegation:
		// same steps as the chain worker
		sdb := n.CS.SDB().OpenNewStateDB(n.CS.SDB().GetRoot())
		ctrState, err := statedb.OpenContractStateAccount(msg.Contract, sdb)
		if err != nil {
			return message.CheckFeeDelegationRsp{Err: err}
		}
		bs := state.NewBlockState(sdb)
		err = contract.CheckFeeDelegation(msg.Contract, bs, nil, n.CS.CDB(), ctrState, msg.Payload, msg.TxHash, msg.Sender, msg.Amount)
		return message.CheckFeeDelegationRsp{Err: err}
	}
	return nil
}

// CanonTxs removes Go map order from MemPool.get: accounts sorted by address,
// per-account order preserved (that is the only order the pool guarantees).
func CanonTxs(txs []types.Transaction) []types.Transaction {
	groups := map[string][]types.Transaction{}
	var keys []string
	for _, t := range txs {
		k := string(t.GetBody().GetAccount())
		if _, ok := groups[k]; !ok {
			keys = append(keys, k)
		}
		groups[k] = append(groups[k], t)
	}
	sort.Strings(keys)
	out := make([]types.Transaction, 0, len(txs))
	for _, k := range keys {
		out = append(out, groups[k]...)
	}
	return out
}

// Best returns the node's best block.
func (n *Node) Best() *types.Block { b, _ := n.CS.GetBestBlock(); return b }

// ChainIDHash returns the chain-id hash a tx must carry to enter the block after best.
func (n *Node) ChainIDHash() []byte {
	best := n.Best()
	bi := types.NewBlockHeaderInfoFromPrevBlock(best, 0, n.Cfg.Hardfork)
	return common.Hasher(bi.ChainId)
}

// Submit offers a tx to the node's pool (verifyTx + put, as the TxVerifier actor does).
func (n *Node) Submit(tx *types.Tx) (err error) {
	n.Do(func() { err = n.MP.VerifPut(tx) })
	return
}

// Produce generates and signs a block for the slot containing ts, then connects it
// through the producer path (addBlock with the used block state).
func (n *Node) Produce(ctx context.Context, ts time.Time) (blk *types.Block, genErr, addErr error) {
	n.Do(func() {
		var bs *state.BlockState
		blk, bs, genErr = n.DP.VerifGenerate(ctx, ts, n.LpbNo)
		if genErr != nil {
			blk = nil
			return
		}
		addErr = n.CS.VerifAddBlock(blk, bs, "")
		if addErr == nil {
			n.LpbNo = blk.BlockNo()
		}
	})
	return
}

// ProduceNow is what a correct producer does at its local time: the DPoS decision whether this
// instant belongs to one of its slots (membership, slot owner, not yet produced, timing), block
// generation for that slot and the producer-path connect. produced=false: not its turn.
func (n *Node) ProduceNow(ctx context.Context) (blk *types.Block, produced bool, genErr, addErr error) {
	n.Do(func() {
		var bs *state.BlockState
		blk, bs, genErr, produced = n.DP.VerifGenerateNow(ctx, simclock.Now(), n.LpbNo)
		if !produced || genErr != nil {
			blk = nil
			return
		}
		addErr = n.CS.VerifAddBlock(blk, bs, "")
		if addErr == nil {
			n.LpbNo = blk.BlockNo()
		}
	})
	return
}

// ConnectOwn connects a block this node generated itself (producer path).
func (n *Node) ConnectOwn(blk *types.Block, bs *state.BlockState) (err error) {
	n.Do(func() {
		err = n.CS.VerifAddBlock(blk, bs, "")
		if err == nil {
			n.LpbNo = blk.BlockNo()
		}
	})
	return
}

// Generate only builds and signs a block (no connect); used by branch builders and
// Byzantine producers.
func (n *Node) Generate(ctx context.Context, ts time.Time) (blk *types.Block, bs *state.BlockState, err error) {
	n.Do(func() { blk, bs, err = n.DP.VerifGenerate(ctx, ts, n.LpbNo) })
	return
}

// AddBlock delivers a block from the network (validator path).
//
// Bounded liveness: processing one block takes micro- to milliseconds; a delivery that has not
// returned after HangAfter of real time is a node that waits for something that will never come
// (e.g. a verification result nobody sends). That is reported as a panic of the delivery ("hung"),
// which every world already treats as the death of the node under test; the node is marked Wedged
// and is never stopped (its goroutines are leaked inside the simulator process). The bound is real
// time on purpose: it only ever fires on an infinite wait, and a replay hangs in the same place.
func (n *Node) AddBlock(b *types.Block, peer types.PeerID) (err error) {
	cp := CloneBlock(b)
	done := make(chan interface{}, 1)
	go func() {
		defer func() {
			if r := recover(); r != nil {
				done <- Rethrown{Val: r, Stack: string(debug.Stack())}
				return
			}
			done <- nil
		}()
		n.Do(func() {
			defer n.CS.VerifQuiesce()
			err = n.CS.VerifAddBlock(cp, nil, peer)
		})
	}()
	select {
	case p := <-done:
		if p != nil {
			panic(p)
		}
	case <-time.After(HangAfter):
		n.Wedged = true
		simgo.Poisoned = "a block delivery hung"
		panic(fmt.Sprintf("the node hung: the delivery of block %d did not return within %s (code under test waits forever)", b.BlockNo(), HangAfter))
	}
	return
}

// Rethrown carries a panic of the delivery goroutine (with the stack it was raised on) to the caller.
type Rethrown struct {
	Val   interface{}
	Stack string
}

func (r Rethrown) String() string   { return fmt.Sprint(r.Val) }
func (r Rethrown) SUTStack() string { return r.Stack }

// HangAfter is the real-time bound after which a block delivery counts as hung.
var HangAfter = 45 * time.Second

// CloneBlock deep-copies a block through its wire encoding.
func CloneBlock(b *types.Block) *types.Block {
	buf, err := protoEncode(b)
	if err != nil {
		panic(err)
	}
	var c types.Block
	if err := protoDecode(buf, &c); err != nil {
		panic(err)
	}
	return &c
}

// SignedTx builds and signs a transaction.
func SignedTx(a *Account, nonce uint64, to []byte, amount *big.Int, typ types.TxType, payload []byte, chainIDHash []byte, gasLimit uint64) *types.Tx {
	tx := &types.Tx{Body: &types.TxBody{Nonce: nonce, Account: a.Addr, Recipient: to, Amount: amount.Bytes(),
		Type: typ, Payload: payload, GasLimit: gasLimit, ChainIdHash: chainIDHash}}
	if err := key.SignTx(tx, a.Priv); err != nil {
		panic(err)
	}
	tx.Hash = tx.CalculateTxHash()
	return tx
}
