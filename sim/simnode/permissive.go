package simnode

import (
	"errors"
	"github.com/aergoio/aergo/v2/consensus/impl/dpos"
	"github.com/aergoio/aergo/v2/internal/enc/proto"
	"github.com/aergoio/aergo/v2/types"
)

// Permissive is the CHAIN world's consensus plug (config A): real DPoS status, LIB
// and signature verification, but no slot-ownership / timestamp veto, so that
// arbitrary block trees are admissible (same role as the repo's own StubConsensus).
type Permissive struct {
	*dpos.DPoS
	N *Node
}

func (p *Permissive) VerifyTimestamp(*types.Block) bool { return true }

// IsBlockValid refuses exactly the blocks the world marked (Node.Veto, keyed by block hash): the
// stand-in for "signed by a producer that does not own the slot". Where the chain service asks
// this question, and what it has already started by then, is the code under test.
func (p *Permissive) IsBlockValid(b, best *types.Block) error {
	if p.N != nil && p.N.Veto[string(b.BlockHash())] {
		return errVeto
	}
	return nil
}

var errVeto = errors.New("BP is not permitted for the time slot (vetoed by the simulated consensus)")

func protoEncode(b *types.Block) ([]byte, error)   { return proto.Encode(b) }
func protoDecode(buf []byte, b *types.Block) error { return proto.Decode(buf, b) }
