package simnode

import (
	"github.com/aergoio/aergo/v2/consensus/impl/dpos"
	"github.com/aergoio/aergo/v2/internal/enc/proto"
	"github.com/aergoio/aergo/v2/types"
)

// Permissive is the CHAIN world's consensus plug (config A): real DPoS status, LIB
// and signature verification, but no slot-ownership / timestamp veto, so that
// arbitrary block trees are admissible (same role as the repo's own StubConsensus).
type Permissive struct{ *dpos.DPoS }

func (p *Permissive) VerifyTimestamp(*types.Block) bool           { return true }
func (p *Permissive) IsBlockValid(b, best *types.Block) error     { return nil }

func protoEncode(b *types.Block) ([]byte, error)      { return proto.Encode(b) }
func protoDecode(buf []byte, b *types.Block) error    { return proto.Decode(buf, b) }
