package simnode

import (
	"bytes"
	"encoding/hex"
	"fmt"
	"math/big"
	"sort"

	"github.com/aergoio/aergo-lib/db"
	"github.com/aergoio/aergo/v2/internal/common"
	"github.com/aergoio/aergo/v2/internal/enc/proto"
	"github.com/aergoio/aergo/v2/pkg/trie"
	"github.com/aergoio/aergo/v2/types"
)

// AcctDump is one account as found by the independent full-state walker.
type AcctDump struct {
	Nonce       uint64
	Balance     *big.Int
	CodeHash    []byte
	StorageRoot []byte
	Storage     map[string]string // trie key (hex) -> raw value
}

// WalkState enumerates every account leaf below root with the trie's public API and
// decodes the states from the raw store; storage tries are walked the same way.
func WalkState(store db.DB, root []byte, withStorage bool) (map[string]*AcctDump, error) {
	out := map[string]*AcctDump{}
	if len(root) == 0 {
		return out, nil
	}
	t := trie.NewTrie(root, common.Hasher, store)
	for _, k := range t.GetKeys() {
		vh, err := t.Get(k)
		if err != nil {
			return nil, err
		}
		raw := store.Get(vh)
		if len(raw) == 0 && !store.Exist(vh) {
			return nil, fmt.Errorf("state data %x of account %x missing in the store", vh, k)
		}
		st := &types.State{}
		if err := proto.Decode(raw, st); err != nil {
			return nil, err
		}
		d := &AcctDump{Nonce: st.Nonce, Balance: st.GetBalanceBigInt(), CodeHash: st.CodeHash, StorageRoot: common.Compactz(st.StorageRoot)}
		if withStorage && len(d.StorageRoot) != 0 {
			d.Storage = map[string]string{}
			s := trie.NewTrie(d.StorageRoot, common.Hasher, store)
			for _, sk := range s.GetKeys() {
				svh, err := s.Get(sk)
				if err != nil {
					return nil, err
				}
				d.Storage[hex.EncodeToString(sk)] = string(store.Get(svh))
			}
		}
		out[hex.EncodeToString(k)] = d
	}
	return out, nil
}

// SumBalances adds up every account balance of a walk.
func SumBalances(w map[string]*AcctDump) *big.Int {
	s := new(big.Int)
	for _, a := range w {
		s.Add(s, a.Balance)
	}
	return s
}

// DiffStates lists the differences between two walks as sorted strings
// "acct:<id8>:balance:<delta>", "acct:<id8>:nonce:<a>-><b>", "acct:<id8>:code", "stor:<id8>:<key8>".
func DiffStates(a, b map[string]*AcctDump) []string {
	var out []string
	keys := map[string]bool{}
	for k := range a {
		keys[k] = true
	}
	for k := range b {
		keys[k] = true
	}
	for k := range keys {
		x, y := a[k], b[k]
		if x == nil {
			x = &AcctDump{Balance: new(big.Int)}
		}
		if y == nil {
			y = &AcctDump{Balance: new(big.Int)}
		}
		id := k[:8]
		if (a[k] == nil) != (b[k] == nil) {
			out = append(out, "acct:"+id+":exists")
		}
		if x.Balance.Cmp(y.Balance) != 0 {
			out = append(out, "acct:"+id+":balance:"+new(big.Int).Sub(y.Balance, x.Balance).String())
		}
		if x.Nonce != y.Nonce {
			out = append(out, fmt.Sprintf("acct:%s:nonce:%d->%d", id, x.Nonce, y.Nonce))
		}
		if !bytes.Equal(x.CodeHash, y.CodeHash) {
			out = append(out, "acct:"+id+":code")
		}
		sk := map[string]bool{}
		for s := range x.Storage {
			sk[s] = true
		}
		for s := range y.Storage {
			sk[s] = true
		}
		for s := range sk {
			if x.Storage[s] != y.Storage[s] {
				out = append(out, "stor:"+id+":"+s[:8])
			}
		}
	}
	sort.Strings(out)
	return out
}

// AcctKey returns the walker's key for an address.
func AcctKey(addr []byte) string {
	id := types.ToAccountID(addr)
	return hex.EncodeToString(id[:])
}
