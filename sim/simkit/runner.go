package simkit

import (
	"encoding/json"
	"fmt"
	"github.com/aergoio/aergo/v2/zz_verif/simgo"
	"os"
	"path/filepath"
	"runtime/debug"
	"sort"
	"strings"
	"time"
)

// Exec runs one case in replay (rng==nil) or generate mode and converts a
// harness panic into Outcome.Infra (never a violation: worlds catch the panics
// of the system under test themselves, where a panic means something).
func Exec(w World, c *Case, generate bool, verbose bool) (out *Outcome, trace []string) {
	var rng *Rng
	if generate {
		c.Steps = nil
		rng = NewRng(c.Seed)
	}
	x := NewCtx(c, rng)
	x.Verbose = verbose
	simgo.ResetMaps(c.Seed | 1)
	defer func() {
		if r := recover(); r != nil {
			stack := string(debug.Stack())
			if rt, ok := r.(interface{ SUTStack() string }); ok {
				stack = rt.SUTStack() // raised on another goroutine (a delivery run under the hang watchdog)
			}
			out = x.Finish()
			trace = x.Trace
			// A panic raised inside the code under test while the world was driving it with legal
			// operations means the node (or the library) died: that is a violation of whatever
			// property the run was checking, not harness trouble. A panic raised by the harness
			// itself (or one it re-threw deliberately with a "verif:"/"harness" message) stays infra.
			if fn := sutPanicOrigin(stack); fn != "" && !strings.Contains(fmt.Sprint(r), "harness") {
				if out.Violation == nil {
					out.Violation = &Violation{Prop: c.Prop, Class: "code-under-test-panicked", Sig: fn,
						Detail: fmt.Sprintf("panic in %s: %v", fn, firstLine(fmt.Sprint(r))), Step: x.pos - 1}
				}
				return
			}
			out.Infra = fmt.Sprintf("harness panic: %v\n%s", r, stack)
			out.Violation = nil
		}
	}()
	w.Run(x)
	return x.Finish(), x.Trace
}

func firstLine(s string) string {
	if i := strings.IndexByte(s, '\n'); i >= 0 {
		return s[:i]
	}
	return s
}

// sutPanicOrigin returns the function in which a recovered panic was raised if that function
// belongs to aergo proper (not to the simulator), else "".
func sutPanicOrigin(stack string) string {
	lines := strings.Split(stack, "\n")
	for i, l := range lines {
		if strings.HasPrefix(l, "panic(") {
			// the frame after panic() (skipping runtime helpers such as goPanicIndex) raised it
			for j := i + 2; j < len(lines); j += 2 {
				fn := strings.TrimSpace(lines[j])
				if strings.HasPrefix(fn, "runtime.") || fn == "" {
					continue
				}
				if k := strings.LastIndexByte(fn, '('); k > 0 {
					fn = fn[:k]
				}
				if strings.HasPrefix(fn, "github.com/aergoio/aergo/v2/") && !strings.Contains(fn, "/zz_verif/") {
					return strings.TrimPrefix(fn, "github.com/aergoio/aergo/v2/")
				}
				return ""
			}
		}
	}
	return ""
}

// ReplayFile is the on-disk form of a reported violation.
type ReplayFile struct {
	Property  string     `json:"property"`
	Violation *Violation `json:"violation"`
	Case      *Case      `json:"case"`
	OrigSteps int        `json:"orig_steps"`
	MinSteps  int        `json:"min_steps"`
	Repo      string     `json:"repo_fingerprint"`
	Note      string     `json:"note,omitempty"`
}

// Known is one entry of /verif/known_findings.json.
type Known struct {
	Status   string `json:"status"` // "known" or "fixed"
	Property string `json:"property"`
	Class    string `json:"class"`
	Sig      string `json:"sig"`
	What     string `json:"what"`
	Commit   string `json:"commit,omitempty"`
}

func LoadKnown(path string) []Known {
	b, err := os.ReadFile(path)
	if err != nil {
		return nil
	}
	var f struct {
		Findings []Known `json:"findings"`
	}
	if json.Unmarshal(b, &f) != nil {
		return nil
	}
	return f.Findings
}

// InstallKnown loads the known-findings file into KnownKeys (call once per process).
func InstallKnown(path string) {
	for _, k := range LoadKnown(path) {
		if k.Status == "known" {
			KnownKeys[k.Property+"|"+k.Class+"|"+k.Sig] = k.What
		}
	}
}

func matchKnown(ks []Known, v *Violation) *Known {
	for i := range ks {
		k := &ks[i]
		if k.Status == "known" && k.Property == v.Prop && k.Class == v.Class && k.Sig == v.Sig {
			return k
		}
	}
	return nil
}

// BatchResult is what one worker process writes.
type BatchResult struct {
	Prop        string            `json:"prop"`
	World       string            `json:"world"`
	Tier        string            `json:"tier"`
	Seed        uint64            `json:"seed"`
	Evaluations int               `json:"evaluations"`
	Nontrivial  int               `json:"nontrivial"`
	Digests     []uint64          `json:"digests"`
	NtDigests   []uint64          `json:"nt_digests"`
	Stats       map[string]int64  `json:"stats"`
	SimMs       int64             `json:"sim_ms"`
	Steps       int64             `json:"steps"`
	Samples     []*Case           `json:"samples"`
	Violations  []ReplayRef       `json:"violations"`
	KnownHits   map[string]int    `json:"known_hits"`
	KnownWhat   map[string]string `json:"known_what"`
	Infra       []string          `json:"infra"`
	WallS       float64           `json:"wall_s"`
	Seeds       []uint64          `json:"seeds_first_last"`
}

type ReplayRef struct {
	Key    string `json:"key"`
	Detail string `json:"detail"`
	Path   string `json:"path"`
	Seed   uint64 `json:"seed"`
}

type BatchOpts struct {
	Prop, Tier string
	Seed       uint64
	From, To   int
	Budget     time.Duration
	ShrinkFor  time.Duration
	ReplayDir  string
	KnownPath  string
	RepoFP     string
	// Directed lists directories of replay files (recorded findings) that the first worker of a
	// world re-executes before the seeded search: the listed known findings, so that each is
	// re-confirmed (and reported as KNOWN-FINDING) on every run, and the repaired ones, so that a
	// repaired defect that returns is reported at once.
	Directed []string
}

func RunBatch(w World, o BatchOpts) *BatchResult {
	start := time.Now()
	res := &BatchResult{Prop: o.Prop, World: w.Name(), Tier: o.Tier, Seed: o.Seed,
		Stats: map[string]int64{}, KnownHits: map[string]int{}, KnownWhat: map[string]string{}}
	known := LoadKnown(o.KnownPath)
	InstallKnown(o.KnownPath)
	dig := map[uint64]struct{}{}
	ntdig := map[uint64]struct{}{}
	if o.From == 0 {
		runDirected(w, o, known, res)
	}
	for i := o.From; i < o.To && len(res.Violations) == 0 && simgo.Poisoned == ""; i++ {
		if time.Since(start) > o.Budget {
			break
		}
		cs := Mix(o.Seed, uint64(i))
		c := &Case{World: w.Name(), Prop: o.Prop, Tier: o.Tier, Seed: cs}
		out, _ := Exec(w, c, true, false)
		res.Evaluations++
		if len(res.Seeds) == 0 {
			res.Seeds = []uint64{cs, cs}
		} else {
			res.Seeds[1] = cs
		}
		res.SimMs += out.SimMs
		res.Steps += int64(len(c.Steps))
		for k, v := range out.Stats {
			res.Stats[k] += v
		}
		for k, v := range out.KnownSoft {
			res.KnownHits[k] += v
			res.KnownWhat[k] = KnownKeys[k]
		}
		for _, d := range out.Digests {
			dig[d] = struct{}{}
			if out.Nontrivial {
				ntdig[d] = struct{}{}
			}
		}
		if out.Nontrivial {
			res.Nontrivial++
		}
		if len(res.Samples) < 2 && out.Infra == "" {
			res.Samples = append(res.Samples, trimCase(c))
		}
		if out.Infra != "" {
			res.Infra = append(res.Infra, fmt.Sprintf("seed=%d: %s", cs, out.Infra))
			if len(res.Infra) > 3 {
				break
			}
			continue
		}
		if v := out.Violation; v != nil {
			if k := matchKnown(known, v); k != nil {
				res.KnownHits[v.Key()]++
				res.KnownWhat[v.Key()] = k.What
				continue
			}
			// unknown violation: confirm by replay, shrink, write, stop.
			var rf *ReplayFile
			if simgo.Poisoned != "" {
				// the code under test hangs in this process: nothing can be replayed here; the
				// recorded step list is replayed in a fresh process by `verif replay`
				rf = &ReplayFile{Property: v.Prop, Violation: v, Case: c.Clone(), OrigSteps: len(c.Steps), MinSteps: len(c.Steps),
					Note: "hang: " + simgo.Poisoned + "; not replayed or shrunk in the process that hung"}
			} else {
				rf = Minimise(w, c, v, o.ShrinkFor)
			}
			rf.Repo = o.RepoFP
			if rf.Note == "replay-diverged" {
				res.Infra = append(res.Infra, fmt.Sprintf("seed=%d: violation %s did not reproduce on replay (nondeterminism in harness)", cs, v.Key()))
				break
			}
			// a shrunk case may have turned into a known finding; never report that
			if k := matchKnown(known, rf.Violation); k != nil {
				res.KnownHits[rf.Violation.Key()]++
				res.KnownWhat[rf.Violation.Key()] = k.What
				continue
			}
			_ = os.MkdirAll(o.ReplayDir, 0o755)
			p := filepath.Join(o.ReplayDir, fmt.Sprintf("%s-%s-%d.json", o.Prop, w.Name(), cs))
			b, _ := json.MarshalIndent(rf, "", " ")
			_ = os.WriteFile(p, b, 0o644)
			res.Violations = append(res.Violations, ReplayRef{Key: rf.Violation.Key(), Detail: rf.Violation.Detail, Path: p, Seed: cs})
			break
		}
	}
	for d := range dig {
		res.Digests = append(res.Digests, d)
	}
	for d := range ntdig {
		res.NtDigests = append(res.NtDigests, d)
	}
	sort.Slice(res.Digests, func(i, j int) bool { return res.Digests[i] < res.Digests[j] })
	sort.Slice(res.NtDigests, func(i, j int) bool { return res.NtDigests[i] < res.NtDigests[j] })
	res.WallS = time.Since(start).Seconds()
	return res
}

// runDirected re-executes recorded findings of this world and property (replay mode: the step
// list decides everything). A file whose violation is a listed known finding counts as a hit of
// that finding; any other violation is reported with the file itself as its replay.
func runDirected(w World, o BatchOpts, known []Known, res *BatchResult) {
	for _, dir := range o.Directed {
		files, _ := filepath.Glob(filepath.Join(dir, "*.json"))
		sort.Strings(files)
		for _, f := range files {
			b, err := os.ReadFile(f)
			if err != nil {
				continue
			}
			var rf ReplayFile
			if json.Unmarshal(b, &rf) != nil || rf.Case == nil || rf.Case.World != w.Name() || rf.Property != o.Prop {
				continue
			}
			out, _ := Exec(w, rf.Case.Clone(), false, false)
			if out.Infra != "" {
				res.Stats["directed.stale"]++
				continue
			}
			res.Stats["directed.replayed"]++
			for k, v := range out.KnownSoft {
				res.KnownHits[k] += v
				res.KnownWhat[k] = KnownKeys[k]
			}
			v := out.Violation
			if v == nil {
				continue
			}
			if k := matchKnown(known, v); k != nil {
				res.KnownHits[v.Key()]++
				res.KnownWhat[v.Key()] = k.What
				continue
			}
			o2, _ := Exec(w, rf.Case.Clone(), false, false)
			if !sameViolation(o2.Violation, v) {
				res.Infra = append(res.Infra, fmt.Sprintf("%s: violation %s did not reproduce on a second replay (nondeterminism in harness)", f, v.Key()))
				return
			}
			res.Stats["directed.returned"]++
			what := "recorded finding reproduces again: "
			if !sameViolation(v, rf.Violation) {
				what = "the recorded case of another finding now fails like this: "
			}
			res.Violations = append(res.Violations, ReplayRef{Key: v.Key(), Detail: what + v.Detail, Path: f, Seed: rf.Case.Seed})
			return
		}
	}
}

func trimCase(c *Case) *Case {
	d := c.Clone()
	if len(d.Steps) > 40 {
		d.Steps = append(d.Steps[:40:40], Step{Op: "...", V: int64(len(c.Steps) - 40)})
	}
	return d
}

func sameViolation(a, b *Violation) bool {
	return a != nil && b != nil && a.Prop == b.Prop && a.Class == b.Class && a.Sig == b.Sig
}

// Minimise confirms the violation by replaying the recorded step list and then
// runs ddmin over the steps (top level, then nested groups), keeping a candidate
// only if the same violation (prop, class, signature) persists.
func Minimise(w World, c *Case, v *Violation, budget time.Duration) *ReplayFile {
	start := time.Now()
	orig := len(c.Steps)
	try := func(cc *Case) *Violation {
		out, _ := Exec(w, cc.Clone(), false, false)
		if out.Infra != "" {
			return nil
		}
		return out.Violation
	}
	base := c.Clone()
	v0 := try(base)
	if !sameViolation(v0, v) {
		// The step list decides everything the simulator owns. What it does not own are goroutines
		// the code under test starts itself on this path (e.g. the signature verifier's workers):
		// a defect that only bites under some of their interleavings (a hang, a lost result) shows
		// in some replays and not in others. Such a violation is still a real execution of the real
		// code, so it is reported, unshrunk and marked, if any of a few more replays shows it again;
		// if none does, it stays harness trouble (exit 2), never a verdict.
		hits := 0
		for i := 0; i < 4; i++ {
			if sameViolation(try(base), v) {
				hits++
			}
		}
		if hits == 0 {
			return &ReplayFile{Property: v.Prop, Violation: v, Case: base, OrigSteps: orig, MinSteps: orig, Note: "replay-diverged"}
		}
		return &ReplayFile{Property: v.Prop, Violation: v, Case: base, OrigSteps: orig, MinSteps: orig,
			Note: fmt.Sprintf("flaky-replay: reproduced in %d of 5 replays (free-running goroutines of the code under test on this path); not shrunk", hits)}
	}
	cur := base
	curV := v0
	// truncate after the failing step first
	if curV.Step >= 0 && curV.Step+1 < len(cur.Steps) {
		cand := cur.Clone()
		cand.Steps = cand.Steps[:curV.Step+1]
		if nv := try(cand); sameViolation(nv, v) {
			cur, curV = cand, nv
		}
	}
	n := 2
	for len(cur.Steps) >= 2 && time.Since(start) < budget {
		chunk := (len(cur.Steps) + n - 1) / n
		reduced := false
		for i := 0; i < len(cur.Steps) && time.Since(start) < budget; i += chunk {
			j := i + chunk
			if j > len(cur.Steps) {
				j = len(cur.Steps)
			}
			cand := cur.Clone()
			cand.Steps = append(append([]Step{}, cur.Steps[:i]...), cur.Steps[j:]...)
			if nv := try(cand); sameViolation(nv, v) {
				cur, curV = cand, nv
				if n > 2 {
					n--
				}
				reduced = true
				break
			}
		}
		if !reduced {
			if chunk == 1 {
				break
			}
			n *= 2
			if n > len(cur.Steps) {
				n = len(cur.Steps)
			}
		}
	}
	// nested groups: drop single sub-steps
	for i := 0; i < len(cur.Steps) && time.Since(start) < budget; i++ {
		for j := 0; j < len(cur.Steps[i].X) && time.Since(start) < budget; {
			cand := cur.Clone()
			cand.Steps[i].X = append(append([]Step{}, cur.Steps[i].X[:j]...), cur.Steps[i].X[j+1:]...)
			if nv := try(cand); sameViolation(nv, v) {
				cur, curV = cand, nv
			} else {
				j++
			}
		}
	}
	return &ReplayFile{Property: v.Prop, Violation: curV, Case: cur, OrigSteps: orig, MinSteps: len(cur.Steps)}
}

// Replay executes a replay file twice in this (fresh) process. It returns
// 1 if the recorded violation reproduces exactly, 0 if the case now passes,
// 2 if the two executions disagree or a different thing happens.
func Replay(w World, rf *ReplayFile, verbose bool) (int, string) {
	if strings.HasPrefix(rf.Note, "flaky-replay") {
		for i := 0; i < 8; i++ {
			o, _ := Exec(w, rf.Case.Clone(), false, false)
			if o.Infra == "" && sameViolation(o.Violation, rf.Violation) {
				return 1, fmt.Sprintf("reproduced (attempt %d; %s): %s: %s", i+1, rf.Note, o.Violation.Key(), o.Violation.Detail)
			}
		}
		return 0, "no violation in 8 replays of a case recorded as " + rf.Note
	}
	o1, tr := Exec(w, rf.Case.Clone(), false, verbose)
	if simgo.Poisoned != "" {
		// the first execution left the code under test hanging: that is the reproduction
		if o1.Violation != nil {
			return 1, fmt.Sprintf("reproduced: %s step=%d: %s", o1.Violation.Key(), o1.Violation.Step, o1.Violation.Detail)
		}
		return 2, "the code under test hung but the world reported nothing"
	}
	o2, _ := Exec(w, rf.Case.Clone(), false, false)
	if o1.Infra != "" {
		return 2, "infra: " + o1.Infra
	}
	if o1.LogHash != o2.LogHash {
		return 2, "replay diverged: two executions of the same step list produced different logs"
	}
	msg := ""
	if verbose {
		for _, l := range tr {
			msg += l + "\n"
		}
	}
	if o1.Violation == nil {
		return 0, msg + "no violation on this tree"
	}
	if rf.Violation != nil && !sameViolation(o1.Violation, rf.Violation) {
		return 1, msg + fmt.Sprintf("different violation than recorded: %s (%s); recorded %s", o1.Violation.Key(), o1.Violation.Detail, rf.Violation.Key())
	}
	return 1, msg + fmt.Sprintf("reproduced: %s step=%d: %s", o1.Violation.Key(), o1.Violation.Step, o1.Violation.Detail)
}
