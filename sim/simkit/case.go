package simkit

import (
	"crypto/sha256"
	"encoding/binary"
	"encoding/hex"
	"encoding/json"
	"fmt"
	"hash"
	"sort"
)

// Step is one self-contained simulator decision. Entities are named by stable
// indices (node, account, key, message ordinal) so that deleting another step
// never changes what this one refers to.
type Step struct {
	Op string `json:"op"`
	N  int    `json:"n,omitempty"`
	A  int    `json:"a,omitempty"`
	B  int    `json:"b,omitempty"`
	C  int    `json:"c,omitempty"`
	V  int64  `json:"v,omitempty"`
	S  string `json:"s,omitempty"`
	K  []int  `json:"k,omitempty"`
	X  []Step `json:"x,omitempty"` // nested group (one batch / one block)
	H  string `json:"h,omitempty"` // hex blob
}

// Case is everything that decides an execution: world, property, swarm
// configuration and the step list.
type Case struct {
	World string         `json:"world"`
	Prop  string         `json:"prop"`
	Tier  string         `json:"tier"`
	Seed  uint64         `json:"seed"`
	Cfg   map[string]int `json:"cfg"`
	Steps []Step         `json:"steps"`
}

func (c *Case) Clone() *Case {
	b, _ := json.Marshal(c)
	var d Case
	_ = json.Unmarshal(b, &d)
	if d.Cfg == nil {
		d.Cfg = map[string]int{}
	}
	return &d
}

// Violation is a decided property failure.
type Violation struct {
	Prop   string `json:"prop"`
	Class  string `json:"class"`  // stable class name: used by the shrinker and known-findings
	Sig    string `json:"sig"`    // stable signature (call site / input shape), no addresses
	Detail string `json:"detail"` // free text for humans
	Step   int    `json:"step"`
}

func (v *Violation) Key() string { return v.Prop + "|" + v.Class + "|" + v.Sig }

// Outcome is what one execution returns.
type Outcome struct {
	Violation  *Violation       `json:"violation,omitempty"`
	Stats      map[string]int64 `json:"stats"`
	SimMs      int64            `json:"sim_ms"`
	Digests    []uint64         `json:"-"`
	Nontrivial bool             `json:"nontrivial"`
	LogHash    string           `json:"log_hash"`
	Noops      int              `json:"noops"`
	// Infra is set when the harness itself could not run (never a violation).
	Infra string `json:"infra,omitempty"`
	// KnownSoft counts violations that matched a listed known finding and did not end the run.
	KnownSoft map[string]int `json:"known_soft,omitempty"`
}

// KnownKeys is the set of "prop|class|sig" keys of status=known findings (set by the runner
// before any execution; the same in generate, replay and minimise mode).
var KnownKeys = map[string]string{}

// FailKnownOrStop records a violation. When it is a listed known finding (a genuine defect of
// the code under test that was recorded rather than repaired) the run goes on, so that the
// finding does not hide everything behind it; it returns true in that case. Anything else is an
// ordinary violation (returns false, the run should stop).
func (x *Ctx) FailKnownOrStop(prop, class, sig, detail string, step int) bool {
	key := prop + "|" + class + "|" + sig
	if _, ok := KnownKeys[key]; ok {
		if x.Out.KnownSoft == nil {
			x.Out.KnownSoft = map[string]int{}
		}
		x.Out.KnownSoft[key]++
		x.Logf("KNOWN %s", key)
		return true
	}
	x.Fail(prop, class, sig, detail, step)
	return false
}

// Ctx is handed to a world for one execution. In generate mode Rng is non-nil
// and every drawn step is appended to Case.Steps; in replay mode the steps are
// read from Case.Steps and Rng is nil.
type Ctx struct {
	Case    *Case
	Rng     *Rng
	pos     int
	Out     *Outcome
	log     sha256hasher
	Trace   []string // kept only when Verbose
	Verbose bool
	digset  map[uint64]struct{}
}

type sha256hasher struct{ h hash.Hash }

func NewCtx(c *Case, rng *Rng) *Ctx {
	if c.Cfg == nil {
		c.Cfg = map[string]int{}
	}
	x := &Ctx{Case: c, Rng: rng, Out: &Outcome{Stats: map[string]int64{}}, digset: map[uint64]struct{}{}}
	x.log.h = sha256.New()
	return x
}

func (x *Ctx) Generating() bool { return x.Rng != nil }

// CfgInt returns the swarm knob `name`; in generate mode it is drawn by f and
// recorded, in replay mode the recorded value is used (f is not called).
func (x *Ctx) CfgInt(name string, f func(r *Rng) int) int {
	if v, ok := x.Case.Cfg[name]; ok {
		return v
	}
	v := 0
	if x.Rng != nil {
		v = f(x.Rng)
	} else {
		// replay of a file that lacks the knob: use the generator's value for a fixed stream
		v = f(NewRng(Mix(x.Case.Seed, hashStr(name))))
	}
	x.Case.Cfg[name] = v
	return v
}

func hashStr(s string) uint64 {
	h := sha256.Sum256([]byte(s))
	return binary.LittleEndian.Uint64(h[:8])
}

// Next returns the next step. In generate mode gen is called to draw it (gen may
// return nil to end the run). In replay mode the recorded list is consumed.
func (x *Ctx) Next(gen func(r *Rng) *Step) (*Step, int) {
	if x.Rng != nil {
		s := gen(x.Rng)
		if s == nil {
			return nil, -1
		}
		x.Case.Steps = append(x.Case.Steps, *s)
		x.pos = len(x.Case.Steps)
		x.Logf("step %d %s", x.pos-1, stepJSON(s))
		return &x.Case.Steps[x.pos-1], x.pos - 1
	}
	if x.pos >= len(x.Case.Steps) {
		return nil, -1
	}
	s := &x.Case.Steps[x.pos]
	x.pos++
	x.Logf("step %d %s", x.pos-1, stepJSON(s))
	return s, x.pos - 1
}

func stepJSON(s *Step) string { b, _ := json.Marshal(s); return string(b) }

// Logf feeds the determinism log (hashed; kept as text only in verbose mode).
func (x *Ctx) Logf(f string, a ...interface{}) {
	s := fmt.Sprintf(f, a...)
	x.log.h.Write([]byte(s))
	x.log.h.Write([]byte{'\n'})
	if x.Verbose {
		x.Trace = append(x.Trace, s)
	}
}

func (x *Ctx) Count(name string, n int64) { x.Out.Stats[name] += n }
func (x *Ctx) Probe(name string)          { x.Out.Stats["probe."+name]++ }
func (x *Ctx) Fault(name string)          { x.Out.Stats["fault."+name]++; x.Out.Nontrivial = true }
func (x *Ctx) Noop()                      { x.Out.Noops++ }

// Digest records an abstract state digest (distinct-state measure).
func (x *Ctx) Digest(parts ...interface{}) {
	h := sha256.New()
	for _, p := range parts {
		fmt.Fprintf(h, "%v|", p)
	}
	d := binary.LittleEndian.Uint64(h.Sum(nil)[:8])
	if _, ok := x.digset[d]; !ok {
		x.digset[d] = struct{}{}
	}
}

// Fail records the first violation of the run.
func (x *Ctx) Fail(prop, class, sig, detail string, step int) {
	if x.Out.Violation != nil {
		return
	}
	x.Out.Violation = &Violation{Prop: prop, Class: class, Sig: sig, Detail: detail, Step: step}
	x.Logf("VIOLATION %s %s %s", prop, class, sig)
}

func (x *Ctx) Failed() bool { return x.Out.Violation != nil }

func (x *Ctx) Finish() *Outcome {
	x.Out.LogHash = hex.EncodeToString(x.log.h.Sum(nil))
	ds := make([]uint64, 0, len(x.digset))
	for d := range x.digset {
		ds = append(ds, d)
	}
	sort.Slice(ds, func(i, j int) bool { return ds[i] < ds[j] })
	x.Out.Digests = ds
	return x.Out
}

// World is one simulated world; Run must be a pure function of (code, case) in
// replay mode and of (code, case.Seed, cfg) in generate mode.
type World interface {
	Name() string
	Props() []string
	Run(x *Ctx)
}
