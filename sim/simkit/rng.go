// Package simkit is the world-independent part of the deterministic simulator:
// the single PRNG, the step/case/outcome records, the generate-or-replay cursor,
// the ddmin shrinker and the batch runner.
package simkit

import (
	"crypto/sha256"
	"encoding/binary"
)

// Rng is the only source of choice inside a run (splitmix64 seeded, xoshiro-free,
// tiny and stable across Go versions). It is never consulted from logging paths.
type Rng struct{ s uint64 }

func Mix(a, b uint64) uint64 {
	z := a + 0x9e3779b97f4a7c15*(b+1)
	z = (z ^ (z >> 30)) * 0xbf58476d1ce4e5b9
	z = (z ^ (z >> 27)) * 0x94d049bb133111eb
	return z ^ (z >> 31)
}

func NewRng(seed uint64) *Rng { return &Rng{s: Mix(seed, 0x5eed)} }

func (r *Rng) U64() uint64 {
	r.s += 0x9e3779b97f4a7c15
	z := r.s
	z = (z ^ (z >> 30)) * 0xbf58476d1ce4e5b9
	z = (z ^ (z >> 27)) * 0x94d049bb133111eb
	return z ^ (z >> 31)
}

// Intn returns a value in [0,n). n<=0 yields 0.
func (r *Rng) Intn(n int) int {
	if n <= 1 {
		return 0
	}
	return int(r.U64() % uint64(n))
}

// Range returns a value in [lo,hi].
func (r *Rng) Range(lo, hi int) int {
	if hi <= lo {
		return lo
	}
	return lo + r.Intn(hi-lo+1)
}

func (r *Rng) Bool() bool { return r.U64()&1 == 1 }

// Chance is true with probability num/den.
func (r *Rng) Chance(num, den int) bool { return r.Intn(den) < num }

func (r *Rng) Float() float64 { return float64(r.U64()>>11) / float64(1<<53) }

// Perm returns a seeded permutation of 0..n-1.
func (r *Rng) Perm(n int) []int {
	p := make([]int, n)
	for i := range p {
		p[i] = i
	}
	for i := n - 1; i > 0; i-- {
		j := r.Intn(i + 1)
		p[i], p[j] = p[j], p[i]
	}
	return p
}

// Pick chooses an index according to integer weights (all >=0, sum>0).
func (r *Rng) Pick(weights ...int) int {
	sum := 0
	for _, w := range weights {
		sum += w
	}
	if sum <= 0 {
		return 0
	}
	x := r.Intn(sum)
	for i, w := range weights {
		if x < w {
			return i
		}
		x -= w
	}
	return len(weights) - 1
}

func (r *Rng) Bytes(n int) []byte {
	b := make([]byte, n)
	for i := 0; i < n; i += 8 {
		var t [8]byte
		binary.LittleEndian.PutUint64(t[:], r.U64())
		copy(b[i:], t[:])
	}
	return b
}

// Fork derives an independent stream (used so that adding a draw in one
// sub-generator does not shift every other choice of the run).
func (r *Rng) Fork(tag uint64) *Rng { return NewRng(Mix(r.U64(), tag)) }

// Key32 derives 32 deterministic bytes from a label and index (keys, ids).
func Key32(label string, i int) []byte {
	var b [8]byte
	binary.LittleEndian.PutUint64(b[:], uint64(i))
	h := sha256.Sum256(append([]byte(label), b[:]...))
	return h[:]
}
