package simkit

import "testing"

// Ctor builds a world; scratch is a private scratch directory, t the running test
// (needed by worlds that use testing/synctest).
type Ctor func(scratch string, t *testing.T) World

var ctors = map[string]Ctor{}

// Register is called from the init() of each world package.
func Register(name string, c Ctor) { ctors[name] = c }

func Lookup(name string) Ctor { return ctors[name] }
