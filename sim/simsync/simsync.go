// Package simsync owns the goroutine choice of code that the overlay rewrote from
// sync.RWMutex to simsync.RWMutex (the MemPool's pool lock).
//
// Without an installed scheduler an RWMutex is a plain sync.RWMutex. With one, the
// tasks of the simulator are real goroutines of which exactly one runs at a time:
// every Lock/RLock is a yield point where the caller parks and hands control back to
// the controller (the world's own goroutine), which later decides - by a recorded
// step that names a task index - which parked task proceeds. All hand-offs go through
// unbuffered channels, so the Go memory model sees one total order and a schedule
// replays exactly.
package simsync

import (
	"fmt"
	"runtime/debug"
	"sync"
)

// cur is the installed scheduler. It is written only by Install/Uninstall (called by the
// controller while no task runs) and read by whichever single goroutine is running.
var cur *Sched

// RWMutex has the method set of sync.RWMutex that the rewritten code uses.
type RWMutex struct {
	mu sync.RWMutex
	// simulated holder bookkeeping (only touched while a scheduler is installed)
	writer  bool
	readers int
	holderW int   // task index of the writer (-1 = controller)
	holderR []int // task indices of the readers (-1 = controller)
}

func (m *RWMutex) Lock() {
	if s := cur; s != nil {
		s.acquire(m, true)
		return
	}
	m.mu.Lock()
}

func (m *RWMutex) RLock() {
	if s := cur; s != nil {
		s.acquire(m, false)
		return
	}
	m.mu.RLock()
}

func (m *RWMutex) Unlock() {
	if s := cur; s != nil {
		if !m.writer {
			panic("simsync: Unlock of an RWMutex that is not write-locked")
		}
		m.writer = false
		s.Releases++
		return
	}
	m.mu.Unlock()
}

func (m *RWMutex) RUnlock() {
	if s := cur; s != nil {
		if m.readers <= 0 {
			panic("simsync: RUnlock of an RWMutex that is not read-locked")
		}
		me := -1
		if s.running != nil {
			me = s.running.Idx
		}
		for i, h := range m.holderR {
			if h == me {
				m.holderR = append(m.holderR[:i], m.holderR[i+1:]...)
				break
			}
		}
		m.readers--
		s.Releases++
		return
	}
	m.mu.RUnlock()
}

// Free reports whether nobody holds the (simulated) lock.
func (m *RWMutex) Free() bool { return !m.writer && m.readers == 0 }

func (m *RWMutex) available(write bool) bool {
	if write {
		return !m.writer && m.readers == 0
	}
	return !m.writer
}

func (m *RWMutex) take(write bool, who int) {
	if write {
		m.writer = true
		m.holderW = who
	} else {
		m.readers++
		m.holderR = append(m.holderR, who)
	}
}

// Task states.
const (
	Idle    = iota // no function assigned
	Running        // its goroutine is the one that runs
	Parked         // waiting at a Lock/RLock for the controller's decision
)

// Task is one simulated thread of control.
type Task struct {
	Idx    int
	State  int
	Want   *RWMutex // lock it is parked at
	Write  bool     // requested mode
	Panic  interface{}
	Stack  string
	resume chan struct{}
	fn     func()
	s      *Sched
}

type backMsg struct {
	t    *Task
	done bool
}

// Sched is the controller's handle.
type Sched struct {
	Tasks   []*Task
	running *Task
	back    chan backMsg
	wg      sync.WaitGroup
	// counters (coverage only)
	Parks    int64
	Releases int64
	Blocked  int64 // yield requests naming a task whose lock was held by another
}

// Install creates a scheduler with n tasks and makes it current.
func Install(n int) *Sched {
	if cur != nil {
		panic("simsync: scheduler already installed")
	}
	s := &Sched{back: make(chan backMsg)}
	for i := 0; i < n; i++ {
		t := &Task{Idx: i, resume: make(chan struct{}), s: s}
		s.Tasks = append(s.Tasks, t)
		s.wg.Add(1)
		go t.loop()
	}
	cur = s
	return s
}

// Uninstall ends the goroutines of all idle tasks and removes the scheduler. Tasks that are
// still parked (only possible after a deadlock of the code under test) are abandoned.
func (s *Sched) Uninstall() (abandoned int) {
	for _, t := range s.Tasks {
		if t.State == Idle {
			close(t.resume)
		} else {
			abandoned++
			s.wg.Done()
		}
	}
	s.wg.Wait()
	if cur == s {
		cur = nil
	}
	return
}

func (t *Task) loop() {
	defer t.s.wg.Done()
	for range t.resume {
		t.run()
		t.s.back <- backMsg{t: t, done: true}
	}
}

func (t *Task) run() {
	defer func() {
		if r := recover(); r != nil {
			t.Panic = r
			t.Stack = string(debug.Stack())
		}
	}()
	t.fn()
}

func (s *Sched) acquire(m *RWMutex, write bool) {
	t := s.running
	if t == nil {
		// the controller itself (observation between segments): must never block
		if !m.available(write) {
			panic("simsync: the controller would block on a lock held by a parked task")
		}
		m.take(write, -1)
		return
	}
	t.Want, t.Write, t.State = m, write, Parked
	s.Parks++
	s.back <- backMsg{t: t}
	<-t.resume
	// the controller released us only because the lock is available
	if !m.available(write) {
		panic(fmt.Sprintf("simsync: task %d resumed on an unavailable lock", t.Idx))
	}
	t.Want, t.State = nil, Running
	m.take(write, t.Idx)
}

// Enabled reports whether a yield to task i would make progress: it is parked and the
// lock it wants is available in the requested mode.
func (s *Sched) Enabled(i int) bool {
	if i < 0 || i >= len(s.Tasks) {
		return false
	}
	t := s.Tasks[i]
	return t.State == Parked && t.Want.available(t.Write)
}

// Start assigns fn to idle task i and runs it up to its first yield point or its end.
// It returns true when fn finished.
func (s *Sched) Start(i int, fn func()) (done bool) {
	t := s.Tasks[i]
	if t.State != Idle {
		panic("simsync: Start on a busy task")
	}
	t.fn, t.Panic, t.Stack = fn, nil, ""
	return s.handOver(t)
}

// Resume lets parked task i take the lock it waits for and run up to its next yield
// point or its end. The caller must have checked Enabled(i).
func (s *Sched) Resume(i int) (done bool) {
	t := s.Tasks[i]
	if t.State != Parked {
		panic("simsync: Resume on a task that is not parked")
	}
	if !t.Want.available(t.Write) {
		s.Blocked++
		panic("simsync: Resume on a task that is not enabled")
	}
	return s.handOver(t)
}

func (s *Sched) handOver(t *Task) bool {
	t.State = Running
	s.running = t
	t.resume <- struct{}{}
	m := <-s.back
	s.running = nil
	if m.t != t {
		panic("simsync: a task other than the scheduled one reported back")
	}
	if m.done {
		t.State = Idle
		t.fn = nil
		return true
	}
	return false
}

// Busy is the number of tasks that are not idle.
func (s *Sched) Busy() int {
	n := 0
	for _, t := range s.Tasks {
		if t.State != Idle {
			n++
		}
	}
	return n
}
