// Package simgo owns the goroutine choice of code that the overlay rewrote from
// `go f(); go g()` to simgo.Pair(f, g).
package simgo

import "sort"

// Order, when set by the simulator, decides which of the two sibling tasks runs
// first; both then run sequentially on the caller's goroutine. When nil (default)
// the original behaviour is kept: two goroutines.
var Order func() bool

// Pairs counts how often a pair was scheduled by the simulator.
var Pairs int64

func Pair(f, g func()) {
	if Order == nil {
		go f()
		go g()
		return
	}
	Pairs++
	if Order() {
		g()
		f()
	} else {
		f()
		g()
	}
}

// Map iteration: code the overlay rewrote from `for k, v := range m` (string keys) asks Keys for
// the key order. Go randomises map iteration per process and per loop; under simulation the order
// is the sorted key list permuted by a stream derived from the case seed (ResetMaps, called by the
// runner before every execution), so that one seed is one exactly repeatable execution and
// different seeds still exercise different orders.
var mapSeed, mapCalls uint64

// MapPerms counts how many map walks the simulator ordered.
var MapPerms int64

func ResetMaps(seed uint64) { mapSeed, mapCalls = seed, 0 }

func Keys[V any](m map[string]V) []string {
	keys := make([]string, 0, len(m))
	for k := range m {
		keys = append(keys, k)
	}
	sort.Strings(keys)
	mapCalls++
	MapPerms++
	z := mapSeed + mapCalls*0x9e3779b97f4a7c15
	next := func() uint64 {
		z += 0x9e3779b97f4a7c15
		x := z
		x = (x ^ (x >> 30)) * 0xbf58476d1ce4e5b9
		x = (x ^ (x >> 27)) * 0x94d049bb133111eb
		return x ^ (x >> 31)
	}
	for i := len(keys) - 1; i > 0; i-- {
		j := int(next() % uint64(i+1))
		keys[i], keys[j] = keys[j], keys[i]
	}
	return keys
}

// Poisoned is set (to a reason) when code under test was left hanging inside this process: its
// goroutine may hold process-wide locks of the code under test, so no further execution in this
// process means anything. The runner reports the violation without in-process replay and stops.
var Poisoned string
