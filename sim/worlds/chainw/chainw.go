// Package chainw holds the CHAIN world: one node under test (NUT) on a simulated disk,
// a block-tree source made of real producer nodes ("builders") that each follow their
// own branch, a forger that derives invalid / altered variants of genuine blocks, a
// transport that delivers the tree's blocks in any order, crash/restart of the NUT,
// a model of the specified fork-choice behaviour and a reference node that only ever
// sees the winning branch.
package chainw

import (
	"bytes"
	"context"
	"crypto/sha256"
	"fmt"
	"math/big"
	"os"
	"sort"
	"strings"
	"testing"
	"time"

	"github.com/aergoio/aergo/v2/config"
	"github.com/aergoio/aergo/v2/contract/system"
	"github.com/aergoio/aergo/v2/internal/enc/base58"
	"github.com/aergoio/aergo/v2/internal/enc/proto"
	"github.com/aergoio/aergo/v2/state/statedb"
	"github.com/aergoio/aergo/v2/types"
	"github.com/aergoio/aergo/v2/zz_verif/simclock"
	"github.com/aergoio/aergo/v2/zz_verif/simdisk"
	"github.com/aergoio/aergo/v2/zz_verif/simkit"
	"github.com/aergoio/aergo/v2/zz_verif/simnode"
)

type World struct{ Scratch string }

func (w *World) Name() string { return "chain" }
func (w *World) Props() []string {
	return []string{"C05", "C06", "C07", "C18", "C19", "C03", "C04", "C17", "C15"}
}

// forge kinds
const (
	fNone        = iota
	fStateRoot   // header state root altered, re-signed: only execution can tell
	fReceiptRoot // header receipts root altered, re-signed
	fTxRoot      // header tx root altered, re-signed
	fBody        // body altered under the genuine header, id and signature
	fID          // announced id altered over the genuine header and body
	fSig         // signature destroyed
	fBadTx       // a transaction with a forged signature inserted, roots recomputed, re-signed
	fHeight      // header block number raised, re-signed (not parent+1)
	fTurn        // timestamp altered and re-signed; the (simulated) consensus check refuses the block: not this producer's slot
	fMax
)

var forgeName = []string{"honest", "bad-state-root", "bad-receipts-root", "bad-tx-root", "altered-body-genuine-id", "altered-id-genuine-body", "bad-signature", "forged-tx-inside", "bad-height", "out-of-turn"}

type blkInfo struct {
	b       *types.Block
	trueID  string // sha256 of the header as transmitted
	annID   string // announced identifier (Hash field)
	parent  int    // label of the parent block, -1 = genesis, -2 = unknown
	height  uint64
	kind    int
	origin  int  // genuine block this one was derived from (forged only)
	sigOK   bool // block signature verifies over the header
	idOK    bool // announced id == digest of header, and body matches the header's tx root
	execOK  bool // executes to the header's roots on top of a valid parent state
	builder int
}

type env struct {
	x        *simkit.Ctx
	viaSync  bool // the delivery in progress arrives without a peer id (sync path)
	prop     string
	net      *simnode.Net
	nut      *simnode.Node
	builders []*simnode.Node
	btip     []int // tip label per builder
	blocks   []*blkInfo
	byAnn    map[string]int // announced id -> first label
	slot     int
	step     int
	// model of the specified behaviour
	stored  map[string]bool // true ids the node has accepted (main or side)
	orph    map[string]int  // parent id -> label of the retained orphan
	best    int             // label, -1 = genesis
	genesis string
	txOn    map[string][]int // tx hash -> labels of honest blocks containing it
	dead    bool
	// C06
	delivered       map[int]bool
	crashDeliveries int
	tornMode        int // 0 none, 1 one torn prefix per bulk unit, 2 every torn prefix (capped)
	secondCrash     int // 1: also crash once inside the recovery of each trial
	children        map[int]*types.Block
	reseedBulk      func(tag int)
}

func hdrDigest(b *types.Block) []byte {
	c := simnode.CloneBlock(b)
	c.Hash = nil
	return c.BlockHash()
}

func (e *env) label(b *types.Block, parent int, kind, origin, builder int) int {
	bi := &blkInfo{b: b, trueID: string(hdrDigest(b)), annID: string(b.GetHash()), parent: parent, height: b.BlockNo(), kind: kind, origin: origin, builder: builder}
	ok, err := simnode.CloneBlock(b).VerifySign()
	bi.sigOK = ok && err == nil
	// A re-signed header with a wrong tx root owns its (new) identifier: whether the node drops it
	// at the door or keeps it as a never-winning side block is its choice (execOK=false decides).
	// An altered body under a *genuine* header does not hash to the identifier it is announced under.
	bodyOK := bytes.Equal(types.CalculateTxsRootHash(b.GetBody().GetTxs()), b.GetHeader().GetTxsRootHash())
	bi.idOK = bodyOK || kind == fTxRoot
	// annID != trueID (a false identifier over genuine content) is judged in doDeliver: the node may
	// either discard the block or treat it as the block its header digest names, but must never
	// store or reference it under the announced identifier (raw scan in checkInvariants).
	bi.execOK = kind == fNone
	e.blocks = append(e.blocks, bi)
	l := len(e.blocks) - 1
	if _, dup := e.byAnn[bi.annID]; !dup {
		e.byAnn[bi.annID] = l
	}
	return l
}

func (e *env) path(l int) []int {
	var p []int
	for l >= 0 {
		p = append([]int{l}, p...)
		l = e.blocks[l].parent
	}
	return p
}

func (e *env) idOf(l int) string {
	if l < 0 {
		return e.genesis
	}
	return e.blocks[l].trueID
}

func (e *env) heightOf(l int) uint64 {
	if l < 0 {
		return 0
	}
	return e.blocks[l].height
}

// validPath reports whether every block from genesis to l is well-formed and executes.
func (e *env) validPath(l int) bool {
	for l >= 0 {
		b := e.blocks[l]
		if !b.execOK || !b.idOK || !b.sigOK {
			return false
		}
		l = b.parent
	}
	return l == -1
}

// modelDeliver applies the specified behaviour of one block arrival to the model and
// reports the labels that became connected.
func (e *env) modelDeliver(l int) {
	b := e.blocks[l]
	if !b.idOK || !b.sigOK {
		return // content does not match its identifier / signature: discarded, no effect
	}
	if e.stored[b.trueID] {
		return
	}
	pid := e.idOf(b.parent)
	if b.parent == -2 || !e.stored[pid] {
		if _, taken := e.orph[string(b.b.GetHeader().GetPrevBlockHash())]; !taken {
			e.orph[string(b.b.GetHeader().GetPrevBlockHash())] = l
		}
		return
	}
	mainMode := b.parent == e.best
	cur := l
	var side []int
	for cur >= 0 {
		c := e.blocks[cur]
		if mainMode {
			if !c.execOK {
				return // rejected at execution; everything connected before stays
			}
			e.stored[c.trueID] = true
			e.best = cur
		} else {
			e.stored[c.trueID] = true
			side = append(side, cur)
		}
		nxt, ok := e.orph[c.trueID]
		if !ok {
			break
		}
		delete(e.orph, c.trueID)
		cur = nxt
	}
	// The branch that became available is adopted up to its highest block that is fully valid and
	// strictly higher than the best block: an invalid block further up (typically a waiting block
	// that was attached behind the received one) does not take the valid part of the branch with it.
	for i := len(side) - 1; i >= 0; i-- {
		if e.heightOf(side[i]) > e.heightOf(e.best) && e.validPath(side[i]) {
			e.best = side[i]
			break
		}
	}
}

func (w *World) Run(x *simkit.Ctx) {
	prop := x.Case.Prop
	e := &env{x: x, prop: prop, byAnn: map[string]int{}, stored: map[string]bool{}, orph: map[string]int{}, best: -1, txOn: map[string][]int{}, delivered: map[int]bool{}}
	nacc := x.CfgInt("accounts", func(r *simkit.Rng) int { return r.Range(2, 5) })
	nsteps := x.CfgInt("steps", func(r *simkit.Rng) int {
		if x.Case.Tier == "thorough" {
			return r.Range(15, 90)
		}
		return r.Range(10, 45)
	})
	forge := x.CfgInt("forge", func(r *simkit.Rng) int { return r.Pick(2, 3) })
	hfmode := x.CfgInt("hfmode", func(r *simkit.Rng) int { return r.Intn(3) })
	chunk := x.CfgInt("bulkchunk", func(r *simkit.Rng) int { return []int{0, 0, 1, 2, 4}[r.Intn(5)] })
	if prop == "C05" || prop == "C07" {
		forge = x.CfgInt("forge2", func(r *simkit.Rng) int { return r.Pick(1, 1) })
	}
	var hf config.HardforkConfig
	switch hfmode {
	case 0:
		hf = config.HardforkConfig{}
	case 1:
		hf = config.HardforkConfig{V2: 2, V3: 3, V4: 4, V5: 6}
	default:
		hf = config.HardforkConfig{V2: 1000, V3: 1001, V4: 1002, V5: 1003}
	}
	scratch := fmt.Sprintf("%s/chain-%d", w.Scratch, os.Getpid())
	_ = os.RemoveAll(scratch)
	net := simnode.NewNet(simnode.NetOpts{Scratch: scratch, NBP: 3, NAcc: nacc, Public: true, Hardfork: hf, Balance: "1000000000000000000000000"})
	defer func() { net.Close(); _ = os.RemoveAll(scratch) }()
	e.net = net
	e.nut = net.AddNode(-1, nil, "permissive")
	e.nut.Disk.BulkChunk = chunk
	// Only state-store bulks (trie nodes + account states of a block, in Go map order, unbounded
	// size) are split into several durable units and torn. The chain store's bulks hold a handful
	// of entries in program order; the real backend (badger WriteBatch) commits such a batch as one
	// transaction, so splitting them would inject a fault real disks cannot produce.
	e.nut.Disk.ChunkStore = "state"
	e.nut.DeferHandBack = true
	e.genesis = string(e.nut.Best().BlockHash())
	e.stored[e.genesis] = true
	e.addBuilder(-1)

	maxCrashDeliv := x.CfgInt("crashdeliveries", func(r *simkit.Rng) int {
		if x.Case.Tier == "thorough" {
			return r.Range(2, 6)
		}
		return r.Range(1, 3)
	})
	crashPct := x.CfgInt("crashpct", func(r *simkit.Rng) int { return []int{15, 30, 60}[r.Intn(3)] })
	e.tornMode = x.CfgInt("torn", func(r *simkit.Rng) int { return r.Intn(3) })
	e.secondCrash = x.CfgInt("crash2", func(r *simkit.Rng) int { return r.Pick(2, 1) })
	permSeed := x.CfgInt("bulkperm", func(r *simkit.Rng) int { return int(r.U64() >> 34) })
	// the permutation stream restarts at every step and every crash trial, so that what one step
	// does never depends on how many bulks earlier steps (which the shrinker may delete) flushed
	e.reseedBulk = func(tag int) {
		bulkRng := simkit.NewRng(simkit.Mix(uint64(permSeed), uint64(tag)))
		e.nut.Disk.PermBulkStore = simdisk.CanonStateBulk(func(n int) []int { return bulkRng.Perm(n) })
	}
	e.reseedBulk(0)
	// In a quarter of the runs the generator opens with a directed history: a side branch of valid
	// blocks whose top block is invalid, delivered children first (so that the invalid block is
	// attached as a waiting block behind the valid ones): the valid part is longer than the main
	// chain and must be adopted.
	var script []*simkit.Step
	tailOpening := x.CfgInt("tailopening", func(r *simkit.Rng) int { return r.Pick(6, 2, 1) })
	if tailOpening == 2 {
		// the same on the main chain: two blocks are built on the empty chain, an invalid copy of the
		// second one arrives first (it waits for its parent), then the parent (which extends the best
		// block and pulls the waiting block in), then the genuine second block
		kind := x.CfgInt("tailkind", func(r *simkit.Rng) int { return []int{fStateRoot, fReceiptRoot, fBadTx, fHeight}[r.Intn(4)] })
		script = []*simkit.Step{
			{Op: "build"}, {Op: "build"},
			{Op: "forge", A: 1, B: 0, C: kind},
			{Op: "deliver", A: 2}, {Op: "deliver", A: 0}, {Op: "deliver", A: 1},
		}
	}
	if tailOpening == 1 {
		kind := x.CfgInt("tailkind", func(r *simkit.Rng) int { return []int{fStateRoot, fReceiptRoot, fBadTx, fHeight}[r.Intn(4)] })
		script = []*simkit.Step{
			{Op: "build"}, {Op: "deliver", A: 0}, {Op: "branch", A: -1},
			{Op: "build", A: 1}, {Op: "build", A: 1}, {Op: "build", A: 1},
			{Op: "forge", A: 3, B: 0, C: kind},
			{Op: "deliver", A: 4}, {Op: "deliver", A: 2}, {Op: "deliver", A: 1},
		}
	}
	// C15 runs open, half of the time, with the history the in-memory governance mirrors are most
	// exposed to: a stake is on the chain; the next block carries a producer vote; a copy of that
	// block with a wrong state root arrives first (executed, votes applied in memory, then refused),
	// then the genuine block.
	if (prop == "C15" || prop == "C03") && len(script) == 0 && x.CfgInt("govopening", func(r *simkit.Rng) int { return r.Pick(1, 1) }) == 1 {
		kind := x.CfgInt("govkind", func(r *simkit.Rng) int { return []int{fStateRoot, fReceiptRoot}[r.Intn(2)] })
		script = []*simkit.Step{
			{Op: "tx", K: []int{1, 0, 1, 3}, V: 1}, {Op: "build"}, {Op: "deliver", A: 0},
			{Op: "tx", K: []int{1, 0, 1, 4}, V: 1}, {Op: "build"},
			{Op: "forge", A: 1, B: 0, C: kind},
			{Op: "deliver", A: 2}, {Op: "deliver", A: 1},
		}
	}
	// C05/C07/C04 runs open, a quarter of the time, with a block that carries transactions and is refused
	// by the consensus check, directly followed by a block with a forged transaction: whatever the
	// refused block started (its signatures are verified asynchronously) must not vouch for the next one.
	if (prop == "C05" || prop == "C07" || prop == "C04") && len(script) == 0 && x.CfgInt("vetoopening", func(r *simkit.Rng) int { return r.Pick(3, 1) }) == 1 {
		script = []*simkit.Step{
			{Op: "tx", K: []int{1, 0, 1, 0}, V: 5}, {Op: "tx", K: []int{1, 1, 0, 0}, V: 7}, {Op: "build"},
			{Op: "forge", A: 0, B: 0, C: fTurn}, {Op: "forge", A: 0, B: 0, C: fBadTx},
			{Op: "deliver", A: 1}, {Op: "deliver", A: 2}, {Op: "deliver", A: 0},
		}
	}
	gen := func(r *simkit.Rng) *simkit.Step {
		if len(x.Case.Steps) >= nsteps+len(script) || e.dead {
			return nil
		}
		if k := len(x.Case.Steps); k < len(script) {
			return script[k]
		}
		nb := len(e.builders)
		nblk := len(e.blocks)
		switch r.Pick(16, 22, 5, 30, 8*forge, 2, 3) {
		case 0: // tx to a subset of builders
			kind := r.Pick(8, 1, 1)
			if prop == "C15" || prop == "C03" {
				kind = r.Pick(4, 1, 0, 4, 4)
			}
			return &simkit.Step{Op: "tx", K: []int{1 + r.Intn(1<<uint(nb)-1), r.Intn(nacc), r.Intn(nacc), kind}, V: int64(1 + r.Intn(900))}
		case 1:
			return &simkit.Step{Op: "build", A: r.Intn(nb)}
		case 2:
			if nb >= 4 || nblk == 0 {
				return &simkit.Step{Op: "build", A: r.Intn(nb)}
			}
			return &simkit.Step{Op: "branch", A: r.Intn(nblk+1) - 1}
		case 3:
			if nblk == 0 {
				return &simkit.Step{Op: "build", A: r.Intn(nb)}
			}
			// bias towards blocks not yet delivered (lowest such label half of the time: progress)
			a := r.Intn(nblk)
			if r.Chance(6, 10) {
				var und []int
				for i := range e.blocks {
					if !e.delivered[i] {
						und = append(und, i)
					}
				}
				if len(und) > 0 {
					a = und[r.Intn(len(und))]
					if r.Bool() {
						a = und[0]
					}
				}
			}
			if (prop == "C06" || (prop == "C18" && r.Chance(1, 3))) && e.crashDeliveries < maxCrashDeliv && r.Chance(crashPct, 100) {
				return &simkit.Step{Op: "cdeliver", A: a, B: -1}
			}
			return &simkit.Step{Op: "deliver", A: a, B: r.Intn(3)}
		case 4:
			if nblk == 0 {
				return &simkit.Step{Op: "build", A: r.Intn(nb)}
			}
			return &simkit.Step{Op: "forge", A: r.Intn(nblk), B: r.Intn(3), C: 1 + r.Intn(fMax-1)}
		case 5:
			return &simkit.Step{Op: "restart"}
		}
		return &simkit.Step{Op: "flush"}
	}

	for {
		st, idx := x.Next(gen)
		if st == nil || x.Failed() || e.dead {
			break
		}
		e.step = idx
		e.reseedBulk(0)
		switch st.Op {
		case "tx":
			e.doTx(st)
		case "build":
			e.doBuild(st.A)
		case "branch":
			e.doBranch(st.A)
		case "deliver":
			// B = 2: the block comes from the syncer's block processor (no peer id is attached on
			// that path); otherwise from a peer's new-block notice / block response
			e.viaSync = st.B == 2
			e.doDeliver(st.A)
			e.viaSync = false
		case "cdeliver":
			e.doCrashDeliver(st)
		case "forge":
			e.doForge(st.A, st.B, st.C)
		case "restart":
			e.doRestart()
		case "flush":
			e.flushHandBack()
		default:
			x.Noop()
		}
	}
	if !x.Failed() && !e.dead {
		e.finalChecks()
	}
	x.Out.SimMs = int64(e.slot) * 1000
}

func (e *env) addBuilder(parent int) {
	b := e.net.AddNode(len(e.builders)%2, nil, "permissive")
	for _, l := range e.path(parent) {
		if err := b.AddBlock(e.blocks[l].b, "src"); err != nil {
			panic(fmt.Sprintf("builder cannot follow its own source chain: %v", err))
		}
	}
	e.builders = append(e.builders, b)
	e.btip = append(e.btip, parent)
}

func (e *env) doBranch(parent int) {
	if parent >= len(e.blocks) || (parent >= 0 && !e.validPath(parent)) || len(e.builders) >= 4 {
		e.x.Noop()
		return
	}
	e.x.Out.Nontrivial = true
	e.x.Count("branches", 1)
	e.addBuilder(parent)
}

func (e *env) doTx(st *simkit.Step) {
	if len(st.K) < 4 {
		e.x.Noop()
		return
	}
	mask, from, to, nd := st.K[0], st.K[1]%len(e.net.Accounts), st.K[2]%len(e.net.Accounts), st.K[3]
	var tx *types.Tx
	for i, b := range e.builders {
		if mask&(1<<uint(i)) == 0 {
			continue
		}
		if tx == nil {
			// nonce from the first addressed builder's view (state + pooled)
			var n uint64
			b.Do(func() {
				as, _ := b.CS.SDB().GetStateDB().GetAccountState(types.ToAccountID(e.net.Accounts[from].Addr))
				n = as.GetNonce()
				for _, t := range b.MP.VerifUnconfirmed() {
					if bytes.Equal(t.GetBody().GetAccount(), e.net.Accounts[from].Addr) && t.GetBody().GetNonce() > n {
						n = t.GetBody().GetNonce()
					}
				}
			})
			nonce := n + 1
			if nd == 1 {
				nonce++
			}
			amt := new(big.Int).Mul(big.NewInt(st.V), big.NewInt(1e15))
			switch nd {
			case 3: // stake (governance: moves the voting-power rank kept in memory)
				tx = simnode.SignedTx(e.net.Accounts[from], nonce, []byte(types.AergoSystem), new(big.Int).Set(types.StakingMinimum), types.TxType_GOVERNANCE, []byte(`{"Name":"v1stake"}`), b.ChainIDHash(), 0)
			case 4: // vote for the first producer
				tx = simnode.SignedTx(e.net.Accounts[from], nonce, []byte(types.AergoSystem), new(big.Int), types.TxType_GOVERNANCE,
					[]byte(`{"Name":"v1voteBP","Args":["`+base58.Encode([]byte(e.net.BPIDs[int(st.V)%len(e.net.BPIDs)]))+`"]}`), b.ChainIDHash(), 0)
			default:
				tx = simnode.SignedTx(e.net.Accounts[from], nonce, e.net.Accounts[to].Addr, amt, types.TxType_TRANSFER, nil, b.ChainIDHash(), 0)
			}
		}
		_ = b.Submit(tx)
	}
	if tx == nil {
		e.x.Noop()
	}
}

func (e *env) doBuild(bi int) {
	if bi >= len(e.builders) {
		e.x.Noop()
		return
	}
	b := e.builders[bi]
	e.slot++
	ts := e.net.Start.Add(time.Duration(e.slot) * time.Second).Add(100 * time.Millisecond)
	simclock.Set(ts.Add(50 * time.Millisecond))
	blk, gerr, aerr := b.Produce(context.Background(), ts)
	if gerr != nil || aerr != nil {
		panic(fmt.Sprintf("builder failed to build: %v %v", gerr, aerr))
	}
	l := e.label(simnode.CloneBlock(blk), e.btip[bi], fNone, -1, bi)
	e.btip[bi] = l
	for _, tx := range blk.GetBody().GetTxs() {
		e.txOn[string(tx.Hash)] = append(e.txOn[string(tx.Hash)], l)
	}
	e.x.Count("blocks-built", 1)
	e.x.Count("txs-built", int64(len(blk.GetBody().GetTxs())))
}

// doForge derives an invalid variant of the chain segment that ends at tip: the block
// `back` positions below the tip is corrupted, the blocks above it are re-linked and
// re-signed so that the forged branch is as long as the genuine one.
func (e *env) doForge(tip, back, kind int) {
	// only genuine chains are forged: corrupting a corrupted block again could undo the corruption
	if tip >= len(e.blocks) || !e.validPath(tip) || kind <= fNone || kind >= fMax {
		e.x.Noop()
		return
	}
	p := e.path(tip)
	if back >= len(p) {
		back = len(p) - 1
	}
	seg := p[len(p)-1-back:]
	e.x.Fault("forged-" + forgeName[kind])
	parent := e.blocks[seg[0]].parent
	var prevHash []byte
	for i, l := range seg {
		g := e.blocks[l]
		c := simnode.CloneBlock(g.b)
		key := e.net.BPKeys[g.builder%2]
		k := fNone
		if i == 0 {
			k = kind
			switch kind {
			case fStateRoot:
				c.Header.BlocksRootHash = flip(c.Header.BlocksRootHash)
			case fReceiptRoot:
				c.Header.ReceiptsRootHash = flip(c.Header.ReceiptsRootHash)
			case fTxRoot:
				c.Header.TxsRootHash = flip(c.Header.TxsRootHash)
			case fBody:
				if len(c.Body.Txs) > 0 {
					c.Body.Txs = c.Body.Txs[:len(c.Body.Txs)-1]
				} else {
					t := simnode.SignedTx(e.net.Accounts[0], 999, e.net.Accounts[0].Addr, big.NewInt(1), types.TxType_TRANSFER, nil, []byte("x"), 0)
					c.Body.Txs = append(c.Body.Txs, t)
				}
			case fID:
				h := sha256.Sum256(append([]byte("false id"), c.Hash...))
				c.Hash = h[:]
			case fSig:
				c.Header.Sign = flip(c.Header.Sign)
			case fHeight:
				c.Header.BlockNo += uint64(1 + len(seg)%3)
			case fTurn:
				c.Header.Timestamp += 1 + int64(len(seg)%5)
			case fBadTx:
				t := simnode.SignedTx(e.net.Accounts[0], 1, e.net.Accounts[1%len(e.net.Accounts)].Addr, big.NewInt(7), types.TxType_TRANSFER, nil, e.builders[0].ChainIDHash(), 0)
				t.Body.Account = e.net.Accounts[1%len(e.net.Accounts)].Addr
				t.Hash = t.CalculateTxHash()
				// anywhere in the body: first, in the middle or last (what is behind the forged
				// transaction is still queued in the signature verifier when the block is refused)
				at := (tip + 2*back + len(seg)) % (len(c.Body.Txs) + 1)
				c.Body.Txs = append(c.Body.Txs[:at:at], append([]*types.Tx{t}, c.Body.Txs[at:]...)...)
				c.Header.TxsRootHash = types.CalculateTxsRootHash(c.Body.Txs)
			}
		} else {
			c.Header.PrevBlockHash = prevHash
		}
		resign := (i == 0 && (kind == fStateRoot || kind == fReceiptRoot || kind == fTxRoot || kind == fBadTx || kind == fHeight || kind == fTurn)) || i > 0
		if resign {
			c.Header.Sign = nil
			c.Hash = nil
			if err := c.Sign(key); err != nil {
				panic(err)
			}
			c.Hash = nil
			c.Hash = c.BlockHash()
		}
		if i == 0 && kind == fTurn {
			if e.nut.Veto == nil {
				e.nut.Veto = map[string]bool{}
			}
			e.nut.Veto[string(c.BlockHash())] = true
		}
		nl := e.label(c, parent, k, l, g.builder)
		if i > 0 {
			// descendants of a corrupted block are well formed but sit on an invalid parent
			e.blocks[nl].execOK = true
			e.blocks[nl].kind = fNone
			e.blocks[nl].origin = l
		}
		parent = nl
		prevHash = c.BlockHash()
		if kind == fBody || kind == fID || kind == fSig {
			break // same header: descendants are the genuine ones
		}
	}
}

func flip(b []byte) []byte {
	c := append([]byte{}, b...)
	if len(c) == 0 {
		return []byte{1}
	}
	c[len(c)/2] ^= 0x40
	return c
}

func (e *env) flushHandBack() {
	n := e.nut
	hb := n.HandBack
	n.HandBack = nil
	for _, tx := range hb {
		_ = n.Submit(tx)
	}
}

func (e *env) doRestart() {
	e.x.Fault("restart")
	e.flushHandBack()
	e.nut.Stop()
	e.nut.Boot()
	if err := e.nut.Recover(); err != nil {
		e.x.Fail(e.propOr("C06"), "recover-failed", "clean-restart", err.Error(), e.step)
		return
	}
	e.orph = map[string]int{}
	e.checkInvariants("after-restart")
}

func (e *env) propOr(p string) string {
	if e.prop == "C05" || e.prop == "C06" || e.prop == "C07" || e.prop == "C18" || e.prop == "C19" || e.prop == "C03" || e.prop == "C04" || e.prop == "C17" || e.prop == "C15" {
		return e.prop
	}
	return p
}

type obs struct {
	orphans int
	best    string
	root    string
	height  uint64
	nkeys   int
	digest  string
}

// observe is the node's C05 observation vector: best block, state root, and a digest of
// the raw chain store (every index entry) — used for "rejected block leaves everything untouched".
func (e *env) observe() obs {
	n := e.nut
	b := n.Best()
	d := n.Disk.Dump("chain")
	keys := make([]string, 0, len(d))
	for k := range d {
		keys = append(keys, k)
	}
	sort.Strings(keys)
	h := sha256.New()
	for _, k := range keys {
		h.Write([]byte(k))
		h.Write(d[k])
	}
	return obs{orphans: n.CS.VerifOrphanCount(), best: string(b.BlockHash()), root: string(n.CS.SDB().GetRoot()), height: b.BlockNo(), nkeys: len(d), digest: string(h.Sum(nil))}
}

func (e *env) doDeliver(l int) {
	x := e.x
	if l >= len(e.blocks) {
		x.Noop()
		return
	}
	b := e.blocks[l]
	e.delivered[l] = true
	simclock.Set(e.net.Start.Add(time.Duration(e.slot+3) * time.Second))
	before := e.observe()
	oldBest := e.best
	var err error
	peer := types.PeerID("peer")
	if e.viaSync {
		peer = ""
		x.Probe("delivered-on-the-sync-path")
	}
	pan := catch(func() { err = e.nut.AddBlock(b.b, peer) })
	if (b.kind == fID || b.kind == fTxRoot || b.kind == fHeight) && e.observe() == before {
		// A false identifier over genuine content, or a re-signed header whose tx root does not match
		// the body: the node may drop it at the door (nothing stored, not even as an orphan) or handle
		// it under the digest of its own header; the model follows what the node did.
		x.Count("dropped-at-the-door", 1)
	} else {
		if b.kind == fID && b.origin >= 0 {
			// same header and body as the genuine block: the model knows that content by its own label
			x.Count("false-id-handled-under-own-digest", 1)
			e.modelDeliver(b.origin)
		} else {
			e.modelDeliver(l)
		}
	}
	x.Logf("deliver %d kind=%s h=%d err=%v model-best=%d node-height=%d", l, forgeName[b.kind], b.height, err, e.best, e.nut.Best().BlockNo())
	x.Count("delivered", 1)
	if pan != "" {
		x.Fail(e.propOr("C05"), "node-died-on-block", forgeName[b.kind], fmt.Sprintf("delivering block %d (%s) killed the node: %s", l, forgeName[b.kind], pan), e.step)
		e.dead = true
		return
	}
	after := e.observe()
	if err != nil {
		x.Count("rejected", 1)
	}
	// content that does not match its identifier or signature must leave no trace
	if (!b.idOK || !b.sigOK) && (e.prop == "C18" || e.prop == "C03" || e.prop == "C05") {
		if before != after {
			cls := "malformed-block-changed-node"
			x.Fail(e.propOr("C18"), cls, forgeName[b.kind], fmt.Sprintf("block %d (%s) must be discarded without effect, but the node changed: best %x->%x height %d->%d chain-keys %d->%d",
				l, forgeName[b.kind], before.best[:4], after.best[:4], before.height, after.height, before.nkeys, after.nkeys), e.step)
			return
		}
	}
	// a block rejected by execution leaves best/state/indexes untouched (C03c)
	if err != nil && e.best == oldBest && (e.prop == "C03" || e.prop == "C05") {
		if before.best != after.best || before.root != after.root {
			x.Fail(e.propOr("C03"), "rejected-block-changed-node", forgeName[b.kind], fmt.Sprintf("block %d was rejected (%v) but best/state root changed", l, err), e.step)
			return
		}
	}
	if e.best != oldBest {
		if e.blocks[e.best].parent != oldBest && e.heightOf(e.best) > 0 {
			// did the winning path fork away from the old best?
			op, np := e.path(oldBest), e.path(e.best)
			common := 0
			for common < len(op) && common < len(np) && op[common] == np[common] {
				common++
			}
			if common < len(op) {
				x.Probe(fmt.Sprintf("reorg-depth-%d", min(len(op)-common, 4)))
				x.Out.Nontrivial = true
				e.checkHandBack(op[common:], np[common:])
			}
		}
	}
	e.checkBest("after-deliver", l)
	if x.Failed() {
		return
	}
	if e.prop == "C17" {
		e.checkAncestorSearch()
		if x.Failed() {
			return
		}
	}
	if e.prop == "C15" || e.prop == "C03" {
		e.checkVprMemory(l, err)
		if x.Failed() {
			return
		}
	}
	e.checkInvariants("after-deliver")
	x.Digest(e.prop, len(e.stored), e.heightOf(e.best), len(e.orph), len(e.builders))
}

func min(a, b int) int {
	if a < b {
		return a
	}
	return b
}

func catch(f func()) (p string) {
	defer func() {
		if r := recover(); r != nil {
			p = fmt.Sprintf("%v", r)
		}
	}()
	f()
	return ""
}

// checkBest compares the node's best block with the model of the specified fork choice.
func (e *env) checkBest(when string, l int) {
	x := e.x
	nb := e.nut.Best()
	want := e.idOf(e.best)
	if string(hdrDigest(nb)) != want {
		cls := "wrong-best-block"
		sig := "unknown"
		got := -1
		for i, b := range e.blocks {
			if b.trueID == string(hdrDigest(nb)) {
				got = i
			}
		}
		switch {
		case got >= 0 && !e.validPath(got):
			sig = "invalid-branch-won"
		case got >= 0 && e.heightOf(got) < e.heightOf(e.best):
			sig = "longer-valid-branch-not-adopted"
		case got >= 0 && e.heightOf(got) == e.heightOf(e.best):
			sig = "equal-length-branch-displaced-or-missed"
		default:
			sig = "other-branch"
		}
		p := e.propOr("C07")
		x.Fail(p, cls, sig, fmt.Sprintf("%s of block %d (%s): node best = label %d height %d, specified best = label %d height %d", when, l, forgeName[e.blocks[l].kind], got, nb.BlockNo(), e.best, e.heightOf(e.best)), e.step)
	}
}

// checkVprMemory (C15): after every delivery - in particular after a block that was executed and then
// refused, and after reorganizations - the voting-power rank a node keeps in memory equals the one
// rebuilt from the persisted state of its best block.
func (e *env) checkVprMemory(l int, derr error) {
	x := e.x
	n := e.nut
	var eq bool
	var err error
	var live, re string
	n.Do(func() {
		scs, serr := statedb.GetSystemAccountState(n.CS.SDB().OpenNewStateDB(n.CS.SDB().GetRoot()))
		if serr != nil {
			err = serr
			return
		}
		// voters, powers, total and bucket order are compared; the in-memory rank-order tree is left
		// out (its corruption by in-place key mutation is a recorded known finding of the GOV world)
		live = stripRankLines(system.VerifVprDump())
		re, err = system.VerifVprDumpReload(scs)
		re = stripRankLines(re)
		eq = live == re
	})
	if err != nil {
		x.Fail("C15", "vpr-unreadable", "chain", err.Error(), e.step)
		return
	}
	if derr != nil {
		x.Probe("vpr-checked-after-refused-block")
	}
	if !eq {
		sig := "after-accepted-delivery"
		if derr != nil {
			sig = "after-refused-block"
		}
		x.Fail("C15", "vpr-differs-from-reload", "chain/"+sig, fmt.Sprintf("after delivering block %d (%s, err=%v) the voting-power rank in memory differs from the one rebuilt from the state of the best block: in memory {%s} rebuilt {%s}", l, forgeName[e.blocks[l].kind], derr, strings.ReplaceAll(live, "\n", " "), strings.ReplaceAll(re, "\n", " ")), e.step)
	}
}

func stripRankLines(d string) string {
	var keep []string
	for _, l := range strings.Split(d, "\n") {
		if strings.HasPrefix(l, "rank") {
			continue
		}
		keep = append(keep, l)
	}
	return strings.Join(keep, "\n")
}

// checkAncestorSearch (C17, responder side): a node asked for the common ancestor with a list of
// block identifiers (the requester's anchors, highest first) must name the first identifier of the
// list that is on ITS main chain - never a block of a side or abandoned branch it merely has
// stored, and "none" if there is no such identifier. Lists are drawn from everything the node under
// test has been offered: main chain, side branches, forged blocks, unknown identifiers.
func (e *env) checkAncestorSearch() {
	x := e.x
	n := e.nut
	r := simkit.NewRng(simkit.Mix(x.Case.Seed, uint64(1000+e.step)))
	if len(e.blocks) == 0 {
		return
	}
	for round := 0; round < 3; round++ {
		var list [][]byte
		cnt := 1 + r.Intn(6)
		var picked []int
		for i := 0; i < cnt; i++ {
			picked = append(picked, r.Intn(len(e.blocks)))
		}
		// anchors are sent highest first
		sort.Slice(picked, func(i, j int) bool { return e.blocks[picked[i]].height > e.blocks[picked[j]].height })
		for _, l := range picked {
			list = append(list, []byte(e.blocks[l].trueID))
		}
		if r.Chance(1, 4) {
			list = append(list, simkit.Key32("unknown", e.step))
		}
		if r.Chance(1, 3) {
			list = append(list, []byte(e.genesis))
		}
		var want []byte
		for _, h := range list {
			blk, err := n.CS.GetBlock(h)
			if err != nil {
				continue
			}
			mh, err := n.CS.GetHashByNo(blk.BlockNo())
			if err == nil && bytes.Equal(mh, h) {
				want = h
				break
			}
		}
		var got *types.BlockInfo
		var err error
		n.Do(func() { got, err = n.CS.VerifFindAncestor(list) })
		switch {
		case want == nil && err == nil && got != nil:
			x.Fail("C17", "ancestor-not-on-main-chain", "responder", fmt.Sprintf("asked with %d identifiers none of which is on its main chain, the node named block %d as common ancestor", len(list), got.No), e.step)
			return
		case want != nil && (err != nil || got == nil || !bytes.Equal(got.Hash, want)):
			x.Fail("C17", "wrong-ancestor", "responder", fmt.Sprintf("the first offered identifier on the node's main chain is %x, the node answered %v (err=%v)", want[:4], got, err), e.step)
			return
		}
		if want == nil {
			x.Probe("ancestor-search-none")
		} else {
			x.Probe("ancestor-search-found")
		}
	}
}

// checkHandBack: transactions only on the abandoned branch are offered back to the pool.
func (e *env) checkHandBack(oldSeg, newSeg []int) {
	if e.prop != "C07" && e.prop != "C04" {
		e.nut.HandBack = nil
		return
	}
	want := map[string]bool{}
	for _, l := range oldSeg {
		for _, tx := range e.blocks[l].b.GetBody().GetTxs() {
			want[string(tx.Hash)] = true
		}
	}
	for _, l := range newSeg {
		for _, tx := range e.blocks[l].b.GetBody().GetTxs() {
			delete(want, string(tx.Hash))
		}
	}
	got := map[string]bool{}
	for _, tx := range e.nut.HandBack {
		got[string(tx.Hash)] = true
	}
	if len(want) > 0 {
		e.x.Probe("reorg-with-handback")
	}
	for h := range want {
		if !got[h] {
			e.x.Fail("C07", "handback-missing", "reorg", fmt.Sprintf("tx %x was only on the abandoned branch but was not offered back to the pool", h[:4]), e.step)
			return
		}
	}
	for h := range got {
		if !want[h] {
			e.x.Fail("C07", "handback-extra", "reorg", fmt.Sprintf("tx %x is on the new main chain (or was never abandoned) but was handed back to the pool", h[:4]), e.step)
			return
		}
	}
	e.flushHandBack()
}

// checkInvariants is the C05 invariant set, evaluated through the public query surface
// and a raw key scan of the chain store.
func (e *env) checkInvariants(when string) {
	x := e.x
	p := e.propOr("C05")
	n := e.nut
	best := n.Best()
	fail := func(class, detail string) { x.Fail(p, class, when, detail, e.step) }
	// 1. parent-linked path to genesis, 2. height index equals that path
	pathHash := map[uint64]string{}
	cur := best
	for {
		pathHash[cur.BlockNo()] = string(cur.BlockHash())
		if cur.BlockNo() == 0 {
			break
		}
		par, err := n.CS.GetBlock(cur.GetHeader().GetPrevBlockHash())
		if err != nil {
			fail("broken-parent-link", fmt.Sprintf("block %d: parent %x not found", cur.BlockNo(), cur.GetHeader().GetPrevBlockHash()[:4]))
			return
		}
		if par.BlockNo()+1 != cur.BlockNo() {
			fail("broken-parent-link", fmt.Sprintf("block %d: parent has height %d", cur.BlockNo(), par.BlockNo()))
			return
		}
		cur = par
	}
	if string(cur.BlockHash()) != e.genesis {
		fail("broken-parent-link", "path from best does not end at genesis")
		return
	}
	for h := uint64(0); h <= best.BlockNo(); h++ {
		hh, err := n.CS.GetHashByNo(h)
		if err != nil || string(hh) != pathHash[h] {
			fail("height-index-wrong", fmt.Sprintf("height %d maps to %x, main chain has %x (err=%v)", h, trunc(hh), trunc([]byte(pathHash[h])), err))
			return
		}
	}
	// raw scan: no height entry above best, every stored block sits under the digest of its header
	raw := n.Disk.Dump("chain")
	for k, v := range raw {
		if len(k) == 8 && k != "hardfork" {
			no := types.BlockNoFromBytes([]byte(k))
			if no > best.BlockNo() {
				fail("height-index-above-best", fmt.Sprintf("height index holds %d > best %d", no, best.BlockNo()))
				return
			}
		}
		if len(k) == 32 && len(v) > 60 {
			var blk types.Block
			if err := proto.Decode(v, &blk); err == nil && blk.Header != nil && len(blk.Header.PrevBlockHash) == 32 && blk.Body != nil {
				if !bytes.Equal(hdrDigest(&blk), []byte(k)) {
					x.Fail(e.propOr("C18"), "block-stored-under-foreign-id", when, fmt.Sprintf("chain store key %x holds a block whose header digest is %x", k[:4], hdrDigest(&blk)[:4]), e.step)
					return
				}
				if _, genuine := e.byAnn[k]; genuine && !bytes.Equal(types.CalculateTxsRootHash(blk.GetBody().GetTxs()), blk.GetHeader().GetTxsRootHash()) {
					x.Fail(e.propOr("C18"), "stored-body-does-not-match-header", when, fmt.Sprintf("block %x (height %d) is stored with a body that does not hash to its header's tx root", k[:4], blk.BlockNo()), e.step)
					return
				}
			}
		}
	}
	// 3. txs of main-chain blocks resolve to (block, index); receipts exist
	onMain := map[string]bool{}
	for h := uint64(1); h <= best.BlockNo(); h++ {
		var blk *types.Block
		n.Do(func() { blk, _ = n.CS.VerifGetBlockByNo(h) })
		if blk == nil {
			fail("main-block-unreadable", fmt.Sprintf("height %d", h))
			return
		}
		txs := blk.GetBody().GetTxs()
		for i, tx := range txs {
			onMain[string(tx.Hash)] = true
			var idx *types.TxIdx
			var err error
			n.Do(func() { _, idx, err = n.CS.VerifGetTx(tx.Hash) })
			if err != nil || idx == nil || !bytes.Equal(idx.BlockHash, blk.BlockHash()) || int(idx.Idx) != i {
				fail("tx-index-wrong", fmt.Sprintf("tx %d of main block %d resolves to %v (err=%v)", i, h, idx, err))
				return
			}
			var rerr error
			n.Do(func() { _, rerr = n.CS.VerifGetReceipt(tx.Hash) })
			if rerr != nil {
				fail("receipt-missing", fmt.Sprintf("tx %d of main block %d: %v", i, h, rerr))
				return
			}
		}
		if len(txs) > 0 {
			var rs *types.Receipts
			var rerr error
			n.Do(func() { rs, rerr = n.CS.VerifGetReceipts(blk.BlockHash()) })
			if rerr != nil || rs == nil || len(rs.Get()) != len(txs) {
				fail("receipts-missing", fmt.Sprintf("main block %d with %d txs: receipts err=%v", h, len(txs), rerr))
				return
			}
		}
	}
	// 4. txs only on abandoned branches are not reported as confirmed
	for h, labels := range e.txOn {
		if onMain[h] {
			continue
		}
		seen := false
		for _, l := range labels {
			if e.stored[e.blocks[l].trueID] {
				seen = true
			}
		}
		if !seen {
			continue
		}
		var idx *types.TxIdx
		var err error
		n.Do(func() { _, idx, err = n.CS.VerifGetTx([]byte(h)) })
		if err == nil && idx != nil {
			fail("abandoned-tx-reported-confirmed", fmt.Sprintf("tx %x is only on abandoned branches but resolves to block %x", h[:4], idx.BlockHash[:4]))
			return
		}
		x.Probe("abandoned-tx-checked")
	}
	// 5. state root
	if !bytes.Equal(n.CS.SDB().GetRoot(), best.GetHeader().GetBlocksRootHash()) {
		fail("state-root-not-best", fmt.Sprintf("state db root %x, best block %d root %x", trunc(n.CS.SDB().GetRoot()), best.BlockNo(), trunc(best.GetHeader().GetBlocksRootHash())))
		return
	}
	if best.BlockNo() > 0 && !n.CS.SDB().GetStateDB().HasMarker(best.GetHeader().GetBlocksRootHash()) {
		fail("state-marker-missing", fmt.Sprintf("best block %d", best.BlockNo()))
		return
	}
	if n.CS.VerifHasReorgMarker() {
		fail("reorg-marker-left", "reorganisation marker present outside a crash window")
		return
	}
}

func trunc(b []byte) []byte {
	if len(b) > 4 {
		return b[:4]
	}
	return b
}

// finalChecks: the node still extends its own tip, and a reference node that only ever
// saw the winning branch ends in the same state.
func (e *env) finalChecks() {
	x := e.x
	if e.prop == "C07" || e.prop == "C05" || e.prop == "C03" || e.prop == "C18" {
		// "and the node still accepts the next block on its own tip"
		fresh := e.net.AddNode(0, nil, "permissive")
		e.builders = append(e.builders, fresh)
		for _, l := range e.path(e.best) {
			if err := fresh.AddBlock(e.blocks[l].b, "src"); err != nil {
				panic(fmt.Sprintf("reference node rejects the specified main chain at label %d: %v", l, err))
			}
		}
		e.btip = append(e.btip, e.best)
		bi := len(e.builders) - 1
		e.doBuild(bi)
		l := len(e.blocks) - 1
		e.step = len(x.Case.Steps)
		e.doDeliver(l)
		if x.Failed() {
			return
		}
		x.Probe("extended-own-tip-at-end")
		// full state equal to the reference node's
		rw, err1 := simnode.WalkState(fresh.Disk.Store("state"), fresh.Best().GetHeader().GetBlocksRootHash(), true)
		nw, err2 := simnode.WalkState(e.nut.Disk.Store("state"), e.nut.Best().GetHeader().GetBlocksRootHash(), true)
		if err1 != nil || err2 != nil {
			x.Fail(e.propOr("C07"), "state-unreadable", "final", fmt.Sprint(err1, err2), e.step)
			return
		}
		if d := simnode.DiffStates(rw, nw); len(d) > 0 {
			x.Fail(e.propOr("C07"), "state-differs-from-reference", "final", fmt.Sprintf("node state differs from a node that only saw the winning branch: %v", d), e.step)
		}
	}
}

// ---------------------------------------------------------------------------------------------
// C06: crash at every durable write unit of one delivery.

// doCrashDeliver first performs the delivery fault-free (with every check of doDeliver) while the
// disk journals its durable write units, then, for every prefix of that journal (and torn prefixes
// of bulk units), rebuilds the disk as a crash would leave it, restarts the node through the
// production start-up + recovery path and checks what C06 states.
func (e *env) doCrashDeliver(st *simkit.Step) {
	x := e.x
	l := st.A
	if l < 0 || l >= len(e.blocks) {
		x.Noop()
		return
	}
	disk := e.nut.Disk
	e.flushHandBack()
	preBest := e.best
	disk.Checkpoint()
	e.doDeliver(l)
	if x.Failed() || e.dead {
		return
	}
	e.crashDeliveries++
	units := disk.Units()
	post := disk.Snapshot()
	postBest := e.best
	want := e.observe()
	x.Count("crash-deliveries", 1)
	x.Count("crash-units", int64(units))
	if units == 0 {
		x.Probe("crash-delivery-without-writes")
		return
	}
	// legitimately reachable tips
	allowed := map[string]bool{e.idOf(preBest): true, e.idOf(postBest): true}
	pp, qp := e.path(preBest), e.path(postBest)
	extends := len(qp) >= len(pp)
	for i := range pp {
		if !extends || qp[i] != pp[i] {
			extends = false
			break
		}
	}
	kind := "connect"
	if postBest == preBest {
		kind = "no-tip-change"
	} else if extends {
		for _, m := range qp[len(pp):] {
			allowed[e.idOf(m)] = true
		}
		if len(qp)-len(pp) > 1 {
			kind = "orphan-chain"
		}
	} else {
		kind = "reorg"
	}
	x.Probe("crash-scan-" + kind)
	ks := []int{}
	if st.B >= 0 {
		ks = append(ks, st.B)
	} else {
		for k := 0; k < units; k++ {
			ks = append(ks, k)
		}
	}
	for _, k := range ks {
		if k >= units {
			x.Noop()
			continue
		}
		torns := []int{0}
		if store, ukind, nops := journalUnit(post, disk, k); ukind == "bulk" && nops > 1 && e.tornMode > 0 && store == "state" {
			if st.B >= 0 {
				torns = []int{st.C}
			} else if e.tornMode == 1 {
				torns = append(torns, 1+(k*7)%(nops-1))
			} else {
				for t := 1; t < nops && t <= 6; t++ {
					torns = append(torns, t)
				}
			}
		} else if st.B >= 0 && st.C > 0 {
			torns = []int{0}
		}
		for _, t := range torns {
			e.crashTrial(post, k, t, kind, allowed, postBest, want)
			if x.Failed() {
				if x.Generating() {
					st.B, st.C = k, t
				}
				return
			}
		}
	}
	// back to the fault-free outcome
	e.nut.Stop()
	disk.Restore(post)
	e.nut.Boot()
	if err := e.nut.Recover(); err != nil {
		panic("recovery of the fault-free state failed: " + err.Error())
	}
	e.orph = map[string]int{}
}

func journalUnit(post *simdisk.Snap, d *simdisk.Disk, k int) (string, string, int) {
	return post.UnitAt(k)
}

func (e *env) bootRecover() (string, error) {
	var err error
	p := catch(func() {
		e.nut.Boot()
		err = e.nut.Recover()
	})
	return p, err
}

func (e *env) crashTrial(post *simdisk.Snap, k, torn int, kind string, allowed map[string]bool, postBest int, want obs) {
	x := e.x
	n := e.nut
	disk := n.Disk
	n.Stop()
	disk.Restore(post)
	e.reseedBulk(1 + k*64 + torn)
	store, ukind, _ := disk.UnitAt(k)
	disk.RebuildAt(k, torn)
	x.Fault("crash-" + kind + "-" + store + "-" + ukind)
	if torn > 0 {
		x.Fault("torn-bulk")
	}
	sig := kind + "/" + store + "-" + ukind
	ps, pk, pn := post.UnitAt(k)
	x.Logf("crash trial k=%d torn=%d %s (snapshot says %s-%s/%d, journal %d/%d)", k, torn, sig, ps, pk, pn, post.JournalLen(), disk.Units())
	atCrash := disk.Snapshot()
	p, err := e.bootRecover()
	if p != "" || err != nil {
		x.Fail("C06", "recovery-failed", sig, fmt.Sprintf("crash before write unit %d (torn %d) of a %s: restart/recovery failed: %v %s", k, torn, kind, err, p), e.step)
		return
	}
	recUnits := disk.Units() - len(atCrashJournal(atCrash))
	if recUnits > 0 {
		x.Probe("recovery-wrote-to-disk")
	}
	if e.secondCrash == 1 && recUnits > 0 {
		// die once more, inside the recovery, then recover again
		j := (k*31 + torn*7) % recUnits
		x.Logf("second crash: recovery wrote %d units, dying at its unit %d (journal %d)", recUnits, j, disk.Units())
		n.Stop()
		disk.Restore(atCrash)
		disk.Arm(disk.Units()+j, 0)
		p, err = e.bootRecover()
		disk.Disarm()
		if !strings.Contains(p, "simulated crash") {
			// the armed unit was not reached (recovery took another path): fine, state is recovered
			if p != "" || err != nil {
				x.Fail("C06", "recovery-failed", sig+"/second", fmt.Sprintf("second recovery failed: %v %s", err, p), e.step)
				return
			}
		} else {
			x.Fault("crash-inside-recovery")
			n.Stop()
			p, err = e.bootRecover()
			if p != "" || err != nil {
				x.Fail("C06", "recovery-failed", sig+"/after-crash-in-recovery", fmt.Sprintf("crash before unit %d of a %s, then crash at recovery unit %d: recovery failed: %v %s", k, kind, j, err, p), e.step)
				return
			}
		}
	}
	// coherent state
	savedProp := e.prop
	e.prop = "C06"
	e.checkInvariants("after-crash/" + sig)
	e.prop = savedProp
	if x.Failed() {
		return
	}
	got := string(hdrDigest(n.Best()))
	if !allowed[got] {
		x.Fail("C06", "illegitimate-best-after-crash", sig, fmt.Sprintf("crash before write unit %d (torn %d) of a %s: recovered best (height %d) is neither the old tip, the new tip nor a tip the node passes through", k, torn, kind, n.Best().BlockNo()), e.step)
		return
	}
	if got == e.idOf(postBest) {
		x.Count("crash-recovered-to-new-tip", 1)
	} else {
		x.Count("crash-recovered-to-older-tip", 1)
	}
	// feeding the same blocks again reaches the fault-free final state
	simclock.Set(e.net.Start.Add(time.Duration(e.slot+3) * time.Second))
	// In a third of the trials a corrupting relay is faster than the genuine sender: before each
	// genuine block the restarted node (its negative cache is empty again) is shown a copy with the
	// genuine header and an altered body. It must not be written anywhere nor keep the genuine block out.
	relay := (k+torn)%3 == 0
	for _, m := range e.path(postBest) {
		if relay {
			c := simnode.CloneBlock(e.blocks[m].b)
			if len(c.Body.Txs) > 0 {
				c.Body.Txs = c.Body.Txs[:len(c.Body.Txs)-1]
			} else {
				t := simnode.SignedTx(e.net.Accounts[0], 999, e.net.Accounts[0].Addr, big.NewInt(1), types.TxType_TRANSFER, nil, []byte("x"), 0)
				c.Body.Txs = append(c.Body.Txs, t)
			}
			x.Fault("altered-copy-before-genuine-after-restart")
			pan := catch(func() { _ = n.AddBlock(c, "relay") })
			if pan != "" {
				x.Fail("C06", "node-died-after-recovery", sig, fmt.Sprintf("an altered copy of block %d after recovery killed the node: %s", m, pan), e.step)
				return
			}
			var stored *types.Block
			n.Do(func() { stored, _ = n.CS.GetBlock(e.blocks[m].b.BlockHash()) })
			if stored != nil && len(stored.GetBody().GetTxs()) != len(e.blocks[m].b.GetBody().GetTxs()) {
				x.Fail("C18", "malformed-block-changed-node", "altered-body-genuine-id/after-restart", fmt.Sprintf("crash before write unit %d (torn %d) of a %s, restart, then a copy of block %d with the genuine header and an altered body: the node now stores the altered body (%d txs) under the genuine identifier (genuine: %d txs)", k, torn, kind, m, len(stored.GetBody().GetTxs()), len(e.blocks[m].b.GetBody().GetTxs())), e.step)
				return
			}
		}
		pan := catch(func() { _ = n.AddBlock(e.blocks[m].b, "peer") })
		if pan != "" {
			x.Fail("C06", "node-died-after-recovery", sig, fmt.Sprintf("re-feeding block %d after recovery killed the node: %s", m, pan), e.step)
			return
		}
	}
	n.HandBack = nil
	after := e.observe()
	if (after.best != want.best || after.root != want.root) && e.allStored(postBest) && after.best != want.best {
		// Every block of the fault-free main chain is in the chain DB, yet the node sits on the older
		// tip: the process died after storing the side-branch blocks and before switching to them, and
		// a re-delivered block that is already stored is ignored ("already connected"). Recorded as a
		// known finding (DESIGN.md section 7); what is still required is that the next block of that
		// branch makes the node converge.
		if !x.FailKnownOrStop("C06", "refeed-does-not-converge", "side-branch-stored-before-switch",
			fmt.Sprintf("crash before write unit %d (torn %d) of a %s: every block of the longer branch is stored, re-feeding them is ignored and the node stays at height %d (fault-free run: height %d)", k, torn, kind, after.height, want.height), e.step) {
			return
		}
		child := e.childOf(postBest)
		pan := catch(func() { _ = n.AddBlock(child, "peer") })
		if pan != "" {
			x.Fail("C06", "node-died-after-recovery", sig, fmt.Sprintf("delivering the next block after recovery killed the node: %s", pan), e.step)
			return
		}
		n.HandBack = nil
		if string(hdrDigest(n.Best())) != string(hdrDigest(child)) || !bytes.Equal(n.CS.SDB().GetRoot(), child.GetHeader().GetBlocksRootHash()) {
			x.Fail("C06", "refeed-does-not-converge", sig+"/even-with-next-block", fmt.Sprintf("crash before write unit %d (torn %d) of a %s: even the next block of the longer branch does not bring the node to it (height %d)", k, torn, kind, n.Best().BlockNo()), e.step)
			return
		}
		e.prop = "C06"
		e.checkInvariants("after-refeed+next/" + sig)
		e.prop = savedProp
		x.Probe("converged-with-next-block")
		return
	}
	if after.best != want.best || after.root != want.root {
		x.Fail("C06", "refeed-does-not-converge", sig, fmt.Sprintf("crash before write unit %d (torn %d) of a %s: after recovery and re-feeding the same blocks the node is at height %d (fault-free run: height %d), state root equal=%v", k, torn, kind, after.height, want.height, after.root == want.root), e.step)
		return
	}
	e.prop = "C06"
	e.checkInvariants("after-refeed/" + sig)
	e.prop = savedProp
	x.Digest("C06", kind, store, ukind, got == e.idOf(postBest), torn > 0)
}

// allStored reports whether every block on the model's path to l is readable from the node's chain DB.
func (e *env) allStored(l int) bool {
	for _, m := range e.path(l) {
		if _, err := e.nut.CS.GetBlock([]byte(e.blocks[m].trueID)); err != nil {
			return false
		}
	}
	return true
}

// childOf builds (once) an honest block on top of label l with a throw-away producer node.
func (e *env) childOf(l int) *types.Block {
	if b, ok := e.children[l]; ok {
		return b
	}
	tmp := e.net.AddNode(0, nil, "permissive")
	for _, m := range e.path(l) {
		if err := tmp.AddBlock(e.blocks[m].b, "src"); err != nil {
			panic(fmt.Sprintf("throw-away producer rejects the main chain at label %d: %v", m, err))
		}
	}
	e.slot++
	ts := e.net.Start.Add(time.Duration(e.slot) * time.Second).Add(100 * time.Millisecond)
	simclock.Set(ts.Add(50 * time.Millisecond))
	blk, gerr, aerr := tmp.Produce(context.Background(), ts)
	if gerr != nil || aerr != nil {
		panic(fmt.Sprintf("throw-away producer failed to build: %v %v", gerr, aerr))
	}
	tmp.Stop()
	if e.children == nil {
		e.children = map[int]*types.Block{}
	}
	e.children[l] = simnode.CloneBlock(blk)
	return e.children[l]
}

func atCrashJournal(s *simdisk.Snap) []struct{} { return make([]struct{}, s.JournalLen()) }

func init() {
	simkit.Register("chain", func(scratch string, t *testing.T) simkit.World { return &World{Scratch: scratch} })
}
