package exec

import (
	"bytes"
	"context"
	"encoding/json"
	"fmt"
	"math/big"
	"strings"

	"github.com/aergoio/aergo/v2/chain"
	"github.com/aergoio/aergo/v2/contract"
	"github.com/aergoio/aergo/v2/contract/system"
	"github.com/aergoio/aergo/v2/state"
	"github.com/aergoio/aergo/v2/state/statedb"
	"github.com/aergoio/aergo/v2/types"
	"github.com/aergoio/aergo/v2/zz_verif/simnode"
)

// labC03 re-executes the block transaction by transaction, each on its own block
// state that is updated and committed, and diffs the full state (accounts and every
// storage slot) around every single transaction:
//
//	ERROR receipt   => the delta is exactly {payer -fee, sender nonce := tx nonce}
//	rejected        => no delta at all
//	SUCCESS         => only the sender's nonce moves (to the tx nonce), Σ balance deltas = -fee,
//	                   and a plain transfer moves exactly the amount
//
// and finally requires that applying the transactions one by one plus the block reward
// reaches the block's state root (no effect leaks from one transaction into another).
func (e *env) labC03(parent, blk *types.Block, rcpts *types.Receipts, before map[string]*simnode.AcctDump) {
	x := e.x
	// The lab runs on the producer's node: its store holds the parent state and the produced
	// block's state even when validators refuse the block (which is what a skipped transaction
	// that left an effect leads to).
	v := e.prod
	store := v.Disk.Store("state")
	txs := blk.GetBody().GetTxs()
	var rs []*types.Receipt
	if rcpts != nil {
		rs = rcpts.Get()
	}
	if len(rs) != len(txs) {
		x.Fail("C03", "receipt-count", "block", fmt.Sprintf("block %d has %d txs but %d receipts", blk.BlockNo(), len(txs), len(rs)), e.stepIdx)
		return
	}
	// Name resolution deliberately reads the state as of the start of the block (a name
	// create/update takes effect for resolution from the next block on), so a block that
	// registers or updates a name and also uses a name elsewhere is not equivalent to
	// committing its transactions one by one. Such blocks are not judged by the lab.
	nameGov, nameUse := 0, 0
	for _, tx := range txs {
		b := tx.GetBody()
		if string(b.GetRecipient()) == types.AergoName {
			nameGov++
			nameUse++
		} else if isName(b.GetRecipient()) || isName(b.GetAccount()) {
			nameUse++
		}
	}
	if nameGov > 0 && nameUse > 1 {
		x.Probe("lab-skipped-name-sensitive-block")
		return
	}
	v.Do(func() {
		saved := system.VerifSaveCtx()
		defer system.VerifRestoreCtx(saved)
		root := parent.GetHeader().GetBlocksRootHash()
		pst := v.CS.SDB().OpenNewStateDB(root)
		scs, err := statedb.GetSystemAccountState(pst)
		if err != nil {
			panic(err)
		}
		system.InitSystemParams(scs, len(e.net.BPIDs))
		if err := system.InitVotingPowerRank(scs); err != nil {
			panic(err)
		}
		bi := types.NewBlockHeaderInfo(blk)
		prev := before
		if prev == nil {
			prev, _ = simnode.WalkState(store, root, true)
		}
		fees := new(big.Int)
		for i, tx := range txs {
			bs := state.NewBlockState(v.CS.SDB().OpenNewStateDB(root), state.SetPrevBlockHash(blk.GetHeader().GetPrevBlockHash()))
			bs.SetGasPrice(system.GetGasPrice())
			bs.Receipts().SetHardFork(v.Cfg.Hardfork, blk.BlockNo())
			ex := chain.NewTxExecutor(context.Background(), nil, v.CS.CDB(), bi, contract.ChainService)
			xerr := ex(bs, types.NewTransaction(tx))
			if err := bs.Update(); err != nil {
				panic(err)
			}
			if err := bs.Commit(); err != nil {
				panic(err)
			}
			newRoot := bs.GetRoot()
			cur, err := simnode.WalkState(store, newRoot, true)
			if err != nil {
				x.Fail("C03", "state-unreadable", "lab", err.Error(), e.stepIdx)
				return
			}
			d := simnode.DiffStates(prev, cur)
			body := tx.GetBody()
			r := rs[i]
			fee := new(big.Int).SetBytes(r.FeeUsed)
			fees.Add(fees, fee)
			sender := simnode.AcctKey(resolve(pst, body.GetAccount()))[:8]
			what := fmt.Sprintf("block %d tx %d (type %v, status %s, fee %s)", blk.BlockNo(), i, body.GetType(), r.Status, fee)
			switch {
			case xerr != nil:
				x.Probe("lab-rejected-tx")
				if len(d) != 0 {
					x.Fail("C03", "rejected-tx-left-effects", "lab", fmt.Sprintf("%s was rejected (%v) but changed state: %v", what, xerr, d), e.stepIdx)
					return
				}
				x.Fail("C03", "block-tx-rejected-on-reexecution", "lab", fmt.Sprintf("%s is in an accepted block but is rejected when applied alone: %v", what, xerr), e.stepIdx)
				return
			case r.Status == "ERROR":
				x.Probe("error-receipt")
				payer := sender
				if body.GetType() == types.TxType_FEEDELEGATION && !bytes.Equal(body.GetAccount(), body.GetRecipient()) {
					payer = simnode.AcctKey(resolve(pst, body.GetRecipient()))[:8]
					x.Probe("error-receipt-fee-delegation")
				}
				var want []string
				if fee.Sign() > 0 {
					want = append(want, "acct:"+payer+":balance:-"+fee.String())
				}
				ok := true
				nonceSeen := false
				for _, s := range d {
					switch {
					case strings.HasPrefix(s, "acct:"+sender+":nonce:") && strings.HasSuffix(s, fmt.Sprintf("->%d", body.GetNonce())):
						nonceSeen = true
					case len(want) > 0 && s == want[0]:
						want = nil
					default:
						ok = false
					}
				}
				if (!ok || !nonceSeen || len(want) != 0) && feeDelegUnpayable(tx, r) && onlyForeignCredits(d, payer, sender, body.GetNonce(), fee) {
					// listed known finding (contract.Execute judges "can the contract pay the fee" only
					// after the call has committed what it sent to other accounts); the run goes on
					x.Probe("fee-delegated-call-sent-funds-then-could-not-pay-fee")
					if x.FailKnownOrStop("C03", "failed-tx-left-effects", knownFeeDelegSig, fmt.Sprintf("%s failed at run time (%s) after the call had sent funds away; the recipients keep them while the contract is charged the fee only: %v", what, r.Ret, d), e.stepIdx) {
						prev = cur
						root = newRoot
						continue
					}
					return
				}
				if !ok || !nonceSeen || len(want) != 0 {
					x.Fail("C03", "failed-tx-left-effects", fmt.Sprintf("type%d", body.GetType()), fmt.Sprintf("%s failed at run time; allowed delta is {payer %s -fee, sender %s nonce->%d} but the state changed by %v", what, payer, sender, body.GetNonce(), d), e.stepIdx)
					return
				}
			default:
				sum := new(big.Int)
				for _, s := range d {
					f := strings.Split(s, ":")
					switch {
					case f[0] == "acct" && f[2] == "nonce":
						if f[1] != sender || !strings.HasSuffix(f[3], fmt.Sprintf("->%d", body.GetNonce())) {
							x.Fail("C03", "foreign-nonce-moved", "lab", fmt.Sprintf("%s moved a nonce it must not: %s", what, s), e.stepIdx)
							return
						}
					case f[0] == "acct" && f[2] == "balance":
						n, _ := new(big.Int).SetString(f[3], 10)
						sum.Add(sum, n)
					}
				}
				if off := new(big.Int).Add(sum, fee); off.Sign() < 0 && isSetOwnerSelf(tx) {
					if nb := prev[simnode.AcctKey([]byte(types.AergoName))]; nb != nil && nb.Balance != nil && new(big.Int).Neg(off).Cmp(nb.Balance) == 0 {
						// listed known finding: v1setOwner naming the sender itself burns the name contract's balance
						x.Probe("setowner-naming-the-sender")
						if x.FailKnownOrStop("C03", "success-delta-not-balanced", knownSetOwnerSig, fmt.Sprintf("%s: the balance of %s (%s) left it and reached nobody: %v", what, types.AergoName, nb.Balance, d), e.stepIdx) {
							root = newRoot
							prev = cur
							continue
						}
						return
					}
				}
				if new(big.Int).Add(sum, fee).Sign() != 0 {
					x.Fail("C03", "success-delta-not-balanced", fmt.Sprintf("type%d", body.GetType()), fmt.Sprintf("%s: Σ balance deltas = %s, expected -fee; delta %v", what, sum, d), e.stepIdx)
					return
				}
				if (body.GetType() == types.TxType_TRANSFER || body.GetType() == types.TxType_NORMAL) && len(body.GetRecipient()) == types.AddressLength && len(body.GetPayload()) == 0 {
					rcv := simnode.AcctKey(body.GetRecipient())[:8]
					if a := cur[simnode.AcctKey(body.GetRecipient())]; a != nil && len(a.CodeHash) == 0 {
						amt := body.GetAmountBigInt()
						var want []string
						if rcv == sender {
							if fee.Sign() > 0 {
								want = append(want, "acct:"+sender+":balance:-"+fee.String())
							}
						} else {
							if amt.Sign() > 0 {
								want = append(want, "acct:"+rcv+":balance:"+amt.String())
							}
							if tot := new(big.Int).Add(amt, fee); tot.Sign() > 0 {
								want = append(want, "acct:"+sender+":balance:-"+tot.String())
							}
						}
						for _, s := range d {
							if strings.Contains(s, ":balance:") {
								found := false
								for _, w := range want {
									if w == s {
										found = true
									}
								}
								if !found {
									x.Fail("C03", "transfer-wrong-effect", "lab", fmt.Sprintf("%s amount %s: unexpected balance change %s (expected %v)", what, amt, s, want), e.stepIdx)
									return
								}
							}
						}
					}
				}
			}
			root = newRoot
			prev = cur
		}
		// the block = its transactions applied one by one + the block reward
		bs := state.NewBlockState(v.CS.SDB().OpenNewStateDB(root), state.SetPrevBlockHash(blk.GetHeader().GetPrevBlockHash()))
		bs.BpReward.Set(fees)
		if err := chain.SendBlockReward(bs, blk.GetHeader().GetCoinbaseAccount()); err != nil {
			panic(err)
		}
		if err := bs.Update(); err != nil {
			panic(err)
		}
		x.Logf("lab: block %d sequential root equal=%v", blk.BlockNo(), bytes.Equal(bs.GetRoot(), blk.GetHeader().GetBlocksRootHash()))
		if !bytes.Equal(bs.GetRoot(), blk.GetHeader().GetBlocksRootHash()) {
			_ = bs.Commit()
			cur, _ := simnode.WalkState(store, bs.GetRoot(), true)
			real, _ := simnode.WalkState(store, blk.GetHeader().GetBlocksRootHash(), true)
			x.Fail("C03", "block-differs-from-sequential-tx-application", "lab", fmt.Sprintf("block %d: applying its %d txs one by one (each committed) plus the reward gives another state than the block: %v", blk.BlockNo(), len(txs), simnode.DiffStates(cur, real)), e.stepIdx)
		}
	})
}

func isName(a []byte) bool {
	return len(a) > 0 && len(a) != types.AddressLength && !types.IsSpecialAccount(a)
}

// resolve maps a name account to its address at the given state (addresses map to themselves).
func resolve(st *statedb.StateDB, acct []byte) []byte {
	if len(acct) == types.AddressLength || types.IsSpecialAccount(acct) {
		return acct
	}
	return acct
}

const knownFeeDelegSig = "fee-delegated-call-sent-funds-then-could-not-pay-fee"

// feeDelegUnpayable recognises the one situation of the listed known finding: a fee-delegated call
// that ran to completion and was then failed because the contract can no longer pay the fee.
func feeDelegUnpayable(tx *types.Tx, r *types.Receipt) bool {
	b := tx.GetBody()
	return b.GetType() == types.TxType_FEEDELEGATION && r.Status == "ERROR" && strings.Contains(r.Ret, types.ErrInsufficientBalance.Error()) &&
		!bytes.Equal(b.GetAccount(), b.GetRecipient())
}

// onlyForeignCredits: apart from the allowed delta (payer -fee, sender nonce) every change is a
// credit to some other account.
func onlyForeignCredits(d []string, payer, sender string, nonce uint64, fee *big.Int) bool {
	n := 0
	for _, s := range d {
		f := strings.Split(s, ":")
		switch {
		case strings.HasPrefix(s, "acct:"+sender+":nonce:") && strings.HasSuffix(s, fmt.Sprintf("->%d", nonce)):
		case s == "acct:"+payer+":balance:-"+fee.String():
		case len(f) == 4 && f[0] == "acct" && f[2] == "balance" && f[1] != payer && f[1] != sender && !strings.HasPrefix(f[3], "-"):
			n++
		default:
			return false
		}
	}
	return n > 0
}

// sentAway sums what a stub script sends to accounts other than the contract itself and the
// transaction's sender (both are reset on the failure path, so what they received is undone).
func sentAway(script string, self, sender []byte) *big.Int {
	sum := new(big.Int)
	for _, st := range strings.Split(script, ";") {
		f := strings.Fields(st)
		if len(f) == 3 && f[0] == "send" && f[1] != fmt.Sprintf("%x", self) && f[1] != fmt.Sprintf("%x", sender) {
			if a, ok := new(big.Int).SetString(f[2], 10); ok {
				sum.Add(sum, a)
			}
		}
	}
	return sum
}

const knownSetOwnerSig = "setowner-naming-the-sender"

// isSetOwnerSelf: a v1setOwner transaction to the name contract whose argument is the sender's own address.
func isSetOwnerSelf(tx *types.Tx) bool {
	b := tx.GetBody()
	if string(b.GetRecipient()) != types.AergoName || b.GetType() != types.TxType_GOVERNANCE {
		return false
	}
	var ci types.CallInfo
	if json.Unmarshal(b.GetPayload(), &ci) != nil || ci.Name != types.SetContractOwner || len(ci.Args) != 1 {
		return false
	}
	a, _ := ci.Args[0].(string)
	return a == types.EncodeAddress(b.GetAccount())
}

// setOwnerSelfBurn returns what the listed known finding burns in this block: the balance the name
// contract holds when a successful v1setOwner names its own sender (0 if there is no such transaction).
func setOwnerSelfBurn(blk *types.Block, rs []*types.Receipt, before map[string]*simnode.AcctDump) *big.Int {
	acc := new(big.Int)
	if nb := before[simnode.AcctKey([]byte(types.AergoName))]; nb != nil && nb.Balance != nil {
		acc.Set(nb.Balance)
	}
	for i, tx := range blk.GetBody().GetTxs() {
		b := tx.GetBody()
		if string(b.GetRecipient()) != types.AergoName || i >= len(rs) || rs[i].Status != "SUCCESS" {
			continue
		}
		var ci types.CallInfo
		if json.Unmarshal(b.GetPayload(), &ci) != nil {
			continue
		}
		switch ci.Name {
		case types.SetContractOwner:
			if isSetOwnerSelf(tx) {
				return acc
			}
			acc = new(big.Int)
		default:
			acc.Add(acc, b.GetAmountBigInt())
		}
	}
	return new(big.Int)
}
