// Package exec holds the EXEC world: one producer (real mempool, block factory and
// tx executor), fresh validators that re-execute every block from the network path,
// a "lab" that re-executes every block transaction by transaction with a full-state
// diff, honest and Byzantine clients.
package exec

import (
	"bytes"
	"context"
	"encoding/hex"
	"encoding/json"
	"fmt"
	"math/big"
	"os"
	"strings"
	"testing"
	"time"

	"github.com/aergoio/aergo/v2/account/key"
	"github.com/aergoio/aergo/v2/chain"
	"github.com/aergoio/aergo/v2/config"
	"github.com/aergoio/aergo/v2/contract"
	"github.com/aergoio/aergo/v2/internal/common"
	"github.com/aergoio/aergo/v2/internal/enc/base58"
	"github.com/aergoio/aergo/v2/state"
	"github.com/aergoio/aergo/v2/types"
	"github.com/aergoio/aergo/v2/zz_verif/simclock"
	"github.com/aergoio/aergo/v2/zz_verif/simgo"
	"github.com/aergoio/aergo/v2/zz_verif/simkit"
	"github.com/aergoio/aergo/v2/zz_verif/simnode"
	"github.com/libp2p/go-libp2p/core/crypto"
)

type World struct{ Scratch string }

func (w *World) Name() string    { return "exec" }
func (w *World) Props() []string { return []string{"C01", "C02", "C03", "C04", "C14"} }

// tx kinds
const (
	kTransfer = iota
	kTransferNew
	kStake
	kUnstake
	kVoteBP
	kVoteDAO
	kNameCreate
	kNameUpdate
	kDeploy
	kCall
	kFeeDeleg
	kTransferName
	kSetOwner
	kEnterprise
	// adversarial (C04)
	kBadSig     = 20
	kWrongChain = 21
	kReplay     = 22
	kMutated    = 23
	kNonceDup   = 24
	// Byzantine payloads (C14)
	kGovPayload = 40
	kRawFields  = 41
)

var unit = new(big.Int).Exp(big.NewInt(10), big.NewInt(15), nil) // 0.001 aergo

type env struct {
	x        *simkit.Ctx
	net      *simnode.Net
	prod     *simnode.Node
	vals     []*simnode.Node
	prop     string
	chainN   map[int]uint64 // nonce on chain per account (producer view)
	pending  map[int]int    // txs admitted to the pool and not yet seen in a block
	included []*types.Tx    // every tx included in a block so far
	admitted map[string]*types.Tx
	advHash  map[string]string // adversarial tx hash -> why it must never execute
	candPool []string
	deployed [][]byte // contract addresses
	names    []string
	blockNo  int
	dead     bool
	valSeq   int64
	stepIdx  int
}

func (w *World) Run(x *simkit.Ctx) {
	prop := x.Case.Prop
	public := x.CfgInt("public", func(r *simkit.Rng) int { return r.Pick(1, 3) }) == 1
	hfmode := x.CfgInt("hfmode", func(r *simkit.Rng) int { return r.Intn(5) })
	cbmode := x.CfgInt("coinbase", func(r *simkit.Rng) int { return r.Pick(2, 3, 1) })
	nacc := x.CfgInt("accounts", func(r *simkit.Rng) int { return r.Range(3, 8) })
	nblocks := x.CfgInt("blocks", func(r *simkit.Rng) int {
		if x.Case.Tier == "thorough" {
			return r.Range(4, 24)
		}
		return r.Range(3, 10)
	})
	txper := x.CfgInt("txper", func(r *simkit.Rng) int { return r.Range(1, 8) })
	nval := x.CfgInt("validators", func(r *simkit.Rng) int { return r.Range(1, 2) })
	vault := x.CfgInt("vault", func(r *simkit.Rng) int { return r.Pick(1, 2) })
	// governance-focused runs: equal stakes and parameter votes on one issue in two written forms,
	// so that tallies tie and the ranking's tie-break meets candidates of every length
	govfocus := x.CfgInt("govfocus", func(r *simkit.Rng) int { return r.Pick(4, 1) }) == 1
	// enterprise-focused runs (private chains only): well-formed admin / configuration transactions in
	// sequences (become admin, switch a list on and off, fill and empty it, use it again in a later block)
	entfocus := x.CfgInt("entfocus", func(r *simkit.Rng) int { return r.Pick(3, 1) }) == 1 && !public
	sched := x.CfgInt("sched", func(r *simkit.Rng) int { return int(r.U64() >> 33) })
	reexec := x.CfgInt("reexec", func(r *simkit.Rng) int {
		if x.Case.Tier == "thorough" {
			return 4
		}
		return 2
	})

	var hf config.HardforkConfig
	switch hfmode {
	case 0: // everything active from the start
		hf = config.HardforkConfig{V2: 0, V3: 0, V4: 0, V5: 0}
	case 1: // versions step up inside the run
		hf = config.HardforkConfig{V2: 2, V3: 3, V4: 5, V5: 7}
	case 2:
		hf = config.HardforkConfig{V2: 1, V3: 1, V4: 4, V5: 1000}
	case 3: // old rules only
		hf = config.HardforkConfig{V2: 1000, V3: 1001, V4: 1002, V5: 1003}
	default:
		hf = config.HardforkConfig{V2: 3, V3: 6, V4: 6, V5: 9}
	}
	vaultBal := ""
	if vault == 1 {
		vaultBal = "3000000000000000000" // small on purpose: the reward soon exceeds what is left
	}
	scratch := fmt.Sprintf("%s/exec-%d", w.Scratch, os.Getpid())
	_ = os.RemoveAll(scratch)
	net := simnode.NewNet(simnode.NetOpts{Scratch: scratch, NBP: 1, NAcc: nacc, Public: public, Hardfork: hf,
		Balance: "1000000000000000000000000", Vault: vaultBal})
	defer func() { net.Close(); _ = os.RemoveAll(scratch) }()
	rs := simkit.NewRng(uint64(sched))
	simgo.Order = func() bool { return rs.Bool() }
	defer func() { simgo.Order = nil }()

	var coinbase []byte
	switch cbmode {
	case 1:
		coinbase = simnode.NewAccount("coinbase", 0).Addr
	case 2:
		coinbase = net.Accounts[0].Addr
	}
	e := &env{x: x, net: net, prop: prop, chainN: map[int]uint64{}, pending: map[int]int{}, admitted: map[string]*types.Tx{}, advHash: map[string]string{}}
	e.prod = net.AddNode(0, coinbase, "dpos")
	for i := 0; i < nval; i++ {
		e.vals = append(e.vals, net.AddNode(-1, nil, "dpos"))
	}

	adv := prop == "C04"
	byz := prop == "C14"
	gen := func(r *simkit.Rng) *simkit.Step {
		if e.blockNo >= nblocks || e.dead {
			return nil
		}
		// a block after ~txper submissions
		if r.Intn(txper+1) == 0 {
			// B > 0: the slot deadline (or, with C = 1, the shutdown of the node) falls inside the
			// gathering of this block: the B-th look at the generation context finds it done
			dl := 0
			if r.Chance(1, 5) {
				dl = 1 + r.Intn(2*txper+1)
			}
			return &simkit.Step{Op: "block", A: r.Intn(4), B: dl, C: r.Pick(3, 1)}
		}
		from := r.Intn(nacc)
		to := r.Intn(nacc)
		kind := []int{kTransfer, kTransfer, kTransferNew, kStake, kUnstake, kVoteBP, kVoteDAO, kNameCreate, kNameUpdate, kDeploy, kCall, kCall, kFeeDeleg, kTransferName}[r.Intn(14)]
		if r.Chance(1, 40) {
			kind = kSetOwner // once per chain: the name contract's balance goes to the named owner (possibly the sender itself)
		}
		nd := 0
		if r.Chance(1, 8) {
			nd = r.Range(-2, 3)
		}
		if adv && r.Chance(1, 3) {
			kind = []int{kBadSig, kWrongChain, kReplay, kMutated, kNonceDup}[r.Intn(5)]
		}
		if byz && r.Chance(1, 2) {
			kind = []int{kGovPayload, kGovPayload, kRawFields}[r.Intn(3)]
		}
		s := ""
		switch kind {
		case kDeploy, kCall, kFeeDeleg:
			s = genScript(r, net)
		case kGovPayload:
			s = genGovPayload(r, net)
		case kRawFields:
			s = fmt.Sprintf("%d", r.Intn(1<<20))
		}
		e.valSeq++
		v := int64(1 + r.Intn(5000))
		if govfocus && !(byz && (kind == kGovPayload || kind == kRawFields)) && r.Chance(2, 3) {
			kind = []int{kStake, kVoteDAO, kVoteDAO, kVoteBP, kUnstake}[r.Intn(5)]
			s = ""
			switch kind {
			case kStake:
				v = int64(2 * (1 + r.Intn(3))) // 2,4,6: exactly the minimum
			case kVoteDAO:
				v = int64(4*r.Intn(2) + 8*r.Pick(2, 2, 1, 1)) // BPCOUNT, either value, plain / 39 / 40 characters / '+'
			}
		}
		if entfocus && r.Chance(1, 2) {
			kind, s = kEnterprise, ""
			v = int64(r.Intn(1 << 20))
		}
		return &simkit.Step{Op: "tx", K: []int{from, to, kind, nd}, V: v, S: s, C: int(e.valSeq)}
	}

	for {
		st, idx := x.Next(gen)
		if st == nil || x.Failed() || e.dead {
			break
		}
		e.stepIdx = idx
		switch st.Op {
		case "tx":
			e.doTx(st)
		case "block":
			e.doBlock(st, reexec)
		default:
			x.Noop()
		}
	}
	if !x.Failed() && prop == "C04" {
		e.checkHistoryC04()
	}
	x.Out.SimMs = int64(e.blockNo) * 1000
}

// candidatePool lists producer-candidate ids: the genesis producers and the peer ids derived from the
// first client keys.
func (e *env) candidatePool() []string {
	if e.candPool != nil {
		return e.candPool
	}
	for _, id := range e.net.BPIDs {
		e.candPool = append(e.candPool, base58.Encode([]byte(id)))
	}
	for i := 0; i < len(e.net.Accounts) && len(e.candPool) < 5; i++ {
		pk, err := crypto.UnmarshalSecp256k1PublicKey(e.net.Accounts[i].Priv.PubKey().SerializeCompressed())
		if err != nil {
			continue
		}
		if id, err := types.IDFromPublicKey(pk); err == nil {
			e.candPool = append(e.candPool, base58.Encode([]byte(id)))
		}
	}
	return e.candPool
}

func genScript(r *simkit.Rng, net *simnode.Net) string {
	var parts []string
	for i := r.Range(1, 4); i > 0; i-- {
		switch r.Pick(8, 4, 6, 4, 2, 4, 1) {
		case 0:
			parts = append(parts, fmt.Sprintf("set k%d v%d", r.Intn(4), r.Intn(1000)))
		case 1:
			parts = append(parts, fmt.Sprintf("del k%d", r.Intn(4)))
		case 2:
			a := net.Accounts[r.Intn(len(net.Accounts))]
			parts = append(parts, fmt.Sprintf("send %s %s", hex.EncodeToString(a.Addr), new(big.Int).Mul(unit, big.NewInt(int64(r.Intn(50)))).String()))
		case 3:
			parts = append(parts, fmt.Sprintf("event e%d", r.Intn(3)))
		case 4:
			parts = append(parts, "fee "+new(big.Int).Mul(unit, big.NewInt(int64(r.Intn(20)))).String())
		case 5:
			parts = append(parts, "fail")
		case 6:
			// a VM *system* error: the producer drops the tx after it was (partly) executed and its fee
			// computed; it never enters a block
			parts = append(parts, "sysfail")
		}
	}
	if r.Chance(1, 4) {
		parts = append(parts, "set fd 1")
	}
	return strings.Join(parts, " ; ")
}

// genGovPayload draws a structurally valid but unexpected governance payload.
func genGovPayload(r *simkit.Rng, net *simnode.Net) string {
	names := []string{"v1stake", "v1unstake", "v1voteBP", "v1voteDAO", "v1createName", "v1updateName", "v1setOwner",
		"appendAdmin", "removeAdmin", "appendConf", "removeConf", "enableConf", "changeCluster", "v2stake", ""}
	vals := []string{`"BPCOUNT"`, `"bpcount"`, `"GASPRICE"`, `"STAKINGMIN"`, `"NAMEPRICE"`, `"13"`, `"0"`, `"-1"`, `"99999999999999999999999999999999999999999"`,
		`5`, `-1`, `1e400`, `null`, `true`, `{}`, `[]`, `[[[[[[[[1]]]]]]]]`, `{"a":{"b":{"c":[1,2,{"d":null}]}}}`, `""`, `"abcdefghijkl"`, `"ABCDEFGHIJKL"`, `"abcdefghijk!"`,
		`"` + base58.Encode([]byte(net.BPIDs[0])) + `"`, `"` + types.EncodeAddress(net.Accounts[0].Addr) + `"`, `"\u0000\ud800"`, `"aergo.system"`, `1.5`, `"P2P"`, `"RPCPERMISSIONS"`, `"ACCOUNTWHITE"`}
	n := r.Pick(2, 4, 3, 2, 1)
	var args []string
	for i := 0; i < n; i++ {
		args = append(args, vals[r.Intn(len(vals))])
	}
	name := names[r.Intn(len(names))]
	switch r.Intn(12) {
	case 0:
		return `{"Name":"` + name + `"}`
	case 1:
		return `{"Name":"` + name + `","Args":null}`
	case 2:
		return `{"Name":"` + name + `","Args":{}}`
	case 3:
		return `{"Name":` + vals[r.Intn(len(vals))] + `,"Args":[` + strings.Join(args, ",") + `]}`
	case 4:
		return `{"Name":"` + name + `","Name":"v1stake","Args":[` + strings.Join(args, ",") + `]}`
	case 5:
		return `[` + strings.Join(args, ",") + `]`
	}
	return `{"Name":"` + name + `","Args":[` + strings.Join(args, ",") + `]}`
}

func (e *env) nextNonce(a int) uint64 {
	return e.chainN[a] + uint64(e.pending[a]) + 1
}

func (e *env) refreshNonces() {
	for i, a := range e.net.Accounts {
		var n uint64
		e.prod.Do(func() {
			as, err := state.GetAccountState(a.Addr, e.prod.CS.SDB().GetStateDB())
			if err == nil {
				n = as.Nonce()
			}
		})
		e.chainN[i] = n
	}
}

// buildTx turns a step into a signed transaction (or nil when the step is a no-op).
func (e *env) buildTx(st *simkit.Step) (tx *types.Tx, adversarial string) {
	if len(st.K) < 4 {
		return nil, ""
	}
	net := e.net
	from, to, kind, nd := st.K[0]%len(net.Accounts), st.K[1]%len(net.Accounts), st.K[2], st.K[3]
	acc := net.Accounts[from]
	nonce := uint64(int64(e.nextNonce(from)) + int64(nd))
	if nonce == 0 {
		nonce = 1
	}
	cid := e.prod.ChainIDHash()
	amt := new(big.Int).Mul(unit, big.NewInt(st.V))
	gov := func(recipient string, payload string, amount *big.Int) *types.Tx {
		return simnode.SignedTx(acc, nonce, []byte(recipient), amount, types.TxType_GOVERNANCE, []byte(payload), cid, 0)
	}
	switch kind {
	case kTransfer:
		if from == to && st.V%3 != 0 { // keep some self-transfers
			to = (to + 1) % len(net.Accounts)
		}
		return simnode.SignedTx(acc, nonce, net.Accounts[to].Addr, amt, types.TxType_TRANSFER, nil, cid, 0), ""
	case kTransferNew:
		return simnode.SignedTx(acc, nonce, simnode.NewAccount("fresh", int(st.V)).Addr, amt, types.TxType_TRANSFER, nil, cid, 0), ""
	case kTransferName:
		if len(e.names) == 0 {
			return nil, ""
		}
		return simnode.SignedTx(acc, nonce, []byte(e.names[int(st.V)%len(e.names)]), amt, types.TxType_TRANSFER, nil, cid, 0), ""
	case kStake:
		a := new(big.Int).Add(types.StakingMinimum, amt)
		if st.V%7 == 0 {
			a = amt // below the minimum: must be refused
		} else if st.V%2 == 0 {
			a = new(big.Int).Set(types.StakingMinimum) // equal stakes: ties between candidates
		}
		return gov(types.AergoSystem, `{"Name":"v1stake"}`, a), ""
	case kUnstake:
		return gov(types.AergoSystem, `{"Name":"v1unstake"}`, new(big.Int).Add(types.StakingMinimum, amt)), ""
	case kVoteBP:
		// one to three candidates out of a small pool (the producers plus the ids of client keys), so
		// that voters overlap and candidates tie
		pool := e.candidatePool()
		n := 1 + int(st.V/4)%3
		args := ""
		for j := 0; j < n; j++ {
			if j > 0 {
				args += ","
			}
			args += `"` + pool[(int(st.V)+j*(1+int(st.V/16)%3))%len(pool)] + `"`
		}
		return gov(types.AergoSystem, `{"Name":"v1voteBP","Args":[`+args+`]}`, new(big.Int)), ""
	case kVoteDAO:
		ids := []string{"BPCOUNT", "GASPRICE", "NAMEPRICE", "STAKINGMIN"}
		val := [][]string{{"3", "5"}, {"60000000000", "70000000000"}, {"2000000000000000000", "3000000000000000000"}, {"20000000000000000000000", "30000000000000000000000"}}
		i := int(st.V) % 4
		v := val[i][int(st.V/4)%2]
		switch int(st.V/8) % 8 { // written form of the number (all are decimal numbers for the code)
		case 1:
			v = strings.Repeat("0", 39-len(v)) + v
		case 2:
			v = strings.Repeat("0", 40-len(v)) + v
		case 3:
			v = "+" + v
		}
		return gov(types.AergoSystem, `{"Name":"v1voteDAO","Args":["`+ids[i]+`","`+v+`"]}`, new(big.Int)), ""
	case kNameCreate:
		name := fmt.Sprintf("name%08d", st.V%100000000)
		e.names = append(e.names, name)
		price := new(big.Int).Mul(unit, big.NewInt(1000)) // 1 aergo
		if st.V%5 == 0 {
			price = amt // wrong price: must be refused
		}
		return gov(types.AergoName, `{"Name":"v1createName","Args":["`+name+`"]}`, price), ""
	case kNameUpdate:
		if len(e.names) == 0 {
			return nil, ""
		}
		name := e.names[int(st.V)%len(e.names)]
		price := new(big.Int).Mul(unit, big.NewInt(1000))
		return gov(types.AergoName, `{"Name":"v1updateName","Args":["`+name+`","`+types.EncodeAddress(net.Accounts[to].Addr)+`"]}`, price), ""
	case kSetOwner:
		return gov(types.AergoName, `{"Name":"v1setOwner","Args":["`+types.EncodeAddress(net.Accounts[to].Addr)+`"]}`, new(big.Int)), ""
	case kDeploy:
		tx := simnode.SignedTx(acc, nonce, nil, amt, types.TxType_DEPLOY, []byte(st.S), cid, 0)
		e.deployed = append(e.deployed, contract.CreateContractID(acc.Addr, nonce))
		return tx, ""
	case kCall, kFeeDeleg:
		if len(e.deployed) == 0 {
			return nil, ""
		}
		c := e.deployed[int(st.V)%len(e.deployed)]
		typ := types.TxType_CALL
		a := amt
		if kind == kFeeDeleg {
			typ = types.TxType_FEEDELEGATION
			a = new(big.Int)
		}
		return simnode.SignedTx(acc, nonce, c, a, typ, []byte(st.S), cid, 0), ""
	case kBadSig:
		tx := simnode.SignedTx(net.Accounts[(from+1)%len(net.Accounts)], nonce, net.Accounts[to].Addr, amt, types.TxType_TRANSFER, nil, cid, 0)
		tx.Body.Account = acc.Addr // signed by another key
		tx.Hash = tx.CalculateTxHash()
		return tx, "signed by the wrong key"
	case kWrongChain:
		other := common.Hasher([]byte("another chain"))
		if st.V%2 == 0 { // the same chain under another fork version
			best := e.prod.Best()
			other = common.Hasher(types.MakeChainId(best.GetHeader().GetChainID(), e.prod.Cfg.Hardfork.Version(best.BlockNo()+1)+7))
		}
		return simnode.SignedTx(acc, nonce, net.Accounts[to].Addr, amt, types.TxType_TRANSFER, nil, other, 0), "bound to another chain id"
	case kReplay:
		if len(e.included) == 0 {
			return nil, ""
		}
		return e.included[int(st.V)%len(e.included)], "replay of an included transaction"
	case kMutated:
		// one signed field is changed after signing (the signature stays): every field of the body in
		// turn, including the chain id hash of a transaction that was signed for another chain and is
		// re-stamped with the local one (cross-chain replay)
		tx := simnode.SignedTx(acc, nonce, net.Accounts[to].Addr, amt, types.TxType_TRANSFER, nil, cid, 0)
		what := "altered after signing"
		switch (st.V / 2) % 8 {
		case 0:
			tx.Body.Amount = new(big.Int).Add(amt, big.NewInt(1)).Bytes()
		case 1:
			tx.Body.Recipient = net.Accounts[(to+1)%len(net.Accounts)].Addr
			if bytes.Equal(tx.Body.Recipient, net.Accounts[to].Addr) {
				tx.Body.Amount = new(big.Int).Add(amt, big.NewInt(1)).Bytes()
			}
		case 2:
			tx.Body.Payload = []byte("x")
		case 3:
			tx.Body.GasLimit++
		case 4:
			tx.Body.GasPrice = []byte{1}
		case 5:
			tx.Body.Type = types.TxType_NORMAL
		case 6:
			tx.Body.Nonce = nonce + 1
		case 7:
			foreign := simnode.SignedTx(acc, nonce, net.Accounts[to].Addr, amt, types.TxType_TRANSFER, nil, common.Hasher([]byte("another chain")), 0)
			foreign.Body.ChainIdHash = cid
			tx = foreign
			what = "signed for another chain and re-stamped with the local chain id"
		}
		if st.V%2 == 0 {
			tx.Hash = tx.CalculateTxHash()
		}
		return tx, what
	case kNonceDup:
		if e.chainN[from] == 0 {
			return nil, ""
		}
		n := uint64(1 + int(st.V)%int(e.chainN[from]))
		return simnode.SignedTx(acc, n, net.Accounts[to].Addr, amt, types.TxType_TRANSFER, nil, cid, 0), "nonce already used on chain"
	case kEnterprise:
		v := int(st.V)
		key := []string{"ACCOUNTWHITE", "P2PWHITE", "P2PBLACK", "RPCPERMISSIONS"}[v%4]
		addr := types.EncodeAddress(net.Accounts[to].Addr)
		val := addr
		if v%4 != 0 {
			val = []string{"v1", "v2", addr}[(v/4)%3]
		}
		var pl string
		switch (v / 16) % 8 {
		case 0, 1:
			pl = `{"Name":"appendAdmin","Args":["` + types.EncodeAddress(acc.Addr) + `"]}`
		case 2:
			pl = `{"Name":"enableConf","Args":["` + key + `",` + []string{"true", "false"}[(v/128)%2] + `]}`
		case 3:
			pl = `{"Name":"setConf","Args":["` + key + `","` + val + `"]}`
		case 4:
			pl = `{"Name":"appendConf","Args":["` + key + `","` + val + `"]}`
		case 5:
			pl = `{"Name":"removeConf","Args":["` + key + `","` + val + `"]}`
		case 6:
			pl = `{"Name":"removeAdmin","Args":["` + addr + `"]}`
		default:
			pl = `{"Name":"setConf","Args":["` + key + `"]}`
		}
		return gov(types.AergoEnterprise, pl, new(big.Int)), ""
	case kGovPayload:
		rcp := []string{types.AergoSystem, types.AergoName, types.AergoEnterprise}[int(st.V)%3]
		return gov(rcp, st.S, amt), ""
	case kRawFields:
		// arbitrary lengths of account / recipient / amount / price fields
		v := int(st.V)
		body := &types.TxBody{Nonce: nonce, Account: acc.Addr, Recipient: net.Accounts[to].Addr, Amount: amt.Bytes(), Type: types.TxType(v % 9), ChainIdHash: cid}
		switch v % 7 {
		case 0:
			body.Account = bytes.Repeat([]byte{1}, v%70)
		case 1:
			body.Recipient = bytes.Repeat([]byte{2}, v%70)
		case 2:
			body.Amount = bytes.Repeat([]byte{0xff}, v%40)
		case 3:
			body.GasPrice = bytes.Repeat([]byte{0xff}, v%40)
		case 4:
			body.Recipient = nil
		case 5:
			body.Payload = bytes.Repeat([]byte("x"), v%300)
		case 6:
			body.Recipient = []byte(types.AergoSystem)
			body.Payload = []byte(`{"Name":"v1stake"}`)
		}
		tx := &types.Tx{Body: body}
		_ = key.SignTx(tx, acc.Priv)
		tx.Hash = tx.CalculateTxHash()
		return tx, ""
	}
	return nil, ""
}

func (e *env) doTx(st *simkit.Step) {
	x := e.x
	tx, why := e.buildTx(st)
	if tx == nil {
		x.Noop()
		return
	}
	var err error
	panicked := catch(func() { err = e.prod.Submit(tx) })
	kind := st.K[2]
	x.Count(fmt.Sprintf("tx.kind%d", kind), 1)
	if panicked != "" {
		if e.prop == "C14" {
			x.Fail("C14", "panic-in-admission", sigOfPanic(panicked), fmt.Sprintf("pool admission panicked on tx kind %d payload %q: %s", kind, string(tx.GetBody().GetPayload()), firstLine(panicked)), e.stepIdx)
		}
		// a node that died is useless for the rest of the run
		x.Logf("admission panic: %s", firstLine(panicked))
		e.dead = true
		return
	}
	x.Logf("submit kind=%d err=%v", kind, err)
	if why != "" {
		x.Fault("adversarial-tx")
		e.advHash[string(tx.Hash)] = why
		if err == nil && kind != kReplay {
			if e.prop == "C04" {
				x.Fail("C04", "forged-tx-admitted", fmt.Sprintf("kind%d", kind), fmt.Sprintf("the pool admitted a transaction %s", why), e.stepIdx)
			}
			return
		}
		if err == nil && kind == kReplay {
			if e.prop == "C04" {
				x.Fail("C04", "forged-tx-admitted", "replay", "the pool re-admitted a transaction that is already on chain", e.stepIdx)
			}
			return
		}
		return
	}
	if err == nil {
		x.Count("tx.admitted", 1)
		e.admitted[string(tx.Hash)] = tx
		from := st.K[0] % len(e.net.Accounts)
		if st.K[3] == 0 && kind < 20 {
			e.pending[from]++
		}
		if kind >= 40 {
			x.Probe("byzantine-payload-admitted")
		}
	} else {
		x.Count("tx.rejected", 1)
	}
}

func catch(f func()) (p string) {
	defer func() {
		if r := recover(); r != nil {
			p = fmt.Sprintf("%v", r)
		}
	}()
	f()
	return ""
}

func firstLine(s string) string {
	if i := strings.IndexByte(s, '\n'); i >= 0 {
		return s[:i]
	}
	return s
}

// sigOfPanic reduces a panic text to a stable signature (no addresses or numbers).
func sigOfPanic(p string) string {
	s := firstLine(p)
	var b strings.Builder
	for _, c := range s {
		if c >= '0' && c <= '9' {
			continue
		}
		b.WriteRune(c)
	}
	out := b.String()
	if len(out) > 90 {
		out = out[:90]
	}
	return out
}

func (e *env) doBlock(st *simkit.Step, reexec int) {
	x := e.x
	e.blockNo++
	ts := e.net.Start.Add(time.Duration(e.blockNo) * time.Second).Add(100 * time.Millisecond)
	simclock.Set(ts.Add(50 * time.Millisecond))
	prod := e.prod
	parent := prod.Best()
	store := prod.Disk.Store("state")
	var before map[string]*simnode.AcctDump
	if e.prop == "C01" || e.prop == "C03" {
		var err error
		before, err = simnode.WalkState(store, parent.GetHeader().GetBlocksRootHash(), e.prop == "C03")
		if err != nil {
			panic("walk before: " + err.Error())
		}
	}
	var blk *types.Block
	var genErr, addErr error
	var gctx context.Context = context.Background()
	if st.B > 0 {
		cause := context.DeadlineExceeded
		if st.C == 1 {
			cause = context.Canceled
		}
		gctx = &countdownCtx{Context: context.Background(), left: st.B, cause: cause}
		x.Fault("generation-context-done-during-gather")
	}
	pan := catch(func() { blk, genErr, addErr = prod.Produce(gctx, ts) })
	if cc, ok := gctx.(*countdownCtx); ok && cc.left <= 0 {
		x.Probe("deadline-hit-while-candidates-remained")
	}
	if pan != "" || genErr != nil || addErr != nil {
		msg := fmt.Sprintf("panic=%q gen=%v add=%v", firstLine(pan), genErr, addErr)
		x.Logf("produce failed: %s", msg)
		if e.prop == "C14" {
			sig := "producer-cannot-produce"
			if genErr != nil && strings.Contains(genErr.Error(), "panic") {
				sig = "panic-in-production"
			}
			x.Fail("C14", sig, sigOfPanic(fmt.Sprint(genErr, pan)), "after admitting client transactions the producer can no longer produce a block: "+msg, e.stepIdx)
		} else if e.prop == "C02" {
			x.Fail("C02", "producer-rejects-own-block", sigOfPanic(fmt.Sprint(genErr, addErr, pan)), msg, e.stepIdx)
		}
		e.dead = true
		return
	}
	txs := blk.GetBody().GetTxs()
	x.Count("blocks", 1)
	x.Count("txs-in-blocks", int64(len(txs)))
	for _, tx := range txs {
		if why, bad := e.advHash[string(tx.Hash)]; bad && e.prop == "C04" {
			if _, honest := e.admitted[string(tx.Hash)]; !honest || why != "replay of an included transaction" {
				x.Fail("C04", "forged-tx-executed", "producer", "the producer included a transaction "+why, e.stepIdx)
				return
			}
		}
	}
	e.included = append(e.included, txs...)
	var rcpts *types.Receipts
	prod.Do(func() { rcpts, _ = prod.CS.VerifGetReceipts(blk.BlockHash()) })
	nerr := 0
	if rcpts != nil {
		for _, r := range rcpts.Get() {
			if r.Status == "ERROR" {
				nerr++
			}
		}
	}
	if nerr > 0 && nerr < len(txs) {
		x.Probe("block-with-error-and-success-receipts")
	}
	if blk.GetHeader().GetConsensus() != nil {
		x.Probe("voting-reward-paid")
	}
	ver := prod.Cfg.Hardfork.Version(blk.BlockNo())
	x.Count(fmt.Sprintf("blocks.v%d", ver), 1)
	x.Digest(e.prop, blk.BlockNo(), len(txs), nerr, ver, len(blk.GetHeader().GetCoinbaseAccount()) > 0)
	if len(txs) > 0 {
		x.Out.Nontrivial = true
	}

	// ---- C01: conservation on the producer ----
	if e.prop == "C01" {
		e.checkConservation(store, before, blk, rcpts, "producer")
	}
	if e.prop == "C03" {
		e.labC03(parent, blk, rcpts, before)
		if x.Failed() {
			return
		}
	}
	// ---- validators: fresh re-execution from the parent state ----
	for vi, v := range e.vals {
		vstore := v.Disk.Store("state")
		if e.prop == "C02" {
			for i := 0; i < reexec; i++ {
				var verr error
				p := catch(func() { v.Do(func() { verr = v.CS.VerifVerifyBlock(simnode.CloneBlock(blk)) }) })
				// verifyBlock leaves the state root and the in-memory voting power rank at the
				// block; re-synchronise to the parent the way executeBlock's error path does
				v.Do(func() {
					_ = v.CS.SDB().SetRoot(parent.GetHeader().GetBlocksRootHash())
					v.CS.Update(parent)
				})
				if p != "" || verr != nil {
					x.Fail("C02", "reexecution-disagrees", sigOfErr(verr, p), fmt.Sprintf("re-execution #%d of block %d on validator %d: err=%v panic=%s", i, blk.BlockNo(), vi, verr, firstLine(p)), e.stepIdx)
					return
				}
			}
		}
		var aerr error
		p := catch(func() { aerr = v.AddBlock(blk, "peer") })
		if p != "" || aerr != nil {
			switch e.prop {
			case "C02":
				x.Fail("C02", "validator-rejects-produced-block", sigOfErr(aerr, p), fmt.Sprintf("validator %d rejected block %d built by the producer: err=%v panic=%s", vi, blk.BlockNo(), aerr, firstLine(p)), e.stepIdx)
			case "C14":
				if p != "" {
					x.Fail("C14", "panic-in-validation", sigOfPanic(p), "validator panicked executing an admitted transaction: "+firstLine(p), e.stepIdx)
				}
			}
			e.dead = true
			return
		}
		if e.prop == "C02" {
			vb := v.Best()
			if !bytes.Equal(vb.BlockHash(), blk.BlockHash()) || !bytes.Equal(vb.GetHeader().GetBlocksRootHash(), blk.GetHeader().GetBlocksRootHash()) {
				x.Fail("C02", "validator-root-differs", "best", "validator best block / state root differs from the producer's", e.stepIdx)
				return
			}
			var vr *types.Receipts
			v.Do(func() { vr, _ = v.CS.VerifGetReceipts(blk.BlockHash()) })
			if !sameReceipts(rcpts, vr) {
				x.Fail("C02", "receipts-differ", "stored", fmt.Sprintf("receipts stored by validator %d differ from the producer's for block %d", vi, blk.BlockNo()), e.stepIdx)
				return
			}
			pw, _ := simnode.WalkState(store, blk.GetHeader().GetBlocksRootHash(), true)
			vw, _ := simnode.WalkState(vstore, blk.GetHeader().GetBlocksRootHash(), true)
			if d := simnode.DiffStates(pw, vw); len(d) != 0 {
				x.Fail("C02", "state-dump-differs", "walk", fmt.Sprintf("full-state walk differs between producer and validator: %v", d), e.stepIdx)
				return
			}
		}
		if e.prop == "C01" && vi == 0 {
			e.checkConservation(vstore, nil, blk, rcpts, "validator")
		}
	}
	e.pending = map[int]int{}
	e.refreshNonces()
	// txs still pooled keep their place in the per-account sequence
	var left []*types.Tx
	prod.Do(func() { left = prod.MP.VerifUnconfirmed() })
	for _, tx := range left {
		for i, a := range e.net.Accounts {
			if bytes.Equal(a.Addr, tx.GetBody().GetAccount()) && tx.GetBody().GetNonce() > e.chainN[i] {
				if d := int(tx.GetBody().GetNonce() - e.chainN[i]); d > e.pending[i] {
					e.pending[i] = d
				}
			}
		}
	}
}

func sigOfErr(err error, p string) string {
	if p != "" {
		return "panic:" + sigOfPanic(p)
	}
	if err == nil {
		return ""
	}
	return sigOfPanic(err.Error())
}

func sameReceipts(a, b *types.Receipts) bool {
	if a == nil || b == nil {
		return (a == nil || len(a.Get()) == 0) && (b == nil || len(b.Get()) == 0)
	}
	x, y := a.Get(), b.Get()
	if len(x) != len(y) {
		return false
	}
	for i := range x {
		bx, _ := json.Marshal(x[i])
		by, _ := json.Marshal(y[i])
		if !bytes.Equal(bx, by) {
			return false
		}
	}
	return true
}

// checkConservation: sum of all balances after the block equals the sum before; the
// only exception is a block without coinbase, where it shrinks by Σ receipts.FeeUsed.
func (e *env) checkConservation(store interface {
	Get([]byte) []byte
}, before map[string]*simnode.AcctDump, blk *types.Block, rcpts *types.Receipts, who string) {
	x := e.x
	n := e.prod
	if who == "validator" {
		n = e.vals[0]
	}
	dbs := n.Disk.Store("state")
	if before == nil {
		parent, err := n.CS.GetBlock(blk.GetHeader().GetPrevBlockHash())
		if err != nil {
			panic(err)
		}
		before, err = simnode.WalkState(dbs, parent.GetHeader().GetBlocksRootHash(), false)
		if err != nil {
			panic("walk: " + err.Error())
		}
	}
	after, err := simnode.WalkState(dbs, blk.GetHeader().GetBlocksRootHash(), false)
	if err != nil {
		x.Fail("C01", "state-unreadable", who, err.Error(), e.stepIdx)
		return
	}
	sb, sa := simnode.SumBalances(before), simnode.SumBalances(after)
	fees := new(big.Int)
	if rcpts != nil {
		for _, r := range rcpts.Get() {
			fees.Add(fees, new(big.Int).SetBytes(r.FeeUsed))
		}
	}
	if fees.Sign() > 0 {
		x.Probe("block-with-fees")
	} else if len(blk.GetBody().GetTxs()) > 0 {
		x.Probe("zero-fee-block")
	}
	want := new(big.Int).Set(sb)
	if len(blk.GetHeader().GetCoinbaseAccount()) == 0 {
		want.Sub(want, fees)
		if fees.Sign() > 0 {
			x.Probe("no-coinbase-block-with-fees")
		}
	}
	if sa.Cmp(want) > 0 && rcpts != nil && len(rcpts.Get()) == len(blk.GetBody().GetTxs()) {
		// listed known finding: a fee-delegated call that sent funds away and then could not pay
		// the fee leaves the recipients credited and the contract not debited; exactly that sum
		known := new(big.Int)
		for i, tx := range blk.GetBody().GetTxs() {
			if feeDelegUnpayable(tx, rcpts.Get()[i]) {
				known.Add(known, sentAway(string(tx.GetBody().GetPayload()), tx.GetBody().GetRecipient(), tx.GetBody().GetAccount()))
			}
		}
		if known.Sign() > 0 && new(big.Int).Sub(sa, want).Cmp(known) == 0 {
			x.Probe("fee-delegated-call-sent-funds-then-could-not-pay-fee")
			if x.FailKnownOrStop("C01", "supply-changed", "minted-by-"+knownFeeDelegSig, fmt.Sprintf("block %d: supply grew by %s = what fee-delegated calls sent away before failing with %q", blk.BlockNo(), known, types.ErrInsufficientBalance), e.stepIdx) {
				return
			}
			return
		}
	}
	if sa.Cmp(want) < 0 && rcpts != nil {
		if burn := setOwnerSelfBurn(blk, rcpts.Get(), before); burn.Sign() > 0 && new(big.Int).Sub(want, sa).Cmp(burn) == 0 {
			x.Probe("setowner-naming-the-sender")
			x.FailKnownOrStop("C01", "supply-changed", "burned-by-"+knownSetOwnerSig, fmt.Sprintf("block %d: supply shrank by %s = the balance of %s when a v1setOwner named its own sender", blk.BlockNo(), burn, types.AergoName), e.stepIdx)
			return
		}
	}
	if sa.Cmp(want) != 0 {
		kind := "minted"
		if sa.Cmp(want) < 0 {
			kind = "burned"
		}
		x.Fail("C01", "supply-changed", kind+"-"+who, fmt.Sprintf("block %d (%d txs, coinbase=%v): Σbalances before=%s after=%s, Σfees=%s, expected after=%s (diff %s): %v", blk.BlockNo(), len(blk.GetBody().GetTxs()),
			len(blk.GetHeader().GetCoinbaseAccount()) > 0, sb, sa, fees, want, new(big.Int).Sub(sa, want), simnode.DiffStates(before, after)), e.stepIdx)
	}
}

// checkHistoryC04 walks the final main chain of every node: executed nonces per account
// are 1,2,3,…, no hash twice, every tx verifies under its sender's key and carries the
// chain id hash of its block's fork version.
func (e *env) checkHistoryC04() {
	x := e.x
	for _, n := range append([]*simnode.Node{e.prod}, e.vals...) {
		best := n.Best()
		last := map[string]uint64{}
		seen := map[string]bool{}
		for no := uint64(1); no <= best.BlockNo(); no++ {
			var b *types.Block
			n.Do(func() { b, _ = n.CS.VerifGetBlockByNo(no) })
			if b == nil {
				x.Fail("C04", "chain-unreadable", "history", fmt.Sprintf("block %d missing", no), e.stepIdx)
				return
			}
			bi := types.NewBlockHeaderInfo(b)
			var rc *types.Receipts
			n.Do(func() { rc, _ = n.CS.VerifGetReceipts(b.BlockHash()) })
			for i, tx := range b.GetBody().GetTxs() {
				body := tx.GetBody()
				acct := string(body.GetAccount())
				if seen[string(tx.Hash)] {
					x.Fail("C04", "tx-executed-twice", "history", fmt.Sprintf("tx %x appears twice on the main chain of node %d", tx.Hash[:6], n.Idx), e.stepIdx)
					return
				}
				seen[string(tx.Hash)] = true
				if body.GetNonce() != last[acct]+1 {
					x.Fail("C04", "nonce-sequence-broken", "history", fmt.Sprintf("account %x executed nonce %d after %d (block %d)", body.GetAccount()[:4], body.GetNonce(), last[acct], no), e.stepIdx)
					return
				}
				last[acct] = body.GetNonce()
				if len(body.GetAccount()) == types.AddressLength {
					if err := key.VerifyTx(tx); err != nil {
						x.Fail("C04", "unsigned-tx-executed", "history", fmt.Sprintf("tx %d of block %d does not verify under its sender key: %v", i, no, err), e.stepIdx)
						return
					}
				}
				if !bytes.Equal(body.GetChainIdHash(), bi.ChainIdHash()) {
					x.Fail("C04", "foreign-chain-tx-executed", "history", fmt.Sprintf("tx %d of block %d carries another chain id hash", i, no), e.stepIdx)
					return
				}
				if !bytes.Equal(tx.Hash, tx.CalculateTxHash()) {
					x.Fail("C04", "tx-hash-mismatch-executed", "history", fmt.Sprintf("tx %d of block %d: hash field differs from the digest", i, no), e.stepIdx)
					return
				}
			}
			_ = rc
		}
	}
	_ = chain.MaxAnchorCount
}

func init() {
	simkit.Register("exec", func(scratch string, t *testing.T) simkit.World { return &World{Scratch: scratch} })
}

// countdownCtx is a block-generation context under the simulator's control: it is found done
// (deadline passed / node shutting down) at the left-th look at it, whatever the wall clock says.
type countdownCtx struct {
	context.Context
	left  int
	cause error
}

var closedCh = func() chan struct{} { c := make(chan struct{}); close(c); return c }()

func (c *countdownCtx) Done() <-chan struct{} {
	if c.left > 0 {
		c.left--
	}
	if c.left <= 0 {
		return closedCh
	}
	return nil // a nil channel is never ready: "not done yet"
}

func (c *countdownCtx) Err() error {
	if c.left <= 0 {
		return c.cause
	}
	return nil
}
