package pool

import (
	"fmt"
	"math/big"
	"strings"
	"time"

	"github.com/anishathalye/porcupine"
)

// Sequential specification of the pool for the linearizability check (porcupine).
//
// put(tx)      ok        : no entry with that hash or that (account, nonce), nonce > state nonce; entry added
//              dup-hash  : an entry with that hash exists
//              dup-nonce : an entry with that (account, nonce) exists
//              low       : nonce <= state nonce
//              bal       : the sender state cannot pay for it
//              other     : refused for a reason outside this specification (chain id ...); no effect
// remove(tx)   ok / notfound, by hash
// exist(tx)    found iff an entry with that hash exists
// get(max)     per account a prefix of the gap-free run state+1.. (the whole run without limit)
// block(b)     state := state(b); every entry with nonce <= state nonce is gone; anything else that is
//              gone must be unaffordable in the new state
// evict        any set of entries may be gone
//
// Relaxations (DESIGN.md Appendix A): the balance is not part of an `ok` (put validates it outside
// the lock). Between the first notification of a reorganisation (a block that is not a child of the
// pool's best) and the next one, the lists of accounts that the block does not name keep the nonce of
// the abandoned best block: for those accounts `low`, `bal` and the run offered by get may also be
// explained by that older state (alt), and such lists are not scanned.

type lent struct {
	n  uint64
	id string
}

type lacct struct {
	nonce  uint64
	bal    *big.Int
	hasAlt bool
	anonce uint64
	abal   *big.Int
	ents   []lent // ascending nonce
}

type lstate struct{ a []lacct }

type linIn struct {
	kind  string
	t     *mtx
	max   uint32
	b     *blk
	child bool
}

type linOut struct {
	cls     string
	found   bool
	seqs    [][]*mtx
	removed []string
}

func (s *lstate) with(a int, la lacct) *lstate {
	n := &lstate{a: append([]lacct{}, s.a...)}
	n.a[a] = la
	return n
}

func (la lacct) find(id string) int {
	for i, e := range la.ents {
		if e.id == id {
			return i
		}
	}
	return -1
}

func (la lacct) hasNonce(n uint64) bool {
	for _, e := range la.ents {
		if e.n == n {
			return true
		}
	}
	return false
}

func (la lacct) run(nonce uint64) []string {
	var out []string
	for _, e := range la.ents {
		if e.n <= nonce {
			continue
		}
		if e.n != nonce+uint64(len(out))+1 {
			break
		}
		out = append(out, e.id)
	}
	return out
}

func lstateEqual(x, y *lstate) bool {
	if len(x.a) != len(y.a) {
		return false
	}
	for i := range x.a {
		p, q := x.a[i], y.a[i]
		if p.nonce != q.nonce || p.hasAlt != q.hasAlt || p.bal.Cmp(q.bal) != 0 || len(p.ents) != len(q.ents) {
			return false
		}
		if p.hasAlt && (p.anonce != q.anonce || p.abal.Cmp(q.abal) != 0) {
			return false
		}
		for j := range p.ents {
			if p.ents[j] != q.ents[j] {
				return false
			}
		}
	}
	return true
}

func matchRun(q []*mtx, run []string, prefixOK bool) bool {
	if len(q) > len(run) || (!prefixOK && len(q) != len(run)) {
		return false
	}
	for i := range q {
		if q[i].id != run[i] {
			return false
		}
	}
	return true
}

func (e *env) linStep(st *lstate, in *linIn, out *linOut) (bool, *lstate) {
	switch in.kind {
	case "put":
		la := st.a[in.t.a]
		t := in.t
		switch out.cls {
		case "ok":
			if la.find(t.id) >= 0 || la.hasNonce(t.n) || t.n <= la.nonce {
				return false, st
			}
			ents := make([]lent, 0, len(la.ents)+1)
			done := false
			for _, x := range la.ents {
				if !done && x.n > t.n {
					ents = append(ents, lent{t.n, t.id})
					done = true
				}
				ents = append(ents, x)
			}
			if !done {
				ents = append(ents, lent{t.n, t.id})
			}
			la.ents = ents
			return true, st.with(t.a, la)
		case "dup-hash":
			return la.find(t.id) >= 0, st
		case "dup-nonce":
			return la.hasNonce(t.n), st
		case "low":
			return t.n <= la.nonce || (la.hasAlt && t.n <= la.anonce), st
		case "bal":
			return e.unaffordable(t, la.bal) || (la.hasAlt && e.unaffordable(t, la.abal)), st
		}
		return true, st
	case "remove":
		la := st.a[in.t.a]
		i := la.find(in.t.id)
		if out.cls == "ok" {
			if i < 0 {
				return false, st
			}
			la.ents = append(append([]lent{}, la.ents[:i]...), la.ents[i+1:]...)
			return true, st.with(in.t.a, la)
		}
		return i < 0, st
	case "exist":
		return out.found == (st.a[in.t.a].find(in.t.id) >= 0), st
	case "get":
		for a, la := range st.a {
			var q []*mtx
			if a < len(out.seqs) {
				q = out.seqs[a]
			}
			prefix := in.max != unlimited
			if matchRun(q, la.run(la.nonce), prefix) {
				continue
			}
			if la.hasAlt && matchRun(q, la.run(la.anonce), prefix) {
				continue
			}
			return false, st
		}
		return true, st
	case "evict":
		gone := map[string]bool{}
		for _, id := range out.removed {
			gone[id] = true
		}
		n := &lstate{a: append([]lacct{}, st.a...)}
		found := 0
		for a := range n.a {
			var keep []lent
			for _, x := range n.a[a].ents {
				if gone[x.id] {
					found++
				} else {
					keep = append(keep, x)
				}
			}
			n.a[a].ents = keep
		}
		return found == len(gone), n
	case "block":
		gone := map[string]bool{}
		for _, id := range out.removed {
			gone[id] = true
		}
		n := &lstate{a: append([]lacct{}, st.a...)}
		found := 0
		for a := range n.a {
			la := n.a[a]
			scanned := in.child || in.b.dirty[a]
			ns := in.b.st[a]
			var keep []lent
			for _, x := range la.ents {
				stale := x.n <= ns.nonce
				if gone[x.id] {
					found++
					if !scanned {
						return false, st
					}
					if !stale && !e.unaffordable(e.byID[x.id], ns.bal) {
						return false, st
					}
					continue
				}
				if stale && scanned {
					return false, st
				}
				keep = append(keep, x)
			}
			if in.child || in.b.dirty[a] {
				la.hasAlt = false
			} else if !la.hasAlt {
				la.hasAlt, la.anonce, la.abal = true, la.nonce, la.bal
			}
			la.nonce, la.bal, la.ents = ns.nonce, ns.bal, keep
			n.a[a] = la
		}
		return found == len(gone), n
	}
	return true, st
}

func (e *env) snapshot() *lstate {
	s := &lstate{a: make([]lacct, e.nA)}
	for a := 0; a < e.nA; a++ {
		c := e.cur_(a)
		la := lacct{nonce: c.nonce, bal: c.bal}
		for _, t := range e.entries(a) {
			la.ents = append(la.ents, lent{t.n, t.id})
		}
		s.a[a] = la
	}
	return s
}

func (e *env) resetHist() {
	e.hist = nil
	e.histBad = !e.settle
	e.histInit = e.snapshot()
}

const maxLinOps = 40

// checkHistory runs porcupine over the window since the last quiescent point.
func (e *env) checkHistory() {
	defer e.resetHist()
	if len(e.hist) == 0 || e.x.Failed() {
		return
	}
	if e.histBad {
		e.x.Count("lin-window-skipped", 1)
		return
	}
	var ops []porcupine.Operation
	overlap := false
	var lastRet int64 = -1
	for _, o := range e.hist {
		if o.kind == "report" || o.out == nil {
			continue
		}
		if o.call < lastRet {
			overlap = true
		}
		if o.ret > lastRet {
			lastRet = o.ret
		}
		ops = append(ops, porcupine.Operation{ClientId: o.task, Input: o.in, Call: o.call, Output: o.out, Return: o.ret})
	}
	if len(ops) > maxLinOps {
		e.x.Count("lin-window-too-long", 1)
		return
	}
	init := e.histInit
	model := porcupine.Model{
		Init: func() interface{} { return init },
		Step: func(st, in, out interface{}) (bool, interface{}) {
			ok, n := e.linStep(st.(*lstate), in.(*linIn), out.(*linOut))
			return ok, n
		},
		Equal: func(a, b interface{}) bool { return lstateEqual(a.(*lstate), b.(*lstate)) },
	}
	res := porcupine.CheckOperationsTimeout(model, ops, 5*time.Second)
	e.x.Count("lin-histories", 1)
	e.x.Count("lin-ops", int64(len(ops)))
	if overlap {
		e.x.Count("lin-histories-with-overlap", 1)
	}
	switch res {
	case porcupine.Unknown:
		e.x.Count("lin-unknown", 1) // inconclusive: counted, never reported
	case porcupine.Illegal:
		var s []string
		for _, o := range e.hist {
			if o.out == nil {
				continue
			}
			d := o.kind
			if o.t != nil {
				d += " " + o.t.String()
			}
			if o.b != nil {
				d += fmt.Sprintf(" %d", o.b.idx)
			}
			s = append(s, fmt.Sprintf("[%d,%d] task%d %s -> %s%s", o.call, o.ret, o.task, d, o.out.cls, fmtSeqs(o.out.seqs)))
		}
		e.fail("not-linearizable", "history", "no sequential order of this history is explained by the pool's specification:\n"+strings.Join(s, "\n"))
	}
}
