// Package pool is the POOL world (DESIGN.md 4.5): the real mempool.MemPool on a real chain
// state DB, driven by a tiny block source, checked against a model (C13).
//
// Sequential mode: one task issues puts in arbitrary nonce order (duplicates by hash and by
// nonce, gap fills, unaffordable and foreign-chain txs), removals, block arrivals that advance
// account state, reorganisations that rewind it (notifications in the order the chain service
// sends them, then the hand-back of the abandoned txs), evictions driven by the simulated
// clock, fetches with and without a size limit and the unconfirmed-tx report.
//
// Concurrent mode: k client tasks, a producer task and a block task are real goroutines of
// which exactly one runs at a time; the pool lock (simsync.RWMutex) is the yield point and a
// recorded `yield` step names the task that proceeds. The model is advanced when an operation
// returns (every critical section of the pool ends in the segment in which it started), the
// full invariant set is evaluated after every segment, and the invoke/return history is
// checked for linearizability with porcupine at quiescent points.
package pool

import (
	"fmt"
	"math/big"
	"os"
	"sort"
	"testing"
	"time"

	"github.com/aergoio/aergo-actor/actor"
	"github.com/aergoio/aergo/v2/config"
	"github.com/aergoio/aergo/v2/contract/system"
	"github.com/aergoio/aergo/v2/fee"
	"github.com/aergoio/aergo/v2/mempool"
	"github.com/aergoio/aergo/v2/pkg/component"
	"github.com/aergoio/aergo/v2/state"
	"github.com/aergoio/aergo/v2/types"
	"github.com/aergoio/aergo/v2/types/message"
	"github.com/aergoio/aergo/v2/zz_verif/simclock"
	"github.com/aergoio/aergo/v2/zz_verif/simdisk"
	"github.com/aergoio/aergo/v2/zz_verif/simgo"
	"github.com/aergoio/aergo/v2/zz_verif/simkit"
	"github.com/aergoio/aergo/v2/zz_verif/simnode"
	"github.com/aergoio/aergo/v2/zz_verif/simsync"
	"github.com/rs/zerolog"
)

const P = "C13"

type World struct {
	Scratch string
	T       *testing.T
}

func init() {
	simkit.Register("pool", func(scratch string, t *testing.T) simkit.World { return &World{Scratch: scratch, T: t} })
}

func (w *World) Name() string    { return "pool" }
func (w *World) Props() []string { return []string{P} }

// adapter is a synchronous stand-in for the services the pool talks to.
type adapter struct {
	name string
	hub  *component.ComponentHub
	n    *int
}

func (a *adapter) GetName() string                     { return a.name }
func (a *adapter) Start()                              {}
func (a *adapter) Stop()                               {}
func (a *adapter) Status() component.Status            { return component.StartedStatus }
func (a *adapter) SetHub(h *component.ComponentHub)    { a.hub = h }
func (a *adapter) Hub() *component.ComponentHub        { return a.hub }
func (a *adapter) MsgQueueLen() int32                  { return 0 }
func (a *adapter) Tell(m interface{})                  { *a.n++ }
func (a *adapter) Request(m interface{}, s *actor.PID) { *a.n++ }
func (a *adapter) RequestFuture(m interface{}, to time.Duration, tip string) *actor.Future {
	f := actor.NewFuture(to)
	f.PID().Tell(nil)
	return f
}
func (a *adapter) Receive(actor.Context) {}

// acctState is the on-chain state of one account in one block.
type acctState struct {
	nonce uint64
	bal   *big.Int
}

// mtx is one transaction of the universe, named by (account, nonce, variant).
type mtx struct {
	a    int
	n    uint64
	v    int
	tx   *types.Tx
	id   string // raw hash bytes as string
	ord  int    // creation ordinal
	size int
}

func (t *mtx) String() string { return fmt.Sprintf("a%d/n%d/v%d", t.a, t.n, t.v) }

// blk is one block of the block source's tree.
type blk struct {
	idx    int
	parent int
	height int
	b      *types.Block
	st     []acctState
	txs    []*mtx
	dirty  map[int]bool // accounts named as sender in the body (recipient is never a pool account)
}

type env struct {
	x         *simkit.Ctx
	w         *World
	nA        int
	accts     []*simnode.Account
	rcpt      []byte
	hf        config.HardforkConfig
	ver       int32
	cidh      []byte // chain-id hash txs must carry
	badh      []byte
	public    bool
	mp        *mempool.MemPool
	sdb       *state.ChainStateDB
	univ      map[[3]uint64]*mtx
	byID      map[string]*mtx
	order     []*mtx
	blocks    []*blk
	best      int  // last notified block (the pool's view of the chain)
	settle    bool // false between the first and the last notification of a reorg
	lastTouch []time.Time
	M         map[string]*mtx // model content
	notified  int
	p2p       int
	period    time.Duration

	// concurrent mode
	sched    *simsync.Sched
	queue    [][]*op
	cur      []*op // op in flight per task
	seq      int64
	hist     []*op
	histInit *lstate
	histBad  bool
	step     int
}

func big10(s string) *big.Int { v, _ := new(big.Int).SetString(s, 10); return v }

var (
	initBal = big10("1000000000000000000000") // 1000 aergo
	blkFee  = big10("5000000000000000")
	deposit = big10("300000000000000000000")
)

func amountOf(v int) *big.Int {
	switch v {
	case 2:
		return big10("400000000000000000000")
	case 3:
		return big10("2000000000000000000000")
	case 5:
		return big10("700000000000000000")
	}
	return new(big.Int).Add(big10("1000000000000000000"), big.NewInt(int64(v)))
}

const (
	vBadChain = 4
	vBlockA   = 6 // variants only the block source uses (conflicting bodies)
	nVariants = 8
)

func (e *env) txOf(a int, n uint64, v int) *mtx {
	k := [3]uint64{uint64(a), n, uint64(v)}
	if t, ok := e.univ[k]; ok {
		return t
	}
	h := e.cidh
	if v == vBadChain {
		h = e.badh
	}
	typ := types.TxType_TRANSFER
	if v == 5 {
		typ = types.TxType_NORMAL
	}
	var gas uint64
	if e.ver >= 2 && v != 1 {
		gas = 150000
	}
	tx := simnode.SignedTx(e.accts[a], n, e.rcpt, amountOf(v), typ, nil, h, gas)
	t := &mtx{a: a, n: n, v: v, tx: tx, id: string(tx.Hash), ord: len(e.order)}
	e.univ[k] = t
	e.byID[t.id] = t
	e.order = append(e.order, t)
	return t
}

func (e *env) cur_(a int) acctState { return e.blocks[e.best].st[a] }

// entries returns the model's content for account a in nonce order.
func (e *env) entries(a int) []*mtx {
	var out []*mtx
	for _, t := range e.order {
		if t.a == a {
			if _, ok := e.M[t.id]; ok {
				out = append(out, t)
			}
		}
	}
	sort.Slice(out, func(i, j int) bool { return out[i].n < out[j].n })
	return out
}

func runLen(ents []*mtx, nonce uint64) int {
	n := 0
	for _, t := range ents {
		if t.n != nonce+uint64(n)+1 {
			break
		}
		n++
	}
	return n
}

func (e *env) hasNonce(a int, n uint64) *mtx {
	for _, t := range e.order {
		if t.a == a && t.n == n {
			if _, ok := e.M[t.id]; ok {
				return t
			}
		}
	}
	return nil
}

// unaffordable asks the repo's own sender-state validation (the same function the pool uses)
// whether tx can be paid from balance bal; the nonce part of that function is neutralised.
func (e *env) unaffordable(t *mtx, bal *big.Int) bool {
	st := &types.State{Nonce: 0, Balance: bal.Bytes()}
	err := types.NewTransaction(t.tx).ValidateWithSenderState(st, system.GetGasPrice(), e.ver)
	return err != nil && err != types.ErrTxNonceToohigh
}

func (e *env) fail(class, sig, detail string) {
	e.x.Fail(P, class, sig, detail, e.step)
}

func (w *World) Run(x *simkit.Ctx) {
	thorough := x.Case.Tier == "thorough"
	mode := x.CfgInt("mode", func(r *simkit.Rng) int { return r.Pick(1, 1) })
	nA := x.CfgInt("accounts", func(r *simkit.Rng) int { return r.Range(1, 4) })
	public := x.CfgInt("public", func(r *simkit.Rng) int { return r.Pick(1, 2) }) == 1
	vmode := x.CfgInt("version", func(r *simkit.Rng) int { return r.Intn(3) })
	fadeH := x.CfgInt("fadeout_h", func(r *simkit.Rng) int { return r.Range(1, 3) })
	clients := x.CfgInt("clients", func(r *simkit.Rng) int { return r.Range(1, 3) })
	nsteps := x.CfgInt("steps", func(r *simkit.Rng) int {
		if thorough {
			return r.Range(20, 260)
		}
		return r.Range(8, 90)
	})
	sibl := x.CfgInt("sibling_order", func(r *simkit.Rng) int { return int(r.U64() >> 40) })
	// the order in which a producer fetch walks the accounts (Go map order in production; every order
	// is legal): seeded, so that a size-limited fetch replays exactly
	porder := x.CfgInt("pool_order", func(r *simkit.Rng) int { return 1 + int(r.U64()>>40) })
	mempool.VerifSetPoolOrder(uint64(porder))
	defer mempool.VerifSetPoolOrder(0)
	if nA < 1 {
		nA = 1
	}
	if nA > 6 {
		nA = 6
	}
	if clients < 1 {
		clients = 1
	}
	if clients > 4 {
		clients = 4
	}
	if fadeH < 1 {
		fadeH = 1
	}

	var hf config.HardforkConfig
	switch vmode {
	case 0:
		hf = config.HardforkConfig{}
	case 1:
		hf = config.HardforkConfig{V2: 100000, V3: 100001, V4: 100002, V5: 100003}
	default:
		hf = config.HardforkConfig{V2: 0, V3: 100001, V4: 100002, V5: 100003}
	}

	root := fmt.Sprintf("%s/pool-%d", w.Scratch, os.Getpid())
	_ = os.RemoveAll(root)
	disk := simdisk.New(root)
	defer func() { disk.Unregister(); _ = os.RemoveAll(root) }()

	t0 := time.Date(2021, 1, 1, 0, 0, 0, 0, time.UTC)
	simclock.Set(t0)
	simclock.Skew = 0
	rs := simkit.NewRng(uint64(sibl))
	simgo.Order = func() bool { return rs.Bool() }
	defer func() { simgo.Order = nil }()
	oldTO := mempool.VerifSetEvictWorkTimeout(1000 * time.Hour)
	defer mempool.VerifSetEvictWorkTimeout(oldTO)

	e := &env{x: x, w: w, nA: nA, hf: hf, public: public, univ: map[[3]uint64]*mtx{}, byID: map[string]*mtx{},
		M: map[string]*mtx{}, settle: true, step: -1, lastTouch: make([]time.Time, nA)}
	for i := 0; i < nA; i++ {
		e.accts = append(e.accts, simnode.NewAccount("pool", i))
	}
	e.rcpt = simnode.NewAccount("pool-rcpt", 0).Addr
	e.ver = hf.Version(1)

	// chain state DB + genesis
	e.sdb = state.NewChainStateDB()
	if err := e.sdb.Init(simdisk.Impl, root, nil, false, nil); err != nil {
		panic(err)
	}
	cid := types.ChainID{Version: hf.Version(0), Magic: "verif.pool", Consensus: "dpos", PublicNet: public}
	cidb, err := cid.Bytes()
	if err != nil {
		panic(err)
	}
	gst := make([]acctState, nA)
	for i := range gst {
		gst[i] = acctState{0, new(big.Int).Set(initBal)}
	}
	groot := e.commitState(nil, nil, gst)
	gb := types.NewBlock(&types.BlockHeaderInfo{Ts: t0.UnixNano(), ChainId: cidb}, groot, nil, nil, nil, nil)
	gb.BlockHash()
	e.blocks = []*blk{{idx: 0, parent: -1, b: gb, st: gst, dirty: map[int]bool{}}}
	bi := types.NewBlockHeaderInfoFromPrevBlock(gb, 0, &hf)
	e.cidh = bi.ChainIdHash()
	e.badh = append([]byte{}, e.cidh...)
	e.badh[0] ^= 0x55

	// the pool
	ctx := config.NewServerContext("", "")
	cfg := ctx.GetDefaultConfig().(*config.Config)
	cfg.Hardfork = &hf
	cfg.Mempool.EnableFadeout = true
	cfg.Mempool.FadeoutPeriod = fadeH
	cfg.Mempool.VerifierNumber = 1
	cfg.Mempool.DumpFilePath = root + "/mempool.dump"
	e.mp = mempool.NewMemPoolService(cfg, nil)
	fee.VerifSetZeroFee(!public)
	defer fee.VerifSetZeroFee(false)
	zl := e.mp.BaseComponent.Logger.Logger.Level(zerolog.Disabled)
	e.mp.BaseComponent.Logger.Logger = &zl
	e.mp.VerifSetSDB(e.sdb)
	hub := component.NewComponentHub()
	hub.Register(&adapter{name: message.P2PSvc, n: &e.p2p}, &adapter{name: message.ChainSvc, n: &e.p2p},
		&adapter{name: message.RPCSvc, n: &e.p2p})
	e.mp.SetHub(hub)
	e.mp.VerifInit(gb)
	e.period = mempool.VerifEvictPeriod()

	x.Logf("cfg mode=%d accounts=%d public=%v ver=%d fade=%s", mode, nA, public, e.ver, e.period)
	if mode == 0 {
		e.runSequential(nsteps)
	} else {
		e.runConcurrent(nsteps, clients)
	}
	x.Out.SimMs = simclock.Now().Sub(t0).Milliseconds()
	x.Count("p2p-notify", int64(e.p2p))
	x.Count("blocks-notified", int64(e.notified))
	x.Digest(len(e.M), len(e.blocks), e.blocks[e.best].height, e.notified, mode)
}

// commitState writes the account states that differ from the parent's into a new state root.
func (e *env) commitState(parentRoot []byte, parent, st []acctState) []byte {
	sdb := e.sdb.OpenNewStateDB(parentRoot)
	for i := range st {
		if parent != nil && parent[i].nonce == st[i].nonce && parent[i].bal.Cmp(st[i].bal) == 0 {
			continue
		}
		if err := sdb.PutState(types.ToAccountID(e.accts[i].Addr), &types.State{Nonce: st[i].nonce, Balance: st[i].bal.Bytes()}); err != nil {
			panic(err)
		}
	}
	if err := sdb.Update(); err != nil {
		panic(err)
	}
	if err := sdb.Commit(); err != nil {
		panic(err)
	}
	return sdb.GetRoot()
}

// blockSpec is the generated description of one block: how many nonces each account consumes,
// whether the consumed tx is the pool's own or a conflicting one, who receives a deposit.
type blockSpec struct {
	k       []int
	fresh   int // bit a: use a conflicting body instead of the pool's tx
	deposit int // bit a
}

func specOf(s *simkit.Step) blockSpec { return blockSpec{k: s.K, fresh: s.B, deposit: s.C} }

// mkBlock grows the tree by one block on parent.
func (e *env) mkBlock(parent int, sp blockSpec) *blk {
	p := e.blocks[parent]
	st := make([]acctState, e.nA)
	b := &blk{idx: len(e.blocks), parent: parent, height: p.height + 1, dirty: map[int]bool{}}
	for a := 0; a < e.nA; a++ {
		st[a] = acctState{p.st[a].nonce, new(big.Int).Set(p.st[a].bal)}
		if sp.deposit>>uint(a)&1 == 1 {
			st[a].bal.Add(st[a].bal, deposit)
		}
		k := 0
		if a < len(sp.k) {
			k = sp.k[a]
		}
		for i := 0; i < k && i < 8; i++ {
			n := st[a].nonce + 1
			var t *mtx
			if sp.fresh>>uint(a)&1 == 0 {
				t = e.hasNonce(a, n)
			}
			if t == nil {
				t = e.txOf(a, n, vBlockA+b.height%2)
			}
			cost := new(big.Int).Add(amountOf(t.v), blkFee)
			if st[a].bal.Cmp(cost) < 0 {
				break
			}
			st[a].bal.Sub(st[a].bal, cost)
			st[a].nonce = n
			b.txs = append(b.txs, t)
			b.dirty[a] = true
		}
	}
	b.st = st
	root := e.commitState(p.b.GetHeader().GetBlocksRootHash(), p.st, st)
	var txs []*types.Tx
	for _, t := range b.txs {
		txs = append(txs, t.tx)
	}
	bi := types.NewBlockHeaderInfoFromPrevBlock(p.b, simclock.Now().UnixNano()+int64(b.idx), &e.hf)
	b.b = types.NewBlock(bi, root, nil, txs, nil, nil)
	b.b.BlockHash()
	e.blocks = append(e.blocks, b)
	return b
}

// ancestor returns the index of the ancestor `depth` blocks below b (clamped at genesis).
func (e *env) ancestor(b, depth int) int {
	for ; depth > 0 && e.blocks[b].parent >= 0; depth-- {
		b = e.blocks[b].parent
	}
	return b
}
