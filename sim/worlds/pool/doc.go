// Package pool: see DESIGN.md section 4.
package pool
