package pool

import (
	"fmt"
	"math"
	"runtime/debug"
	"sort"
	"strings"

	"github.com/aergoio/aergo/v2/internal/enc/proto"
	"github.com/aergoio/aergo/v2/mempool"
	"github.com/aergoio/aergo/v2/types"
	"github.com/aergoio/aergo/v2/zz_verif/simclock"
)

// op is one call into the pool.
type op struct {
	kind  string // put remove get report exist block evict
	task  int
	t     *mtx
	max   uint32
	accts []int // report: explicit accounts (nil = every account the pool holds)
	b     *blk
	hand  bool // put: hand-back after a reorg
	// results
	err   error
	txs   []types.Transaction
	rep   []mempool.VerifReport
	found *types.Tx
	pan   interface{}
	stack string
	// history
	call, ret int64
	raced     bool
	in        *linIn
	out       *linOut
}

const unlimited = math.MaxUint32

func (e *env) addrs(idx []int) []types.Address {
	if idx == nil {
		return nil
	}
	out := make([]types.Address, 0, len(idx))
	for _, a := range idx {
		if a >= 0 && a < e.nA {
			out = append(out, types.Address(e.accts[a].Addr))
		}
	}
	return out
}

// perform is the only place that calls into the pool on behalf of a task. A panic of the pool
// is kept in the op.
func (e *env) perform(o *op) {
	defer func() {
		if r := recover(); r != nil {
			o.pan = r
			o.stack = string(debug.Stack())
		}
	}()
	switch o.kind {
	case "put":
		o.err = e.mp.VerifPut(o.t.tx)
	case "remove":
		o.err = e.mp.VerifRemoveTx(o.t.tx)
	case "get":
		o.txs, o.err = e.mp.VerifGet(o.max)
	case "report":
		o.rep = e.mp.VerifGetUnconfirmed(e.addrs(o.accts), false)
	case "exist":
		o.found = e.mp.VerifExist(o.t.tx.Hash)
	case "block":
		o.err = e.mp.VerifOnBlock(o.b.b)
	case "evict":
		e.mp.VerifEvict()
	default:
		panic("unknown op " + o.kind)
	}
}

func errClass(err error) string {
	switch err {
	case nil:
		return "ok"
	case types.ErrTxAlreadyInMempool:
		return "dup-hash"
	case types.ErrSameNonceAlreadyInMempool:
		return "dup-nonce"
	case types.ErrTxNonceTooLow:
		return "low"
	case types.ErrInsufficientBalance:
		return "bal"
	case types.ErrTxInvalidChainIdHash:
		return "chainid"
	case types.ErrTxNotFound:
		return "notfound"
	}
	return "other:" + err.Error()
}

// listView is one per-account list of the real pool, translated to universe entries.
type listView struct {
	a     int
	base  uint64
	ready int
	txs   []*mtx
}

// dump reads the pool's per-account lists and checks what must hold of them at any time:
// every entry is a known tx filed under its own account, nonces strictly ascending (no two
// entries share account and nonce), no hash twice.
func (e *env) dump(sig string) (map[string]*mtx, []listView, bool) {
	raw := e.mp.VerifDump()
	H := map[string]*mtx{}
	var lists []listView
	seenAcct := map[int]bool{}
	for _, l := range raw {
		a := -1
		for i, ac := range e.accts {
			if string(ac.Addr) == string(l.Account) {
				a = i
			}
		}
		if a < 0 {
			e.fail("phantom-entry", sig, fmt.Sprintf("pool holds a list for an account nobody used: %x", l.Account))
			return nil, nil, false
		}
		if seenAcct[a] {
			e.fail("duplicate-account-list", sig, fmt.Sprintf("two lists for account %d", a))
			return nil, nil, false
		}
		seenAcct[a] = true
		lv := listView{a: a, base: l.BaseNonce, ready: l.Ready}
		for i, tx := range l.Txs {
			t := e.byID[string(tx.GetHash())]
			if t == nil {
				e.fail("phantom-entry", sig, fmt.Sprintf("account %d holds a tx that was never submitted (nonce %d)", a, tx.GetBody().GetNonce()))
				return nil, nil, false
			}
			if t.a != a {
				e.fail("wrong-account-list", sig, fmt.Sprintf("tx %s filed under account %d", t, a))
				return nil, nil, false
			}
			if i > 0 {
				p := lv.txs[i-1]
				if p.n == t.n {
					e.fail("duplicate-account-nonce", sig, fmt.Sprintf("account %d holds two txs with nonce %d: %s and %s", a, t.n, p, t))
					return nil, nil, false
				}
				if p.n > t.n {
					e.fail("list-unsorted", sig, fmt.Sprintf("account %d: nonce %d listed before %d", a, p.n, t.n))
					return nil, nil, false
				}
			}
			if _, dup := H[t.id]; dup {
				e.fail("duplicate-hash", sig, fmt.Sprintf("tx %s is held twice", t))
				return nil, nil, false
			}
			H[t.id] = t
			lv.txs = append(lv.txs, t)
		}
		if lv.ready < 0 || lv.ready > len(lv.txs) {
			e.fail("ready-out-of-range", sig, fmt.Sprintf("account %d: ready=%d of %d", a, lv.ready, len(lv.txs)))
			return nil, nil, false
		}
		lists = append(lists, lv)
	}
	sort.Slice(lists, func(i, j int) bool { return lists[i].a < lists[j].a })
	return H, lists, true
}

func names(ts []*mtx) string {
	var s []string
	for _, t := range ts {
		s = append(s, t.String())
	}
	return "[" + strings.Join(s, " ") + "]"
}

func sortedTxs(m map[string]*mtx) []*mtx {
	out := make([]*mtx, 0, len(m))
	for _, t := range m {
		out = append(out, t)
	}
	sort.Slice(out, func(i, j int) bool { return out[i].ord < out[j].ord })
	return out
}

// complete advances the model by one returned operation and judges its result. It always runs
// on the controller, in the same segment in which the operation's critical section ran.
func (e *env) complete(o *op) {
	x := e.x
	if o.pan != nil {
		x.Logf("  %s panicked: %v", o.kind, o.pan)
		e.fail("pool-panic", o.kind, fmt.Sprintf("the pool panicked in %s: %v\n%s", o.kind, o.pan, o.stack))
		return
	}
	o.out = &linOut{}
	switch o.kind {
	case "put":
		cls := errClass(o.err)
		o.out.cls = cls
		t := o.t
		st := e.cur_(t.a)
		pred := "ok"
		switch {
		case t.v == vBadChain:
			pred = "chainid"
		case e.M[t.id] != nil:
			pred = "dup-hash"
		case t.n <= st.nonce:
			pred = "low"
		case e.unaffordable(t, st.bal):
			pred = "bal"
		case e.hasNonce(t.a, t.n) != nil:
			pred = "dup-nonce"
		}
		x.Logf("  put %s -> %s (model %s)%s", t, cls, pred, map[bool]string{true: " handback", false: ""}[o.hand])
		x.Count("put."+strings.SplitN(cls, ":", 2)[0], 1)
		if cls == "ok" {
			if e.M[t.id] != nil {
				e.fail("accepted-duplicate-hash", "put", fmt.Sprintf("tx %s was admitted although the pool already holds it", t))
				return
			}
			if d := e.hasNonce(t.a, t.n); d != nil {
				e.fail("accepted-duplicate-nonce", "put", fmt.Sprintf("tx %s was admitted although the pool holds %s with the same account and nonce", t, d))
				return
			}
			if t.n <= st.nonce {
				e.fail("accepted-stale-nonce", "put", fmt.Sprintf("tx %s was admitted although the account's nonce in the state is %d", t, st.nonce))
				return
			}
			before := runLen(e.entries(t.a), st.nonce)
			e.M[t.id] = t
			after := runLen(e.entries(t.a), st.nonce)
			e.touch(t.a)
			if after-before >= 4 {
				x.Probe("gap-fill-3-orphans-ready")
			} else if after-before >= 2 {
				x.Probe("gap-fill")
			}
			if after == before {
				x.Probe("orphan-admitted")
			}
			if o.hand {
				x.Probe("handback-readmitted")
			}
			if pred != "ok" {
				// only an affordability verdict taken on an older state can explain this (put validates
				// outside the lock); C13 says nothing about balances, so the pool's decision is followed
				x.Count("accepted-against-model."+pred+map[bool]string{true: ".concurrent", false: ".sequential"}[e.sched != nil], 1)
			}
		} else {
			if pred == "ok" && e.settle {
				x.Count("unpredicted-reject."+strings.SplitN(cls, ":", 2)[0], 1)
			}
			if cls == "dup-nonce" && e.M[t.id] == nil {
				x.Probe("same-nonce-other-body-refused")
			}
			if cls == "dup-hash" {
				x.Probe("same-hash-refused")
			}
		}
		if o.raced {
			x.Probe("put-raced-block-same-account")
			if cls == "low" {
				x.Probe("put-validated-then-too-low")
			}
		}
	case "remove":
		cls := errClass(o.err)
		o.out.cls = cls
		x.Logf("  remove %s -> %s", o.t, cls)
		if cls == "ok" {
			st := e.cur_(o.t.a)
			ents := e.entries(o.t.a)
			rl := runLen(ents, st.nonce)
			if e.M[o.t.id] != nil && rl > 0 && o.t.n < ents[rl-1].n && o.t.n > st.nonce {
				x.Probe("remove-makes-ready-orphan")
			}
			delete(e.M, o.t.id)
			e.touch(o.t.a)
		}
	case "exist":
		o.out.found = o.found != nil
		x.Logf("  exist %s -> %v", o.t, o.found != nil)
		if (o.found != nil) != (e.M[o.t.id] != nil) {
			e.fail("exist-mismatch", "exist", fmt.Sprintf("existence query for %s says %v, the pool %s it", o.t, o.found != nil,
				map[bool]string{true: "holds", false: "does not hold"}[e.M[o.t.id] != nil]))
			return
		}
		if o.found != nil && string(o.found.GetHash()) != o.t.id {
			e.fail("exist-mismatch", "exist-other", fmt.Sprintf("existence query for %s returned another tx", o.t))
			return
		}
	case "get":
		if o.err != nil {
			x.Logf("  get -> error %v", o.err)
		}
		seqs, ok := e.checkGet(o.txs, o.max, "get")
		if !ok {
			return
		}
		o.out.seqs = seqs
		if o.max == unlimited {
			x.Logf("  get -> %s", fmtSeqs(seqs))
		} else {
			// which accounts a size-limited fetch reaches depends on Go map order (every order is legal):
			// the result is judged above but kept out of the determinism log
			x.Logf("  get max=%d -> judged", o.max)
		}
	case "report":
		if !e.checkReport(o.rep, o.accts, "report") {
			return
		}
		x.Logf("  report %v -> %d accounts", o.accts, len(o.rep))
	case "block":
		e.completeBlock(o)
	case "evict":
		H, _, ok := e.dump("evict")
		if !ok {
			return
		}
		var gone []*mtx
		goneAcct := map[int]bool{}
		for _, t := range sortedTxs(e.M) {
			if H[t.id] == nil {
				gone = append(gone, t)
				goneAcct[t.a] = true
			}
		}
		now := simclock.Now()
		for a := 0; a < e.nA; a++ {
			ents := e.entries(a)
			if len(ents) == 0 {
				continue
			}
			want := !e.lastTouch[a].After(now.Add(-e.period))
			if want != goneAcct[a] {
				x.Count("evict-prediction-mismatch", 1)
			}
			if goneAcct[a] {
				x.Fault("evict-account")
				if runLen(ents, e.cur_(a).nonce) < len(ents) {
					x.Probe("evict-account-with-orphans")
				}
			}
		}
		for _, t := range gone {
			delete(e.M, t.id)
			o.out.removed = append(o.out.removed, t.id)
		}
		x.Logf("  evict -> gone %s", names(gone))
	}
}

func (e *env) touch(a int) { e.lastTouch[a] = simclock.Now() }

func (e *env) completeBlock(o *op) {
	x := e.x
	b := o.b
	prev := e.blocks[e.best]
	child := b.parent == e.best
	o.out.cls = errClass(o.err)
	if b.idx == e.best {
		x.Logf("  block %d re-notified", b.idx)
		return
	}
	H, _, ok := e.dump("block")
	if !ok {
		return
	}
	rewind := false
	for a := 0; a < e.nA; a++ {
		if b.st[a].nonce < prev.st[a].nonce {
			rewind = true
		}
	}
	var gone []*mtx
	for _, t := range sortedTxs(e.M) {
		scanned := child || b.dirty[t.a]
		stale := t.n <= b.st[t.a].nonce
		_, held := H[t.id]
		if stale && held && scanned {
			e.best = b.idx
			e.fail("stale-after-block", map[bool]string{true: "child", false: "branch"}[child],
				fmt.Sprintf("after the notification of block %d (height %d) the pool still holds %s, the account's nonce in that block's state is %d", b.idx, b.height, t, b.st[t.a].nonce))
			return
		}
		if !held {
			gone = append(gone, t)
			if !stale {
				if !e.unaffordable(t, b.st[t.a].bal) {
					e.best = b.idx
					e.fail("lost-tx", "block", fmt.Sprintf("the notification of block %d dropped %s although the account's state is nonce %d balance %s (neither stale nor unaffordable)", b.idx, t, b.st[t.a].nonce, b.st[t.a].bal))
					return
				}
				x.Probe("block-dropped-unaffordable")
				ents := e.entries(t.a)
				if len(ents) > 0 && ents[len(ents)-1].n > t.n {
					x.Probe("balance-filter-opened-gap")
				}
			}
		}
	}
	for a := 0; a < e.nA; a++ {
		if len(e.entries(a)) > 0 && (child || b.dirty[a]) && prev.st[a].nonce != b.st[a].nonce {
			e.touch(a)
		}
	}
	for _, t := range gone {
		delete(e.M, t.id)
		o.out.removed = append(o.out.removed, t.id)
	}
	if !child {
		e.settle = false
		x.Probe("branch-notification")
	} else {
		if !e.settle {
			x.Probe("reorg-settled")
		}
		e.settle = true
	}
	e.best = b.idx
	e.notified++
	if rewind {
		x.Fault("state-rewind")
	}
	if len(gone) > 0 {
		x.Probe("block-removed-txs")
	}
	for _, p := range e.cur {
		if p != nil && p != o && p.kind == "put" && prev.st[p.t.a].nonce != b.st[p.t.a].nonce {
			p.raced = true
		}
	}
	x.Logf("  block %d (parent %d height %d child=%v txs=%s) -> gone %s", b.idx, b.parent, b.height, child, names(b.txs), names(gone))
}

func fmtSeqs(seqs [][]*mtx) string {
	var s []string
	for _, q := range seqs {
		if len(q) > 0 {
			s = append(s, names(q))
		}
	}
	return strings.Join(s, " ")
}

// checkGet judges what the pool handed to a block producer. Accounts come in Go map order and
// are canonicalised; within an account the order is the pool's.
func (e *env) checkGet(txs []types.Transaction, max uint32, sig string) ([][]*mtx, bool) {
	seqs := make([][]*mtx, e.nA)
	closed := map[int]bool{}
	last := -1
	total := 0
	var orderSeen []int
	for _, tx := range txs {
		t := e.byID[string(tx.GetHash())]
		if t == nil {
			e.fail("phantom-entry", sig, "the pool offered a tx that was never submitted")
			return nil, false
		}
		if t.a != last {
			if last >= 0 {
				closed[last] = true
			}
			if closed[t.a] {
				e.fail("get-wrong-run", sig, fmt.Sprintf("account %d appears in two separate groups of one fetch", t.a))
				return nil, false
			}
			last = t.a
			orderSeen = append(orderSeen, t.a)
		}
		seqs[t.a] = append(seqs[t.a], t)
		total += proto.Size(tx.GetTx())
	}
	// what must hold in any case: ascending nonces without repetition inside an account
	for a, q := range seqs {
		for i := 1; i < len(q); i++ {
			if q[i].n <= q[i-1].n {
				e.fail("get-wrong-run", sig, fmt.Sprintf("account %d offered out of nonce order: %s", a, names(q)))
				return nil, false
			}
		}
	}
	if max != unlimited && uint32(total) > max {
		e.fail("get-over-limit", sig, fmt.Sprintf("fetch with limit %d returned %d bytes", max, total))
		return nil, false
	}
	if !e.settle {
		return seqs, true
	}
	incomplete := false
	truncated := -1
	for a := 0; a < e.nA; a++ {
		ents := e.entries(a)
		run := ents[:runLen(ents, e.cur_(a).nonce)]
		q := seqs[a]
		if len(q) > len(run) {
			e.fail("get-wrong-run", sig, fmt.Sprintf("account %d (state nonce %d): offered %s, executable run is %s", a, e.cur_(a).nonce, names(q), names(run)))
			return nil, false
		}
		for i := range q {
			if q[i] != run[i] {
				e.fail("get-wrong-run", sig, fmt.Sprintf("account %d (state nonce %d): offered %s, executable run is %s", a, e.cur_(a).nonce, names(q), names(run)))
				return nil, false
			}
		}
		if len(q) < len(run) {
			if max == unlimited {
				e.fail("get-wrong-run", sig, fmt.Sprintf("account %d (state nonce %d): offered %s, executable run is %s", a, e.cur_(a).nonce, names(q), names(run)))
				return nil, false
			}
			incomplete = true
			if len(q) > 0 {
				if truncated >= 0 {
					e.fail("get-withheld", sig, "two accounts were cut short by one size limit")
					return nil, false
				}
				truncated = a
			}
		}
	}
	if incomplete {
		e.x.Probe("get-cut-by-size-limit")
		// the cut must be explained by the limit: the next tx of the account that was cut, or the first
		// tx of some account that was left out, does not fit
		explained := false
		for a := 0; a < e.nA; a++ {
			ents := e.entries(a)
			run := ents[:runLen(ents, e.cur_(a).nonce)]
			if len(seqs[a]) < len(run) && (truncated < 0 || truncated == a) {
				next := run[len(seqs[a])]
				if uint32(total+proto.Size(next.tx)) > max {
					explained = true
				}
			}
		}
		if truncated >= 0 && len(orderSeen) > 0 && orderSeen[len(orderSeen)-1] != truncated {
			explained = false
		}
		if !explained {
			e.fail("get-withheld", sig, fmt.Sprintf("fetch with limit %d returned %d bytes and left out executable txs that fit", max, total))
			return nil, false
		}
	}
	return seqs, true
}

// checkReport judges the unconfirmed-transaction report.
func (e *env) checkReport(rep []mempool.VerifReport, asked []int, sig string) bool {
	byAddr := map[string]int{}
	for i, a := range e.accts {
		byAddr[types.EncodeAddress(a.Addr)] = i
	}
	seen := map[int]bool{}
	for _, r := range rep {
		a, ok := byAddr[r.Address]
		if !ok {
			e.fail("report-mismatch", sig, "report names an unknown account "+r.Address)
			return false
		}
		if seen[a] && asked == nil {
			e.fail("report-mismatch", sig, fmt.Sprintf("account %d reported twice", a))
			return false
		}
		seen[a] = true
		ents := e.entries(a)
		var ids []string
		for _, t := range ents {
			ids = append(ids, types.ToTxID(t.tx.Hash).String())
		}
		got := append(append([]string{}, r.Pooled...), r.Orphaned...)
		if r.PooledCount != len(r.Pooled) || r.OrphanedCount != len(r.Orphaned) {
			e.fail("report-mismatch", sig, fmt.Sprintf("account %d: counts %d/%d but %d/%d ids", a, r.PooledCount, r.OrphanedCount, len(r.Pooled), len(r.Orphaned)))
			return false
		}
		if strings.Join(got, ",") != strings.Join(ids, ",") {
			e.fail("report-mismatch", sig, fmt.Sprintf("account %d: report lists %d+%d txs, the pool holds %s", a, len(r.Pooled), len(r.Orphaned), names(ents)))
			return false
		}
		if e.settle {
			if rl := runLen(ents, e.cur_(a).nonce); rl != len(r.Pooled) {
				e.fail("report-mismatch", sig, fmt.Sprintf("account %d (state nonce %d) holds %s: %d are executable, the report says %d pooled / %d orphaned", a, e.cur_(a).nonce, names(ents), rl, len(r.Pooled), len(r.Orphaned)))
				return false
			}
		}
	}
	if asked == nil {
		for a := 0; a < e.nA; a++ {
			if len(e.entries(a)) > 0 && !seen[a] {
				e.fail("report-mismatch", sig, fmt.Sprintf("account %d holds %s but is missing from the report", a, names(e.entries(a))))
				return false
			}
		}
	}
	return true
}

// observe evaluates the C13 invariants against the model. It runs on the controller between
// segments (nobody holds the pool lock).
func (e *env) observe(sig string) {
	if e.x.Failed() {
		return
	}
	H, lists, ok := e.dump(sig)
	if !ok {
		return
	}
	if e.settle {
		for _, t := range sortedTxs(H) {
			if t.n <= e.cur_(t.a).nonce {
				e.fail("stale-entry", sig, fmt.Sprintf("the pool holds %s, the account's nonce in the state is %d", t, e.cur_(t.a).nonce))
				return
			}
		}
	}
	var missing, extra []*mtx
	for _, t := range sortedTxs(e.M) {
		if H[t.id] == nil {
			missing = append(missing, t)
		}
	}
	for _, t := range sortedTxs(H) {
		if e.M[t.id] == nil {
			extra = append(extra, t)
		}
	}
	if len(missing)+len(extra) > 0 {
		e.fail("content-mismatch", sig, fmt.Sprintf("pool content differs from the model after %s: missing %s, unexpected %s", sig, names(missing), names(extra)))
		return
	}
	orph := 0
	empty := 0
	for _, l := range lists {
		orph += len(l.txs) - l.ready
		if len(l.txs) == 0 {
			empty++
		}
	}
	if empty > 0 {
		e.x.Probe("empty-list-left-in-pool")
	}
	length, orphan, cached := e.mp.VerifCounters()
	if length != len(H) {
		e.fail("counter-drift", "length", fmt.Sprintf("the pool reports %d txs and holds %d (after %s)", length, len(H), sig))
		return
	}
	if orphan != orph {
		e.fail("counter-drift", "orphan", fmt.Sprintf("the pool reports %d orphans, its lists hold %d beyond their ready prefix (after %s)", orphan, orph, sig))
		return
	}
	if cached != len(H) {
		e.fail("counter-drift", "cache", fmt.Sprintf("the hash index has %d entries, the lists hold %d txs (after %s)", cached, len(H), sig))
		return
	}
	if l2, o2 := e.mp.Size(); l2 != length || o2 != orphan {
		e.fail("stat-mismatch", "size", fmt.Sprintf("Size() = %d,%d counters %d,%d", l2, o2, length, orphan))
		return
	}
	st := *e.mp.Statistics()
	if st["total"] != length || st["orphan"] != orphan {
		e.fail("stat-mismatch", "statistics", fmt.Sprintf("Statistics() = %v,%v counters %d,%d", st["total"], st["orphan"], length, orphan))
		return
	}
	modelOrph := 0
	if e.settle {
		for _, l := range lists {
			ents := e.entries(l.a)
			rl := runLen(ents, e.cur_(l.a).nonce)
			modelOrph += len(ents) - rl
			if l.ready != rl {
				e.fail("ready-mismatch", sig, fmt.Sprintf("account %d (state nonce %d) holds %s: %d are executable, the list's ready prefix is %d", l.a, e.cur_(l.a).nonce, names(l.txs), rl, l.ready))
				return
			}
		}
		if modelOrph > 0 {
			e.x.Count("observed-with-orphans", 1)
		}
		txs, err := e.mp.VerifGet(unlimited)
		if err != nil {
			e.fail("get-error", sig, err.Error())
			return
		}
		if _, ok := e.checkGet(txs, unlimited, sig); !ok {
			return
		}
		ids, more := e.mp.VerifListHash(512)
		want := map[string]bool{}
		for a := 0; a < e.nA; a++ {
			ents := e.entries(a)
			for _, t := range ents[:runLen(ents, e.cur_(a).nonce)] {
				want[types.ToTxID(t.tx.Hash).String()] = true
			}
		}
		if more || len(ids) != len(want) {
			e.fail("listhash-mismatch", sig, fmt.Sprintf("hash listing has %d entries (more=%v), %d txs are executable", len(ids), more, len(want)))
			return
		}
		for _, id := range ids {
			if !want[id.String()] {
				e.fail("listhash-mismatch", sig, "hash listing names a tx that is not executable")
				return
			}
		}
	}
	if !e.checkReport(e.mp.VerifGetUnconfirmed(nil, false), nil, sig) {
		return
	}
	cnt := e.mp.VerifGetUnconfirmed(nil, true)
	p, o := 0, 0
	for _, r := range cnt {
		p += r.PooledCount
		o += r.OrphanedCount
	}
	if p+o != length || o != orphan {
		e.fail("report-mismatch", "counts", fmt.Sprintf("tx statistics report %d pooled / %d orphaned, counters say total %d orphan %d", p, o, length, orphan))
		return
	}
	for _, t := range e.order {
		if got := e.mp.VerifExist(t.tx.Hash); (got != nil) != (e.M[t.id] != nil) {
			e.fail("exist-mismatch", sig, fmt.Sprintf("existence query for %s says %v, the pool %s it", t, got != nil,
				map[bool]string{true: "holds", false: "does not hold"}[e.M[t.id] != nil]))
			return
		}
	}
	e.x.Count("observations", 1)
}
