package pool

import (
	"fmt"
	"sort"
	"time"

	"github.com/aergoio/aergo/v2/zz_verif/simclock"
	"github.com/aergoio/aergo/v2/zz_verif/simkit"
	"github.com/aergoio/aergo/v2/zz_verif/simsync"
)

// Step vocabulary (both modes):
//   put/remove/exist {A account, N nonce, B variant, C client}   get {V limit, 0 = none}
//   report {K accounts, empty = all held}                         evict    tick {V minutes}
//   block {K nonces consumed per account, B conflicting-body bits, C deposit bits}
//   fork {N depth below the pool's best, X block specs of the new branch, V hand-back order seed}
//   yield {N task}                                                (concurrent mode only)
// In sequential mode every step is executed to completion. In concurrent mode a step other than
// yield/tick invokes the operation on its task (clients 0..k-1, producer k, block task k+1) if that
// task is idle; the task then runs up to its first lock request.

const (
	roleClient = iota
	roleProducer
	roleBlock
)

// build turns a step into the operations it stands for (nil = the step has become a no-op).
func (e *env) build(st *simkit.Step) ([]*op, int) {
	switch st.Op {
	case "put", "remove", "exist":
		if st.A < 0 || st.A >= e.nA || st.B < 0 || st.B >= nVariants || st.N < 0 || st.N > 1<<20 {
			return nil, 0
		}
		return []*op{{kind: st.Op, t: e.txOf(st.A, uint64(st.N), st.B)}}, roleClient
	case "get":
		max := uint32(unlimited)
		if st.V > 0 && st.V < 1<<30 {
			max = uint32(st.V)
		}
		return []*op{{kind: "get", max: max}}, roleProducer
	case "report":
		var ac []int
		for _, a := range st.K {
			if a >= 0 && a < e.nA {
				ac = append(ac, a)
			}
		}
		return []*op{{kind: "report", accts: ac}}, roleProducer
	case "evict":
		return []*op{{kind: "evict"}}, roleBlock
	case "block":
		b := e.mkBlock(e.best, specOf(st))
		return []*op{{kind: "block", b: b}}, roleBlock
	case "fork":
		base := e.ancestor(e.best, st.N)
		depth := e.blocks[e.best].height - e.blocks[base].height
		if depth <= 0 || len(st.X) <= depth {
			return nil, 0
		}
		// the abandoned branch
		old := map[string]*mtx{}
		for b := e.best; b != base; b = e.blocks[b].parent {
			for _, t := range e.blocks[b].txs {
				old[t.id] = t
			}
		}
		var ops []*op
		p := base
		for i := range st.X {
			nb := e.mkBlock(p, specOf(&st.X[i]))
			p = nb.idx
			for _, t := range nb.txs {
				delete(old, t.id)
			}
			ops = append(ops, &op{kind: "block", b: nb})
		}
		// hand-back of the abandoned txs (the chain service iterates a Go map here: every order is legal)
		hb := sortedTxs(old)
		perm := simkit.NewRng(uint64(st.V)).Perm(len(hb))
		for _, i := range perm {
			ops = append(ops, &op{kind: "put", t: hb[i], hand: true})
		}
		e.x.Fault("reorg")
		e.x.Count(fmt.Sprintf("reorg-depth-%d", depth), 1)
		if len(hb) > 0 {
			e.x.Probe("reorg-with-handback")
		}
		return ops, roleBlock
	}
	return nil, 0
}

func (e *env) tick(st *simkit.Step) {
	m := st.V
	if m < 0 {
		m = 0
	}
	if m > 600 {
		m = 600
	}
	simclock.Advance(time.Duration(m) * time.Minute)
	e.x.Logf("  tick %dm", m)
}

// ---- sequential mode -------------------------------------------------------------------

func (e *env) runSequential(nsteps int) {
	x := e.x
	e.observe("init")
	for i := 0; !x.Failed(); i++ {
		st, idx := x.Next(func(r *simkit.Rng) *simkit.Step {
			if i >= nsteps {
				return nil
			}
			return e.gen(r, false, 0)
		})
		if st == nil {
			break
		}
		e.step = idx
		if st.Op == "tick" {
			e.tick(st)
			continue
		}
		ops, _ := e.build(st)
		if ops == nil {
			x.Noop()
			continue
		}
		for _, o := range ops {
			e.perform(o)
			e.complete(o)
			if x.Failed() {
				break
			}
			e.observe(o.kind)
		}
	}
}

// ---- concurrent mode -------------------------------------------------------------------

func (e *env) taskOf(role, client int) int {
	k := len(e.queue) - 2
	switch role {
	case roleProducer:
		return k
	case roleBlock:
		return k + 1
	}
	if client < 0 {
		client = 0
	}
	return client % k
}

func (e *env) busy(t int) bool { return e.cur[t] != nil || len(e.queue[t]) > 0 }

func (e *env) quiescent() bool {
	for t := range e.queue {
		if e.busy(t) {
			return false
		}
	}
	return true
}

// canAdvance: a yield to task t would do something.
func (e *env) canAdvance(t int) bool {
	if t < 0 || t >= len(e.queue) {
		return false
	}
	if e.cur[t] != nil {
		return e.sched.Enabled(t)
	}
	return len(e.queue[t]) > 0
}

// advance lets task t run one segment: start its next queued operation, or resume it at the lock
// it is parked at.
func (e *env) advance(t int) {
	var done bool
	if o := e.cur[t]; o != nil {
		done = e.sched.Resume(t)
	} else {
		o := e.queue[t][0]
		e.queue[t] = e.queue[t][1:]
		o.task = t
		e.seq++
		o.call = e.seq
		o.in = &linIn{kind: o.kind, t: o.t, max: o.max, b: o.b}
		e.cur[t] = o
		e.hist = append(e.hist, o)
		e.x.Logf("  task %d invokes %s", t, o.kind)
		done = e.sched.Start(t, func() { e.perform(o) })
	}
	o := e.cur[t]
	if !done {
		e.x.Logf("  task %d parked (%s)", t, o.kind)
		if o.kind == "put" {
			e.x.Probe("put-parked-between-validation-and-insertion")
		}
		return
	}
	e.seq++
	o.ret = e.seq
	e.cur[t] = nil
	if tp := e.sched.Tasks[t].Panic; tp != nil && o.pan == nil {
		o.pan, o.stack = tp, e.sched.Tasks[t].Stack
	}
	if o.kind == "block" {
		o.in.child = o.b.parent == e.best
	}
	e.complete(o)
	if !e.x.Failed() {
		e.observe(o.kind)
	}
}

func (e *env) runConcurrent(nsteps, clients int) {
	x := e.x
	nT := clients + 2
	e.sched = simsync.Install(nT)
	defer func() {
		if n := e.sched.Uninstall(); n > 0 {
			x.Count("tasks-abandoned", int64(n))
		}
		x.Count("lock-parks", e.sched.Parks)
	}()
	e.queue = make([][]*op, nT)
	e.cur = make([]*op, nT)
	e.observe("init")
	e.resetHist()
	for i := 0; !x.Failed(); i++ {
		st, idx := x.Next(func(r *simkit.Rng) *simkit.Step {
			if i >= nsteps {
				return nil
			}
			return e.gen(r, true, clients)
		})
		if st == nil {
			break
		}
		e.step = idx
		switch st.Op {
		case "tick":
			e.tick(st)
		case "yield":
			if e.canAdvance(st.N) {
				e.advance(st.N)
			} else {
				if st.N >= 0 && st.N < nT && e.cur[st.N] != nil {
					x.Count("yield-to-blocked-task", 1)
				}
				x.Noop()
			}
		default:
			role := roleClient
			switch st.Op {
			case "get", "report":
				role = roleProducer
			case "block", "fork", "evict":
				role = roleBlock
			}
			t := e.taskOf(role, st.C)
			if role != roleClient {
				t = e.taskOf(role, 0)
			}
			if e.busy(t) {
				x.Noop()
				continue
			}
			ops, _ := e.build(st)
			if ops == nil {
				x.Noop()
				continue
			}
			e.queue[t] = ops
			e.advance(t)
		}
		if e.quiescent() && len(e.hist) >= 6 {
			e.checkHistory()
		}
	}
	// drain: finish what is in flight, lowest task index first
	e.step = len(x.Case.Steps) - 1
	for {
		progressed := false
		for t := 0; t < nT; t++ {
			if e.canAdvance(t) {
				e.advance(t)
				progressed = true
				break
			}
		}
		if !progressed {
			break
		}
	}
	if !e.quiescent() {
		var stuck []int
		for t := range e.cur {
			if e.cur[t] != nil {
				stuck = append(stuck, t)
			}
		}
		sort.Ints(stuck)
		e.fail("deadlock", "pool-lock", fmt.Sprintf("tasks %v wait for the pool lock and nobody can release it", stuck))
		return
	}
	e.checkHistory()
}

// ---- generators --------------------------------------------------------------------------

func (e *env) genPutLike(r *simkit.Rng, kind string, clients int) *simkit.Step {
	a := r.Intn(e.nA)
	cur := e.cur_(a).nonce
	ents := e.entries(a)
	var n uint64
	v := 0
	if kind != "put" {
		// removal / existence query: mostly something the pool holds
		if len(ents) > 0 && r.Chance(4, 5) {
			t := ents[r.Intn(len(ents))]
			return &simkit.Step{Op: kind, A: a, N: int(t.n), B: t.v, C: r.Intn(clients + 1)}
		}
		if len(e.order) > 0 {
			t := e.order[r.Intn(len(e.order))]
			return &simkit.Step{Op: kind, A: t.a, N: int(t.n), B: t.v, C: r.Intn(clients + 1)}
		}
	}
	switch r.Pick(30, 22, 14, 8, 14, 12) {
	case 0: // lowest missing nonce: extends the run or fills the gap
		n = cur + 1
		for _, t := range ents {
			if t.n == n {
				n++
			}
		}
	case 1:
		n = cur + 1 + uint64(r.Intn(8))
	case 2: // a nonce the pool already holds for this account
		if len(ents) > 0 {
			t := ents[r.Intn(len(ents))]
			n = t.n
			if r.Bool() {
				v = t.v
			} else {
				v = []int{0, 1, 5}[r.Intn(3)]
			}
			return &simkit.Step{Op: kind, A: a, N: int(n), B: v, C: r.Intn(clients + 1)}
		}
		n = cur + 2
	case 3: // at or below the state nonce
		d := uint64(r.Intn(3))
		if d > cur {
			d = cur
		}
		n = cur - d
	case 4: // just above the highest held nonce
		n = cur + 1
		if len(ents) > 0 {
			n = ents[len(ents)-1].n + 1 + uint64(r.Intn(2))
		}
	default: // just below the lowest orphan: fills gaps downwards
		n = cur + 1 + uint64(r.Intn(4))
		rl := runLen(ents, cur)
		if rl < len(ents) && ents[rl].n > cur+1 {
			n = ents[rl].n - 1
		}
	}
	v = []int{0, 0, 0, 0, 0, 0, 1, 5, 2, 2, 3, vBadChain}[r.Intn(12)]
	return &simkit.Step{Op: kind, A: a, N: int(n), B: v, C: r.Intn(clients + 1)}
}

func (e *env) genBlockSpec(r *simkit.Rng) simkit.Step {
	s := simkit.Step{Op: "block", K: make([]int, e.nA)}
	for a := 0; a < e.nA; a++ {
		ents := e.entries(a)
		rl := runLen(ents, e.cur_(a).nonce)
		switch r.Pick(4, 3, 2, 1) {
		case 1:
			s.K[a] = 1
		case 2:
			s.K[a] = r.Range(0, rl)
		case 3:
			s.K[a] = rl + r.Range(1, 2)
		}
		if r.Chance(1, 4) {
			s.B |= 1 << uint(a)
		}
		if r.Chance(1, 7) {
			s.C |= 1 << uint(a)
		}
	}
	return s
}

// gen draws the next step. conc: concurrent mode (yield steps, invocations only on idle tasks).
func (e *env) gen(r *simkit.Rng, conc bool, clients int) *simkit.Step {
	if conc {
		var can, idle []int
		for t := range e.queue {
			if e.canAdvance(t) {
				can = append(can, t)
			}
			if !e.busy(t) {
				idle = append(idle, t)
			}
		}
		room := len(e.hist) < maxLinOps-10
		if len(can) > 0 && (len(idle) == 0 || !room || r.Chance(11, 20)) {
			if r.Chance(1, 30) {
				return &simkit.Step{Op: "yield", N: r.Intn(len(e.queue))}
			}
			return &simkit.Step{Op: "yield", N: can[r.Intn(len(can))]}
		}
		if len(idle) == 0 {
			return &simkit.Step{Op: "tick", V: int64(r.Range(1, 30))}
		}
		if r.Chance(1, 14) {
			return &simkit.Step{Op: "tick", V: int64(r.Range(1, 150))}
		}
		t := idle[r.Intn(len(idle))]
		k := len(e.queue) - 2
		switch {
		case t < k:
			s := e.genPutLike(r, []string{"put", "put", "put", "put", "put", "put", "put", "remove", "exist", "exist"}[r.Intn(10)], clients)
			s.C = t
			return s
		case t == k:
			return e.genProducer(r)
		default:
			return e.genBlockTask(r)
		}
	}
	switch r.Pick(50, 8, 4, 7, 4, 12, 5, 3, 8) {
	case 0:
		return e.genPutLike(r, "put", 0)
	case 1:
		return e.genPutLike(r, "remove", 0)
	case 2:
		return e.genPutLike(r, "exist", 0)
	case 3, 4:
		return e.genProducer(r)
	case 5, 6, 7:
		return e.genBlockTask(r)
	}
	return &simkit.Step{Op: "tick", V: int64(r.Range(1, 150))}
}

func (e *env) genProducer(r *simkit.Rng) *simkit.Step {
	if r.Chance(1, 3) {
		s := &simkit.Step{Op: "report"}
		if r.Bool() {
			for i := r.Range(1, 2); i > 0; i-- {
				s.K = append(s.K, r.Intn(e.nA))
			}
		}
		return s
	}
	s := &simkit.Step{Op: "get"}
	if r.Bool() {
		s.V = int64(r.Range(100, 900))
	}
	return s
}

func (e *env) genBlockTask(r *simkit.Rng) *simkit.Step {
	h := e.blocks[e.best].height
	switch r.Pick(12, 6, 4) {
	case 1:
		if h >= 1 {
			d := r.Range(1, 3)
			if d > h {
				d = h
			}
			s := &simkit.Step{Op: "fork", N: d, V: int64(r.U64() >> 40)}
			for i := d + 1 + r.Intn(2); i > 0; i-- {
				s.X = append(s.X, e.genBlockSpec(r))
			}
			return s
		}
	case 2:
		return &simkit.Step{Op: "evict"}
	}
	s := e.genBlockSpec(r)
	return &s
}
