package wire

import (
	"bytes"
	"fmt"
	"sort"
	"strings"

	"github.com/aergoio/aergo/v2/config"
	"github.com/aergoio/aergo/v2/types"
	"github.com/aergoio/aergo/v2/zz_verif/simkit"
	"github.com/aergoio/aergo/v2/zz_verif/simnode"
)

// ---------------------------------------------------------------------------------
// genesis / chain id / version table of a booted node, restarts, reconfiguration
// ---------------------------------------------------------------------------------

func genesisText(g *types.Genesis) string {
	if g == nil {
		return "nil"
	}
	var ebp []string
	for _, b := range g.EnterpriseBPs {
		ebp = append(ebp, b.Name+"|"+b.Address+"|"+b.PeerID)
	}
	return fmt.Sprintf("id=%+v ts=%d bps=%q ebps=%q", g.ID, g.Timestamp, g.BPs, ebp)
}

// bootView is everything a node answers about identity and versions.
func (e *eenv) bootView(n *simnode.Node) (gen string, gid []byte, vers []int32, cidv []int32, cids string) {
	n.Do(func() {
		g := n.CS.GetGenesisInfo()
		gen = genesisText(g)
		if g != nil && g.TotalBalance() != nil {
			gen += " total=" + g.TotalBalance().String()
		}
		if gb, err := n.CS.VerifGetBlockByNo(0); err == nil {
			gid = ownDigest(gb.Header, "")
			gen += " genesis-chainid=" + fmt.Sprintf("%q", gb.Header.ChainID)
		}
		// the chain ids are asked for first and looked at afterwards, as a caller that keeps the id it was
		// given (a handshake in progress, a long-lived handshaker) does: an id handed out for one
		// height must not change when another height is asked for
		var held []*types.ChainID
		for _, h := range e.probeHs {
			vers = append(vers, n.Cfg.Hardfork.Version(h))
			held = append(held, n.CS.ChainID(h))
		}
		for _, c := range held {
			if c == nil {
				cidv = append(cidv, -999)
				continue
			}
			cidv = append(cidv, c.Version)
			if cids == "" {
				c0 := *c
				c0.Version = 0
				cids = fmt.Sprintf("%+v", c0)
			}
		}
	})
	return
}

func monotone(v []int32) bool {
	for i := 1; i < len(v); i++ {
		if v[i] < v[i-1] {
			return false
		}
	}
	return true
}

func (e *eenv) recordBoot() {
	x := e.x
	gen, gid, vers, cidv, cids := e.bootView(e.P)
	// what was written: the genesis the net was created from
	g := e.net.Genesis
	want := genesisText(&types.Genesis{ID: g.ID, Timestamp: g.Timestamp, BPs: g.BPs, EnterpriseBPs: g.EnterpriseBPs})
	if !strings.HasPrefix(gen, want) {
		x.Fail("C19", "genesis-readback-differs", "first-boot", fmt.Sprintf("genesis info read from the chain store: %s; written: %s", gen, want), e.step)
		return
	}
	wantCid := g.ID
	wantCid.Version = 0
	if cids != fmt.Sprintf("%+v", wantCid) {
		x.Fail("C19", "chainid-readback-differs", "first-boot", fmt.Sprintf("chain id served by the chain service: %s; configured: %+v", cids, wantCid), e.step)
		return
	}
	e.genesis, e.gid, e.verTab = gen, string(gid), vers
	if !monotone(vers) {
		x.Fail("C19", "version-not-monotone", "node", fmt.Sprintf("heights %v give versions %v", e.probeHs, vers), e.step)
		return
	}
	for i := range vers {
		if vers[i] != cidv[i] || vers[i] != modelVersion(e.hf, e.probeHs[i]) {
			x.Fail("C19", "version-table-differs", "first-boot", fmt.Sprintf("height %d: config says version %d, chain id says %d, the configured heights %+v mean %d", e.probeHs[i], vers[i], cidv[i], e.hf, modelVersion(e.hf, e.probeHs[i])), e.step)
			return
		}
	}
	g2, gid2, v2, _, _ := e.bootView(e.V)
	if g2 != gen || !bytes.Equal(gid2, gid) || fmt.Sprint(v2) != fmt.Sprint(vers) {
		x.Fail("C19", "genesis-readback-differs", "two-nodes", fmt.Sprintf("two nodes booted from the same genesis disagree: %s / %s", gen, g2), e.step)
	}
}

// readBack compares everything a node serves with what was recorded when it was written.
func (e *eenv) readBack(when string, n *simnode.Node) bool {
	x := e.x
	gen, gid, vers, cidv, _ := e.bootView(n)
	if gen != e.genesis || string(gid) != e.gid {
		x.Fail("C19", "genesis-readback-differs", when, fmt.Sprintf("%s node %d: genesis info now %s, at first boot %s", when, n.Idx, gen, e.genesis), e.step)
		return false
	}
	if fmt.Sprint(vers) != fmt.Sprint(e.verTab) || fmt.Sprint(cidv) != fmt.Sprint(e.verTab) {
		x.Fail("C19", "version-table-differs", when, fmt.Sprintf("%s node %d: versions at heights %v are %v (chain id: %v), before the restart %v", when, n.Idx, e.probeHs, vers, cidv, e.verTab), e.step)
		return false
	}
	for _, b := range e.blocks {
		id := ownDigest(b.Header, "")
		var byNo, byID *types.Block
		n.Do(func() {
			byNo, _ = n.CS.VerifGetBlockByNo(b.BlockNo())
			byID, _ = n.CS.GetBlock(id)
		})
		for _, g := range []*types.Block{byNo, byID} {
			if g == nil || canonBlock(g) != e.blockTab[string(id)] || !bytes.Equal(g.Hash, id) {
				x.Fail("C19", "block-readback-differs", when, fmt.Sprintf("%s node %d: block %d is not served with the content produced under id %s", when, n.Idx, b.BlockNo(), short(id)), e.step)
				return false
			}
		}
		if !e.checkStored(n, b, when) {
			return false
		}
	}
	x.Count("readback.blocks", int64(len(e.blocks)))
	return true
}

func (e *eenv) reboot(n *simnode.Node) bool {
	n.Stop()
	if p := catchP(func() { n.Boot() }); p != "" {
		e.x.Fail("C19", "restart-refused", "same-config", fmt.Sprintf("node %d does not boot again with its unchanged configuration: %s", n.Idx, clip(p)), e.step)
		return false
	}
	if err := n.Recover(); err != nil {
		e.x.Fail("C19", "restart-refused", "recover", fmt.Sprintf("node %d: recovery after a clean restart failed: %v", n.Idx, err), e.step)
		return false
	}
	return true
}

func (e *eenv) doRestart() {
	e.x.Fault("restart")
	for _, n := range []*simnode.Node{e.P, e.V} {
		if !e.reboot(n) || !e.readBack("after-restart", n) {
			return
		}
	}
	if len(e.blocks) > 0 {
		e.x.Probe("receipts-read-after-restart")
	}
	e.refreshNonces()
	e.x.Logf("restart ok blocks=%d", len(e.blocks))
}

func heights(c config.HardforkConfig) [4]uint64 { return [4]uint64{c.V2, c.V3, c.V4, c.V5} }

// modelRefuse: a configuration is refused when its heights are not ordered or when a fork
// that the stored best block has passed (under the stored or the new heights) would move.
func modelRefuse(stored, cfg [4]uint64, best uint64) bool {
	for i := 1; i < 4; i++ {
		if cfg[i] < cfg[i-1] {
			return true
		}
	}
	for i := 0; i < 4; i++ {
		if (cfg[i] <= best || stored[i] <= best) && cfg[i] != stored[i] {
			return true
		}
	}
	return false
}

func (e *eenv) doReconf(st *simkit.Step) {
	x := e.x
	n := e.V
	if st.A == 1 {
		n = e.P
	}
	best := n.Best().BlockNo()
	old := heights(e.hf)
	nw := old
	k := st.N % 4
	if k < 0 {
		k = 0
	}
	d := uint64(st.V)
	switch st.B {
	case 0:
		nw[k] = old[k] + d + 1
	case 1:
		if old[k] > d {
			nw[k] = old[k] - d - 1
		} else {
			nw[k] = old[k] + 1
		}
	case 2:
		nw[k] = best
	case 3:
		nw[k] = best + 1 + d
	case 4:
		nw[k] = 0
	default:
		nw[k] = 1 << 50
	}
	if nw == old {
		x.Noop()
		return
	}
	refuse := modelRefuse(old, nw, best)
	cfg := config.HardforkConfig{V2: nw[0], V3: nw[1], V4: nw[2], V5: nw[3]}
	n.Stop()
	e.net.Hardfork = cfg
	p := catchP(func() { n.Boot() })
	e.net.Hardfork = e.hf
	if p != "" && !strings.Contains(p, "hardfork") && !strings.Contains(p, "fork") {
		panic("verif: boot failed for another reason than the hardfork check: " + p)
	}
	x.Fault("hardfork-reconfiguration")
	x.Logf("reconf node=%d best=%d %v -> %v refused=%v model=%v", n.Idx, best, old, nw, p != "", refuse)
	x.Digest("reconf", k, st.B, refuse, best >= old[k], best >= nw[k])
	if refuse {
		x.Probe("incompatible-reconfiguration")
	} else {
		x.Probe("compatible-reconfiguration")
	}
	if p == "" && refuse {
		x.Fail("C19", "incompatible-hardfork-config-accepted", fmt.Sprintf("V%d", k+2), fmt.Sprintf("node %d stores best block %d under fork heights %v and booted with heights %v", n.Idx, best, old, nw), e.step)
		return
	}
	if p != "" && !refuse {
		x.Fail("C19", "compatible-hardfork-config-refused", fmt.Sprintf("V%d", k+2), fmt.Sprintf("node %d (best block %d, stored heights %v) refused heights %v although no passed fork moves: %s", n.Idx, best, old, nw, clip(p)), e.step)
		return
	}
	if p == "" {
		// the accepted configuration's version table
		var vers []int32
		n.Do(func() {
			for _, h := range e.probeHs {
				vers = append(vers, n.CS.ChainID(h).Version)
			}
		})
		for i, h := range e.probeHs {
			if vers[i] != modelVersion(cfg, h) {
				x.Fail("C19", "version-table-differs", "after-reconfiguration", fmt.Sprintf("heights %v: version at %d is %d, expected %d", nw, h, vers[i], modelVersion(cfg, h)), e.step)
				return
			}
		}
		if !monotone(vers) {
			x.Fail("C19", "version-not-monotone", "after-reconfiguration", fmt.Sprintf("heights %v give versions %v at %v", nw, vers, e.probeHs), e.step)
			return
		}
	}
	if p == "" && st.C == 1 {
		// the operator keeps the new schedule: the other node is moved to it as well (it holds the same
		// chain or a prefix of it, so what is compatible for the first is compatible for it unless its
		// best block says otherwise), and everything from here on runs under the new heights
		other := e.P
		if n == e.P {
			other = e.V
		}
		if !modelRefuse(old, nw, other.Best().BlockNo()) {
			e.hf = cfg
			e.net.Hardfork = cfg
			// the version table the nodes must serve from now on is the one of the kept schedule (it was
			// just compared with what the re-booted node serves); heights at or below the best block
			// keep their versions because no passed fork moved
			tab := make([]int32, len(e.probeHs))
			for i, h := range e.probeHs {
				tab[i] = modelVersion(cfg, h)
			}
			e.verTab = tab
			x.Probe("reconfiguration-kept")
			x.Logf("reconf kept: heights now %v", nw)
		}
	}
	// back to the configuration in force (the original one, or the one just kept): must boot and
	// serve everything unchanged
	for _, m := range []*simnode.Node{e.P, e.V} {
		if !e.reboot(m) || !e.readBack("after-reconfiguration", m) {
			return
		}
	}
	e.refreshNonces()
}

// ---------------------------------------------------------------------------------
// pure codecs
// ---------------------------------------------------------------------------------

func genWord(r *simkit.Rng, slash bool) string {
	const alpha = "abcdefghijklmnopqrstuvwxyzABCDEFGHIJKLMNOPQRSTUVWXYZ0123456789.-_ :"
	n := r.Pick(1, 6, 2)
	l := []int{0, 1 + r.Intn(12), 20 + r.Intn(60)}[n]
	b := make([]byte, l)
	for i := range b {
		b[i] = alpha[r.Intn(len(alpha))]
	}
	if slash && l > 0 {
		b[r.Intn(l)] = '/'
	}
	return string(b)
}

func (e *eenv) doCid(st *simkit.Step) {
	x := e.x
	r := simkit.NewRng(uint64(st.V))
	for i := 0; i < 8; i++ {
		slashM, slashC := r.Chance(1, 24), r.Chance(1, 48)
		cid := types.ChainID{PublicNet: r.Bool(), MainNet: r.Bool(), Magic: genWord(r, slashM),
			Consensus: []string{"dpos", "raft", "sbp", genWord(r, slashC)}[r.Intn(4)]}
		switch r.Intn(4) {
		case 0:
			cid.Version = int32(r.Intn(8))
		case 1:
			cid.Version = int32(r.U64())
		case 2:
			cid.Version = -1
		default:
			cid.Version = 1<<31 - 1
		}
		sig := "plain"
		if strings.Contains(cid.Magic, "/") || strings.Contains(cid.Consensus, "/") {
			sig = "slash-in-name"
		}
		x.Count("codec.chainid", 1)
		raw, err := cid.Bytes()
		if err != nil {
			x.Logf("cid %+v not encodable: %v", cid, err)
			continue
		}
		back := types.NewChainID()
		var rerr error
		if p := catchP(func() { rerr = back.Read(raw) }); p != "" {
			x.Fail("C19", "chainid-codec-panic", sig, fmt.Sprintf("ChainID.Read panicked on the bytes of %+v: %s", cid, p), e.step)
			return
		}
		if rerr != nil || *back != cid || !back.Equals(&cid) {
			detail := fmt.Sprintf("chain id %+v is written as %q and read back as %+v (err=%v)", cid, raw, *back, rerr)
			if sig == "slash-in-name" { // a pure codec result: the run goes on
				e.failLater("chainid-roundtrip-differs", sig, detail)
				continue
			}
			x.Fail("C19", "chainid-roundtrip-differs", sig, detail, e.step)
			return
		}
		// version prefix handling used for every block header
		v := int32(r.U64())
		re := types.MakeChainId(append([]byte{}, raw...), v)
		if types.DecodeChainIdVersion(re) != v || !types.ChainIdEqualWithoutVersion(re, raw) || !bytes.Equal(re[4:], raw[4:]) {
			x.Fail("C19", "chainid-version-prefix", sig, fmt.Sprintf("MakeChainId(%q, %d) = %q", raw, v, re), e.step)
			return
		}
		// genesis info codec
		g := &types.Genesis{ID: cid, Timestamp: int64(r.U64() >> 1)}
		for j := r.Intn(4); j > 0; j-- {
			g.BPs = append(g.BPs, genWord(r, false))
		}
		for j := r.Intn(3); j > 0; j-- {
			g.EnterpriseBPs = append(g.EnterpriseBPs, types.EnterpriseBP{Name: genWord(r, false), Address: "/ip4/10.0.0.1/tcp/7846", PeerID: genWord(r, false)})
		}
		g.Balance = map[string]string{"x": "1"}
		gb := g.Bytes()
		g2 := types.GetGenesisFromBytes(gb)
		x.Count("codec.genesis", 1)
		if g2 == nil || genesisText(g2) != genesisText(g) {
			x.Fail("C19", "genesis-roundtrip-differs", "codec", fmt.Sprintf("genesis %s read back as %s", genesisText(g), genesisText(g2)), e.step)
			return
		}
	}
	x.Logf("cid ok")
}

func (e *eenv) doHfver(st *simkit.Step) {
	x := e.x
	r := simkit.NewRng(uint64(st.V))
	for i := 0; i < 6; i++ {
		var hs [4]uint64
		mode := r.Intn(4)
		base := uint64(0)
		for j := range hs {
			switch mode {
			case 0: // ordered
				base += uint64(r.Intn(50))
				hs[j] = base
			case 1: // arbitrary
				hs[j] = r.U64() >> uint(r.Intn(64))
			case 2: // many equal
				hs[j] = uint64(r.Intn(3))
			default:
				base += r.U64() >> uint(40+r.Intn(24))
				hs[j] = base
			}
		}
		c := config.HardforkConfig{V2: hs[0], V3: hs[1], V4: hs[2], V5: hs[3]}
		var probe []uint64
		for _, h := range hs {
			probe = append(probe, h, h+1)
			if h > 0 {
				probe = append(probe, h-1)
			}
		}
		probe = append(probe, 0, 1, r.U64(), ^uint64(0))
		sort.Slice(probe, func(a, b int) bool { return probe[a] < probe[b] })
		ordered := hs[0] <= hs[1] && hs[1] <= hs[2] && hs[2] <= hs[3]
		var prev int32 = -1 << 31
		for _, h := range probe {
			v := c.Version(h)
			if v < prev {
				x.Fail("C19", "version-not-monotone", "generated", fmt.Sprintf("heights %v: Version(%d)=%d after %d at a lower height", hs, h, v, prev), e.step)
				return
			}
			prev = v
			if v != modelVersion(c, h) {
				x.Fail("C19", "version-table-differs", "generated", fmt.Sprintf("heights %v: Version(%d)=%d, the heights mean %d", hs, h, v, modelVersion(c, h)), e.step)
				return
			}
			if ordered {
				forks := []bool{c.IsV2Fork(h), c.IsV3Fork(h), c.IsV4Fork(h), c.IsV5Fork(h)}
				for k, f := range forks {
					if f != (v >= int32(k+2)) {
						x.Fail("C19", "version-table-differs", "fork-predicate", fmt.Sprintf("heights %v at %d: version %d but IsV%dFork=%v", hs, h, v, k+2, f), e.step)
						return
					}
				}
			}
		}
		x.Count("hfver.configs", 1)
		// the compatibility check as a function: stored heights vs a single moved height
		if ordered {
			db := config.HardforkDbConfig{"V2": hs[0], "V3": hs[1], "V4": hs[2], "V5": hs[3]}
			best := probe[r.Intn(len(probe))]
			nw := hs
			k := r.Intn(4)
			switch r.Intn(4) {
			case 0:
				nw[k] += 1 + uint64(r.Intn(5))
			case 1:
				if nw[k] > 0 {
					nw[k]--
				}
			case 2:
				nw[k] = best
			default:
				nw[k] = best + 1
			}
			nc := config.HardforkConfig{V2: nw[0], V3: nw[1], V4: nw[2], V5: nw[3]}
			err := nc.CheckCompatibility(db, best)
			want := modelRefuse(hs, nw, best)
			x.Count("hfver.compat", 1)
			if (err != nil) != want {
				cls := "incompatible-hardfork-config-accepted"
				if err != nil {
					cls = "compatible-hardfork-config-refused"
				}
				x.Fail("C19", cls, "function", fmt.Sprintf("stored heights %v, best block %d, new heights %v: CheckCompatibility says %v", hs, best, nw, err), e.step)
				return
			}
		}
	}
	x.Logf("hfver ok")
}
