// Package wire: see DESIGN.md section 4.
package wire
