package wire

import (
	"bytes"
	"context"
	"crypto/sha256"
	"encoding/binary"
	"fmt"
	"io"
	"reflect"
	"strings"
	"time"

	"github.com/aergoio/aergo-lib/log"
	"github.com/aergoio/aergo/v2/chain"
	"github.com/aergoio/aergo/v2/config"
	"github.com/aergoio/aergo/v2/internal/enc/proto"
	"github.com/aergoio/aergo/v2/p2p"
	"github.com/aergoio/aergo/v2/p2p/p2pcommon"
	"github.com/aergoio/aergo/v2/p2p/p2pkey"
	"github.com/aergoio/aergo/v2/p2p/p2putil"
	"github.com/aergoio/aergo/v2/types"
	"github.com/aergoio/aergo/v2/zz_verif/simkit"
	"github.com/libp2p/go-libp2p/core/crypto"
)

// configuration mismatches between the two endpoints (besides what the middlebox does)
const (
	mmNone         = iota
	mmGenesis      // same chain id, another genesis block
	mmMagic        // another chain magic
	mmConsensus    // another consensus name
	mmPublic       // public flag differs
	mmMainnet      // mainnet flag differs
	mmHardfork     // other hardfork heights (compatible or not: decided by the version rule)
	mmPeerDialer   // the dialer's connection belongs to another identity than the listener presents
	mmPeerListener // the listener's connection belongs to another identity than the dialer presents
	mmMax
)

var mmName = []string{"none", "genesis", "magic", "consensus", "public", "mainnet", "hardfork", "peerid-at-dialer", "peerid-at-listener"}

// ep is one endpoint: what a real node derives from its key, genesis, config and chain.
type ep struct {
	key     crypto.PrivKey
	id      types.PeerID
	gen     *types.Genesis
	genHash []byte
	hf      config.HardforkConfig
	best    *types.Block
	meta    p2pcommon.PeerMeta
	certs   []*p2pcommon.AgentCertificateV1
	expect  types.PeerID // identity of the connection as the transport reports it
}

// hand-written fakes: only what the handshakers use; everything else would be a nil call
type fakeCA struct {
	types.ChainAccessor
	e *ep
}

func (f *fakeCA) GetBestBlock() (*types.Block, error) { return f.e.best, nil }
func (f *fakeCA) GetGenesisInfo() *types.Genesis      { return f.e.gen }

// ChainID follows chain.ChainService.ChainID: the genesis id with the version of the height.
func (f *fakeCA) ChainID(no types.BlockNo) *types.ChainID {
	b, err := f.e.gen.ID.Bytes()
	if err != nil {
		return nil
	}
	cid := new(types.ChainID)
	if err := cid.Read(b); err != nil {
		return nil
	}
	cid.Version = f.e.hf.Version(no)
	return cid
}

type fakeCM struct {
	p2pcommon.CertificateManager
	e *ep
}

func (f *fakeCM) GetCertificates() []*p2pcommon.AgentCertificateV1 { return f.e.certs }

type fakeIS struct {
	p2pcommon.InternalService
	e  *ep
	ca *fakeCA
	cm *fakeCM
}

func (f *fakeIS) SelfMeta() p2pcommon.PeerMeta                     { return f.e.meta }
func (f *fakeIS) SelfNodeID() types.PeerID                         { return f.e.id }
func (f *fakeIS) GetChainAccessor() types.ChainAccessor            { return f.ca }
func (f *fakeIS) CertificateManager() p2pcommon.CertificateManager { return f.cm }

type fakePM struct {
	p2pcommon.PeerManager
	e *ep
}

func (f *fakePM) SelfMeta() p2pcommon.PeerMeta { return f.e.meta }
func (f *fakePM) SelfNodeID() types.PeerID     { return f.e.id }

type fakeActor struct {
	p2pcommon.ActorService
	ca *fakeCA
}

func (f *fakeActor) GetChainAccessor() types.ChainAccessor { return f.ca }

type hsLab struct {
	x          *simkit.Ctx
	leaves     []Leaf
	logger     *log.Logger
	oldGenesis *types.Genesis
}

func detKey(label string, i int) crypto.PrivKey {
	seed := sha256.Sum256([]byte(fmt.Sprintf("%s-%d", label, i)))
	k, err := crypto.UnmarshalSecp256k1PrivateKey(seed[:])
	if err != nil {
		panic(err)
	}
	return k
}

func newHsLab(x *simkit.Ctx) *hsLab {
	l := &hsLab{x: x, leaves: Leaves(reflect.TypeOf(types.Status{})), logger: log.NewLogger("verif.wire"), oldGenesis: chain.Genesis}
	p2pkey.VerifSetKey(detKey("wire-self", 0))
	return l
}

func (l *hsLab) close() { chain.Genesis = l.oldGenesis }

func mkGenesis(cid types.ChainID, ts int64) (*types.Genesis, []byte) {
	g := &types.Genesis{ID: cid, Timestamp: ts}
	h := g.Block().BlockHash()
	return g, h
}

func (l *hsLab) mkEp(r *simkit.Rng, idx int, cid types.ChainID, ts int64, hf config.HardforkConfig, bestNo uint64, role int) *ep {
	e := &ep{key: detKey("wire-peer", idx)}
	e.id, _ = types.IDFromPublicKey(e.key.GetPublic())
	e.gen, e.genHash = mkGenesis(cid, ts)
	e.hf = hf
	bh := sha256.Sum256([]byte(fmt.Sprintf("best-%d-%d", idx, bestNo)))
	e.best = &types.Block{Hash: bh[:], Header: &types.BlockHeader{BlockNo: bestNo}}
	addr := []string{"192.168.1.10", "peer.aergo.example", "10.1.2.3", "2001:db8::17"}[r.Intn(4)]
	e.meta = p2pcommon.NewMetaWith1Addr(e.id, addr, uint32(7846+idx), "v2.5."+fmt.Sprint(idx))
	e.meta.Hidden = r.Chance(1, 4)
	switch role {
	case 0:
		e.meta.Role = types.PeerRole_Watcher
	case 1:
		e.meta.Role = types.PeerRole_Producer
		e.meta.ProducerIDs = []types.PeerID{e.id}
	case 2:
		e.meta.Role = types.PeerRole_LegacyVersion
	case 3: // agent with certificates of one or two producers
		e.meta.Role = types.PeerRole_Agent
		for j := 0; j < 1+r.Intn(2); j++ {
			bpk := detKey("wire-bp", idx*10+j)
			bpid, _ := types.IDFromPublicKey(bpk.GetPublic())
			e.meta.ProducerIDs = append(e.meta.ProducerIDs, bpid)
			c := &p2pcommon.AgentCertificateV1{Version: p2pcommon.CertVersion0001, BPID: bpid, BPPubKey: p2putil.ConvertPKToBTCEC(bpk).PubKey(),
				CreateTime: time.Unix(1577836800, 0), ExpireTime: time.Unix(7258118400, 0), // 2020 .. 2200: never near the wall clock
				AgentID: e.id, AgentAddress: []string{addr}}
			if err := p2putil.SignCert(p2putil.ConvertPKToBTCEC(bpk), c); err != nil {
				panic(err)
			}
			e.certs = append(e.certs, c)
		}
	}
	return e
}

func (l *hsLab) handshaker(e *ep, version int, rwc io.ReadWriteCloser) p2pcommon.VersionedHandshaker {
	ca := &fakeCA{e: e}
	is := &fakeIS{e: e, ca: ca, cm: &fakeCM{e: e}}
	pm := &fakePM{e: e}
	act := &fakeActor{ca: ca}
	// the real version manager builds the handshaker exactly as a node does; it takes the
	// genesis hash from the process-wide chain.Genesis, which is this endpoint's now
	chain.Genesis = e.gen
	vm := p2p.VerifNewVersionManager(is, act, pm, ca, l.logger, ca.ChainID(0))
	v := p2pcommon.P2PVersion200
	switch version {
	case 33:
		v = p2pcommon.P2PVersion033
	case 32:
		v = p2pcommon.P2PVersion032
	case 31:
		v = p2pcommon.P2PVersion031
	}
	h, err := vm.GetVersionedHandshaker(v, e.expect, rwc)
	if err != nil {
		panic(err)
	}
	return h
}

// ---- the oracle's own reading of a status message -------------------------------

func modelVersion(hf config.HardforkConfig, h uint64) int32 {
	hs := []uint64{hf.V2, hf.V3, hf.V4, hf.V5}
	for i := len(hs) - 1; i >= 0; i-- {
		if hs[i] <= h {
			return int32(i + 2)
		}
	}
	return 0
}

// parseCID is the harness's own decoder of the chain id bytes.
func parseCID(b []byte) (ver int32, public, mainnet bool, magic, consensus string, ok bool) {
	if len(b) < 6 {
		return
	}
	ver = int32(binary.LittleEndian.Uint32(b[:4]))
	public, mainnet = b[4] != 0, b[5] != 0
	parts := strings.Split(string(b[6:]), "/")
	if len(parts) != 2 {
		return
	}
	return ver, public, mainnet, parts[0], parts[1], true
}

type verdict struct {
	genesis, chainid, peerid bool
}

func (v verdict) all() bool { return v.genesis && v.chainid && v.peerid }
func (v verdict) String() string {
	return fmt.Sprintf("genesis=%v chainid=%v peerid=%v", v.genesis, v.chainid, v.peerid)
}

// judge says which of the three conditions of the property hold for status s at receiver rcv.
func judge(rcv *ep, s *types.Status) verdict {
	var v verdict
	if s == nil {
		return v
	}
	v.genesis = bytes.Equal(s.Genesis, rcv.genHash)
	ver, pub, mn, magic, cons, ok := parseCID(s.ChainID)
	id := rcv.gen.ID
	v.chainid = ok && ver == modelVersion(rcv.hf, s.BestHeight) && pub == id.PublicNet && mn == id.MainNet && magic == id.Magic && cons == id.Consensus
	v.peerid = s.Sender != nil && string(s.Sender.PeerID) == string(rcv.expect)
	return v
}

type hsResult struct {
	ok  bool
	err string
	pan string
}

func runSide(h p2pcommon.VersionedHandshaker, outbound bool) (res hsResult) {
	defer func() {
		if r := recover(); r != nil {
			res = hsResult{pan: fmt.Sprint(r)}
		}
	}()
	var hr *p2pcommon.HandshakeResult
	var err error
	if outbound {
		hr, err = h.DoForOutbound(context.Background())
	} else {
		hr, err = h.DoForInbound(context.Background())
	}
	if err != nil {
		return hsResult{err: err.Error()}
	}
	if hr == nil {
		return hsResult{err: "nil result without error"}
	}
	return hsResult{ok: true}
}

func (l *hsLab) do(e *wenv, st *simkit.Step) {
	x := l.x
	legacy := st.N == 32 || st.N == 31 // still in AcceptedInboundVersions; observed, not judged
	if len(st.K) < 4 || (st.N != 200 && st.N != 33 && !legacy) {
		x.Noop()
		return
	}
	// status messages are larger than the lowered framing limit of this run
	p2pcommon.MaxPayloadLength = e.real
	defer func() { p2pcommon.MaxPayloadLength = e.limit }()
	r := simkit.NewRng(uint64(st.V))
	mm := st.A
	if mm < 0 || mm >= mmMax {
		mm = mmNone
	}
	dir := st.B
	// ---- two endpoint configurations ----
	cid := types.ChainID{Magic: []string{"verif.wire", "aergo.io", "m"}[r.Intn(3)], Consensus: []string{"dpos", "raft", "sbp"}[r.Intn(3)], PublicNet: r.Bool(), MainNet: r.Chance(1, 5)}
	ts := int64(1500000000000000000 + r.Intn(1000))
	var hs [4]uint64
	base := uint64(r.Intn(50))
	if r.Chance(1, 5) {
		base = 0
	}
	for i := range hs {
		base += uint64(r.Intn(40))
		hs[i] = base
	}
	if r.Chance(1, 6) {
		hs[3] = 1 << 40
	}
	hf := config.HardforkConfig{V2: hs[0], V3: hs[1], V4: hs[2], V5: hs[3]}
	// best heights close to the fork heights so that the version rule matters
	pickH := func() uint64 {
		h := hs[r.Intn(4)]
		switch r.Intn(4) {
		case 0:
			if h > 0 {
				h--
			}
		case 1:
			h++
		case 2:
			h = uint64(r.Intn(200))
		}
		return h
	}
	roleA, roleB := 0, 0
	if st.N == 200 {
		roleA, roleB = st.K[3]%4, r.Pick(3, 2, 1, 2)
	} else {
		roleA, roleB = 2, 2 // v0.3.x peers have no role
	}
	cidB, tsB, hfB := cid, ts, hf
	switch mm {
	case mmGenesis:
		tsB = ts + 1 + int64(r.Intn(5))
	case mmMagic:
		cidB.Magic = cid.Magic + ".x"
	case mmConsensus:
		cidB.Consensus = "raft2"
	case mmPublic:
		cidB.PublicNet = !cid.PublicNet
	case mmMainnet:
		cidB.MainNet = !cid.MainNet
	case mmHardfork:
		i := r.Intn(4)
		h2 := hs
		if r.Bool() {
			h2[i] += 1 + uint64(r.Intn(3))
		} else if h2[i] > 0 {
			h2[i] -= 1
		}
		// keep the heights ordered
		for j := 1; j < 4; j++ {
			if h2[j] < h2[j-1] {
				h2[j] = h2[j-1]
			}
		}
		hfB = config.HardforkConfig{V2: h2[0], V3: h2[1], V4: h2[2], V5: h2[3]}
	}
	A := l.mkEp(r, 0, cid, ts, hf, pickH(), roleA)
	B := l.mkEp(r, 1, cidB, tsB, hfB, pickH(), roleB)
	A.expect, B.expect = B.id, A.id
	other, _ := types.IDFromPublicKey(detKey("wire-stranger", 0).GetPublic())
	switch mm {
	case mmPeerDialer:
		A.expect = other
	case mmPeerListener:
		B.expect = other
	}

	// ---- pipe and middlebox ----
	d := newDuplex(r.Fork(7), fragOf(r))
	if d.maxChk > 0 {
		x.Fault("fragmented-read")
	}
	var leaf Leaf
	for _, lf := range l.leaves {
		if lf.Path == st.S {
			leaf = lf
		}
	}
	pipeFault := st.K[1]
	if pipeFault == 1 {
		cutDir := r.Intn(2)
		d.cutAfter[cutDir] = st.K[2]
	}
	// what each side received as the peer's status (after the middlebox), for the oracle
	var seen [2]*types.Status // index = receiver
	var seenRaw [2]bool
	mutated := false
	var before, after string
	garbled := false
	garbleDir := r.Intn(2)
	d.onFrame = func(from int, frame []byte) []byte {
		sub := binary.BigEndian.Uint32(frame[0:4])
		if sub != uint32(p2pcommon.StatusRequest) {
			return frame
		}
		s := &types.Status{}
		if err := proto.Decode(frame[hdrLen:], s); err != nil {
			panic("verif: middlebox cannot decode the status written by the handshaker: " + err.Error())
		}
		out := frame
		if ((dir == 1 && from == 0) || (dir == 2 && from == 1)) && !mutated && leaf.Path != "" {
			before = Canon(s)
			if Mutate(s, leaf, st.C, st.K[0]) {
				after = Canon(s)
				if after != before {
					body, err := proto.Encode(s)
					if err != nil {
						panic(err)
					}
					// what the receiver will decode (the encoding may normalise the value)
					s2 := &types.Status{}
					if err := proto.Decode(body, s2); err == nil && Canon(s2) != before {
						mutated = true
						s = s2
						out = append(append([]byte{}, frame[:hdrLen]...), body...)
						binary.BigEndian.PutUint32(out[4:8], uint32(len(body)))
					}
				}
			}
		}
		if pipeFault == 2 && from == garbleDir && !garbled {
			garbled = true
			switch st.K[2] % 3 {
			case 0: // noise in front of the frame
				out = append(derive(1+st.K[2]%90, st.K[2]), out...)
			case 1: // one bit of the frame flipped
				out = append([]byte{}, out...)
				out[st.K[2]%len(out)] ^= 1 << uint(st.K[2]%8)
			default: // the frame announces more than it carries
				out = append([]byte{}, out...)
				binary.BigEndian.PutUint32(out[4:8], binary.BigEndian.Uint32(out[4:8])+uint32(1+st.K[2]))
			}
		}
		return out
	}

	// ---- run ----
	var resA, resB hsResult
	// handshakers are built on the simulator's goroutine (they read process-wide state)
	var hA, hB p2pcommon.VersionedHandshaker
	// the handshakers are built under the baton (they read process-wide state): dialer first
	d.run(func(rw io.ReadWriteCloser) {
		hA = l.handshaker(A, st.N, rw)
		resA = runSide(hA, true)
	}, func(rw io.ReadWriteCloser) {
		hB = l.handshaker(B, st.N, rw)
		resB = runSide(hB, false)
	})

	// What each side received as the peer's status is read off the bytes that were really
	// delivered to it, after every fault (mutation, garbage, cut) - never off a copy taken
	// inside the middlebox: an injected bit flip may itself change a field of the status.
	// A handshaker reads exactly one message: the first frame of its inbound stream.
	for to := 0; to < 2; to++ {
		seen[to], seenRaw[to] = firstStatus(d.got[to], e.real)
	}

	// ---- judge ----
	x.Count(fmt.Sprintf("hs.v%d", st.N), 1)
	if mutated {
		x.Fault("status-field-mutated")
		x.Count("hs.mutated."+leaf.Path, 1)
	}
	if d.cutFired {
		x.Fault("connection-cut")
	}
	if garbled {
		x.Fault("garbage-injected")
	}
	if d.stalled {
		x.Probe("handshake-stalled-until-timeout")
	}
	if mm != mmNone {
		x.Fault("config-mismatch-" + mmName[mm])
	}
	x.Logf("hs v=%d mm=%s dir=%d field=%s mutated=%v cut=%v garbled=%v stalled=%v A(ok=%v) B(ok=%v)", st.N, mmName[mm], dir, st.S, mutated, d.cutFired, garbled, d.stalled, resA.ok, resB.ok)
	if legacy {
		// protocol versions 0.3.1 / 0.3.2 are outside this check's scope (V200, V033); what they
		// do is recorded only
		vB, vA := judge(B, seen[1]), judge(A, seen[0])
		for i, res := range []hsResult{resA, resB} {
			v, got := vA, seenRaw[0]
			if i == 1 {
				v, got = vB, seenRaw[1]
			}
			switch {
			case res.pan != "":
				x.Count(fmt.Sprintf("note.legacy-v%d-panic", st.N), 1)
			case res.ok && !(got && v.all()):
				x.Count(fmt.Sprintf("note.legacy-v%d-accepted-foreign-peer.%s", st.N, failSig([]string{"dialer", "listener"}[i], v, got)), 1)
			}
		}
		return
	}
	for i, res := range []hsResult{resA, resB} {
		if res.pan != "" {
			x.Fail("C18", "panic-in-handshake", sigText(res.pan), fmt.Sprintf("v%d handshake, side %d (0 dialer, 1 listener), mismatch=%s, mutated field %q (kind %d): panic: %s", st.N, i, mmName[mm], st.S, st.C, res.pan), e.step)
			return
		}
	}
	// the listener judged the dialer's status; the dialer judged the listener's (if it got one)
	vB := judge(B, seen[1])
	vA := judge(A, seen[0])
	x.Digest("hs", st.N, mm, dir, st.S, mutated, vA.all(), vB.all(), resA.ok, resB.ok, d.cutFired, garbled)
	damaged := d.cutFired || garbled
	if resB.ok && !(seenRaw[1] && vB.all()) {
		x.Fail("C18", "handshake-accepted-foreign-peer", failSig("listener", vB, seenRaw[1]), fmt.Sprintf("v%d listener accepted a peer although %s (status it received: %s; mismatch=%s, mutated field %q: %s -> %s)", st.N, vB, statusText(seen[1]), mmName[mm], st.S, clip(before), clip(after)), e.step)
		return
	}
	if resA.ok && !(seenRaw[0] && vA.all()) {
		x.Fail("C18", "handshake-accepted-foreign-peer", failSig("dialer", vA, seenRaw[0]), fmt.Sprintf("v%d dialer accepted a peer although %s (status it received: %s; mismatch=%s, mutated field %q: %s -> %s)", st.N, vA, statusText(seen[0]), mmName[mm], st.S, clip(before), clip(after)), e.step)
		return
	}
	if resA.ok && !resB.ok {
		// the dialer can only have seen a status if the listener accepted and answered
		x.Fail("C18", "handshake-accepted-foreign-peer", "dialer-after-listener-refused", fmt.Sprintf("v%d dialer reports success although the listener refused (%s)", st.N, resB.err), e.step)
		return
	}
	if !mutated && !damaged && mm == mmNone {
		// two honest peers of the same chain: must succeed on both sides
		if !vA.all() || !vB.all() {
			panic(fmt.Sprintf("verif: model rejects an honest pair: A sees %s, B sees %s; resA=%+v resB=%+v", vA, vB, resA, resB))
		}
		if !resA.ok || !resB.ok {
			x.Fail("C18", "honest-handshake-failed", fmt.Sprintf("v%d", st.N), fmt.Sprintf("v%d handshake between two peers of the same chain failed: dialer err=%q listener err=%q", st.N, resA.err, resB.err), e.step)
			return
		}
		x.Probe("honest-handshake-succeeded")
	}
	if !mutated && !damaged && mm == mmHardfork && vA.all() && vB.all() {
		// different heights that give the same version at both best blocks: compatible
		if !resA.ok || !resB.ok {
			x.Fail("C18", "honest-handshake-failed", fmt.Sprintf("v%d-hardfork-compatible", st.N), fmt.Sprintf("v%d handshake failed although both chain ids are compatible under the version rule: dialer err=%q listener err=%q", st.N, resA.err, resB.err), e.step)
			return
		}
		x.Probe("compatible-hardfork-difference-accepted")
	}
	if mutated {
		rcvV, rcvRes := vB, resB
		if dir == 2 {
			rcvV, rcvRes = vA, resA
		}
		switch {
		case !rcvV.genesis && mm == mmNone:
			x.Probe("mutation-broke-genesis")
		case !rcvV.chainid && mm == mmNone:
			x.Probe("mutation-broke-chainid")
		case !rcvV.peerid && mm == mmNone:
			x.Probe("mutation-broke-peerid")
		}
		if rcvV.all() && rcvRes.ok {
			x.Probe("mutation-harmless-accepted")
		}
		if !rcvV.all() && dir == 1 && !resA.ok && !resB.ok {
			x.Probe("both-sides-failed-cleanly")
		}
	}
	if !resA.ok && !resB.ok && mm != mmNone {
		x.Probe("mismatch-refused")
	}
}

// firstStatus is the harness's own reading of an inbound byte stream: the first frame, if it
// is complete, within the limit, a StatusRequest, and decodes.
func firstStatus(b []byte, limit uint32) (*types.Status, bool) {
	if len(b) < hdrLen {
		return nil, false
	}
	l := binary.BigEndian.Uint32(b[4:8])
	if l > limit || uint64(len(b)-hdrLen) < uint64(l) || binary.BigEndian.Uint32(b[0:4]) != uint32(p2pcommon.StatusRequest) {
		return nil, false
	}
	s := &types.Status{}
	if err := proto.Decode(b[hdrLen:hdrLen+int(l)], s); err != nil {
		return nil, false
	}
	return s, true
}

func failSig(side string, v verdict, got bool) string {
	switch {
	case !got:
		return side + "-without-status"
	case !v.genesis:
		return side + "-genesis"
	case !v.chainid:
		return side + "-chainid"
	case !v.peerid:
		return side + "-peerid"
	}
	return side
}

func statusText(s *types.Status) string {
	if s == nil {
		return "none"
	}
	pid := []byte(nil)
	if s.Sender != nil {
		pid = s.Sender.PeerID
	}
	return fmt.Sprintf("genesis=%s chainid=%q height=%d peerid=%s", short(s.Genesis), s.ChainID, s.BestHeight, short(pid))
}

func clip(s string) string {
	if len(s) > 300 {
		return s[:300] + "..."
	}
	return s
}
