package wire

import (
	"crypto/sha256"
	"encoding/hex"
	"fmt"
	"reflect"
	"strconv"
	"strings"
)

// Reflection-driven field enumeration, canonical bytes and single-field mutation of
// protobuf-generated structs. The field list is derived from the Go TYPE (exported
// fields only, nested messages and lists of messages followed), so a field that is
// added to BlockHeader / TxBody / Receipt / Status later is enumerated, canonicalised
// and corrupted without touching this file.

// Leaf is one mutable place of a message.
type Leaf struct {
	Path string // "Sender.PeerID", "Events[0].EventName", "Certificates" (the list itself), "Sender" (the pointer itself)
	Kind string // bytes, string, uint, int, bool, byteslist, stringlist, msgptr, msglist
}

func leafKind(t reflect.Type) string {
	switch t.Kind() {
	case reflect.Slice:
		switch t.Elem().Kind() {
		case reflect.Uint8:
			return "bytes"
		case reflect.Slice:
			if t.Elem().Elem().Kind() == reflect.Uint8 {
				return "byteslist"
			}
		case reflect.String:
			return "stringlist"
		case reflect.Ptr:
			if t.Elem().Elem().Kind() == reflect.Struct {
				return "msglist"
			}
		}
	case reflect.String:
		return "string"
	case reflect.Uint64, reflect.Uint32, reflect.Uint16, reflect.Uint8, reflect.Uint:
		return "uint"
	case reflect.Int64, reflect.Int32, reflect.Int16, reflect.Int8, reflect.Int:
		return "int"
	case reflect.Bool:
		return "bool"
	case reflect.Ptr:
		if t.Elem().Kind() == reflect.Struct {
			return "msgptr"
		}
	}
	return ""
}

// Leaves lists every mutable place of struct type t (depth-limited: messages nest two levels at most here).
func Leaves(t reflect.Type) []Leaf {
	var out []Leaf
	var walk func(t reflect.Type, prefix string, depth int)
	walk = func(t reflect.Type, prefix string, depth int) {
		for i := 0; i < t.NumField(); i++ {
			f := t.Field(i)
			if f.PkgPath != "" { // unexported (protobuf bookkeeping)
				continue
			}
			k := leafKind(f.Type)
			if k == "" {
				panic(fmt.Sprintf("reflectmut: field %s%s has a type (%s) the corruptor cannot enumerate; extend leafKind", prefix, f.Name, f.Type))
			}
			out = append(out, Leaf{Path: prefix + f.Name, Kind: k})
			if depth < 3 {
				switch k {
				case "msgptr":
					walk(f.Type.Elem(), prefix+f.Name+".", depth+1)
				case "msglist":
					walk(f.Type.Elem().Elem(), prefix+f.Name+"[0].", depth+1)
				}
			}
		}
	}
	walk(t, "", 0)
	return out
}

// resolve returns the addressable value at path below root (a pointer to struct), or an
// invalid Value when an intermediate pointer is nil / a list is too short.
func resolve(root interface{}, path string) reflect.Value {
	v := reflect.ValueOf(root)
	for v.Kind() == reflect.Ptr {
		if v.IsNil() {
			return reflect.Value{}
		}
		v = v.Elem()
	}
	for _, part := range strings.Split(path, ".") {
		idx := -1
		if i := strings.IndexByte(part, '['); i >= 0 {
			idx, _ = strconv.Atoi(part[i+1 : len(part)-1])
			part = part[:i]
		}
		for v.Kind() == reflect.Ptr {
			if v.IsNil() {
				return reflect.Value{}
			}
			v = v.Elem()
		}
		if v.Kind() != reflect.Struct {
			return reflect.Value{}
		}
		v = v.FieldByName(part)
		if !v.IsValid() {
			return reflect.Value{}
		}
		if idx >= 0 {
			if v.Kind() != reflect.Slice || v.Len() <= idx {
				return reflect.Value{}
			}
			v = v.Index(idx)
		}
	}
	return v
}

func derive(n int, salt int) []byte {
	out := make([]byte, 0, n+32)
	for i := 0; len(out) < n; i++ {
		h := sha256.Sum256([]byte(fmt.Sprintf("mut-%d-%d", salt, i)))
		out = append(out, h[:]...)
	}
	return out[:n]
}

func mutBytes(b []byte, kind, pos int) []byte {
	c := append([]byte{}, b...)
	switch kind % 6 {
	case 0: // flip one bit
		if len(c) == 0 {
			return []byte{1}
		}
		c[pos%len(c)] ^= 1 << uint(pos%8)
	case 1: // drop the last byte
		if len(c) == 0 {
			return []byte{0}
		}
		c = c[:len(c)-1]
	case 2: // append a byte
		c = append(c, byte(pos))
	case 3: // empty
		if len(c) == 0 {
			return []byte{0xff}
		}
		c = nil
	case 4: // same length, unrelated content
		if len(c) == 0 {
			return derive(32, pos)
		}
		d := derive(len(c), pos)
		if string(d) == string(c) {
			d[0] ^= 1
		}
		c = d
	case 5: // prepend a byte
		c = append([]byte{byte(pos)}, c...)
	}
	return c
}

func mutString(s string, kind, pos int) string {
	b := []byte(s)
	switch kind % 4 {
	case 0:
		if len(b) == 0 {
			return "x"
		}
		i := pos % len(b)
		if b[i] == 'x' {
			b[i] = 'y'
		} else {
			b[i] = 'x'
		}
	case 1:
		if len(b) == 0 {
			return "0"
		}
		b = b[:len(b)-1]
	case 2:
		b = append(b, 'x')
	case 3:
		if len(b) == 0 {
			return "z"
		}
		b = nil
	}
	return string(b)
}

// Mutate changes exactly the place leaf of root. It reports false when the place is not
// reachable in this value (nil parent, empty list) and so nothing was changed.
func Mutate(root interface{}, leaf Leaf, kind, pos int) bool {
	if kind < 0 {
		kind = -kind
	}
	if pos < 0 {
		pos = -pos
	}
	v := resolve(root, leaf.Path)
	if !v.IsValid() || !v.CanSet() {
		return false
	}
	switch leaf.Kind {
	case "bytes":
		v.SetBytes(mutBytes(v.Bytes(), kind, pos))
	case "string":
		v.SetString(mutString(v.String(), kind, pos))
	case "uint":
		x := v.Uint()
		bits := uint(v.Type().Bits())
		switch kind % 5 {
		case 0:
			x++
		case 1:
			x--
		case 2:
			x ^= 1 << (bits - 1)
		case 3:
			if x == 0 {
				x = 1
			} else {
				x = 0
			}
		case 4:
			x ^= 1 << (uint(pos) % bits)
		}
		old := v.Uint()
		v.SetUint(x)
		if v.Uint() == old {
			v.SetUint(old ^ 1)
		}
	case "int":
		x := v.Int()
		bits := uint(v.Type().Bits())
		switch kind % 5 {
		case 0:
			x++
		case 1:
			x--
		case 2:
			x ^= int64(-1) << (bits - 1)
		case 3:
			if x == 0 {
				x = 1
			} else {
				x = 0
			}
		case 4:
			x ^= 1 << (uint(pos) % (bits - 1))
		}
		old := v.Int()
		v.SetInt(x)
		if v.Int() == old {
			v.SetInt(old ^ 1)
		}
	case "bool":
		v.SetBool(!v.Bool())
	case "byteslist", "stringlist":
		n := v.Len()
		op := kind % 4
		if n == 0 {
			op = 2
		}
		switch op {
		case 0: // mutate one element
			e := v.Index(pos % n)
			if leaf.Kind == "byteslist" {
				e.SetBytes(mutBytes(e.Bytes(), 0, pos))
			} else {
				e.SetString(mutString(e.String(), 0, pos))
			}
		case 1: // drop the last
			v.Set(v.Slice(0, n-1))
		case 2: // append one
			if leaf.Kind == "byteslist" {
				v.Set(reflect.Append(v, reflect.ValueOf(derive(8, pos))))
			} else {
				v.Set(reflect.Append(v, reflect.ValueOf("/ip4/10.9.8.7/tcp/7846")))
			}
		case 3: // clear
			v.Set(reflect.Zero(v.Type()))
		}
	case "msgptr":
		if v.IsNil() {
			return false
		}
		v.Set(reflect.Zero(v.Type()))
	case "msglist":
		n := v.Len()
		op := kind % 5
		if n == 0 {
			op = 2
		}
		if op == 4 && n < 2 {
			op = 1
		}
		switch op {
		case 0: // drop the last
			v.Set(v.Slice(0, n-1))
		case 1: // repeat the last
			v.Set(reflect.Append(v, v.Index(n-1)))
		case 2: // append an empty message
			v.Set(reflect.Append(v, reflect.New(v.Type().Elem().Elem())))
		case 3: // clear
			v.Set(reflect.Zero(v.Type()))
		case 4: // swap the first two
			a, b := v.Index(0).Interface(), v.Index(1).Interface()
			v.Index(0).Set(reflect.ValueOf(b))
			v.Index(1).Set(reflect.ValueOf(a))
		}
	default:
		return false
	}
	return true
}

// Canon is the canonical text of a message: every exported field, in declaration order,
// nested messages included. nil and empty byte strings / lists are the same content
// (that is what the wire encoding makes of them).
func Canon(m interface{}) string {
	var sb strings.Builder
	var walk func(v reflect.Value)
	walk = func(v reflect.Value) {
		switch v.Kind() {
		case reflect.Ptr:
			if v.IsNil() {
				sb.WriteString("nil")
				return
			}
			walk(v.Elem())
		case reflect.Struct:
			sb.WriteByte('{')
			t := v.Type()
			for i := 0; i < t.NumField(); i++ {
				if t.Field(i).PkgPath != "" {
					continue
				}
				sb.WriteString(t.Field(i).Name)
				sb.WriteByte('=')
				walk(v.Field(i))
				sb.WriteByte(';')
			}
			sb.WriteByte('}')
		case reflect.Slice:
			if v.Type().Elem().Kind() == reflect.Uint8 {
				sb.WriteString(hex.EncodeToString(v.Bytes()))
				return
			}
			sb.WriteByte('[')
			for i := 0; i < v.Len(); i++ {
				walk(v.Index(i))
				sb.WriteByte(',')
			}
			sb.WriteByte(']')
		case reflect.String:
			sb.WriteString(strconv.Quote(v.String()))
		case reflect.Bool:
			sb.WriteString(strconv.FormatBool(v.Bool()))
		case reflect.Uint64, reflect.Uint32, reflect.Uint16, reflect.Uint8, reflect.Uint:
			sb.WriteString(strconv.FormatUint(v.Uint(), 10))
		case reflect.Int64, reflect.Int32, reflect.Int16, reflect.Int8, reflect.Int:
			sb.WriteString(strconv.FormatInt(v.Int(), 10))
		default:
			panic("reflectmut: cannot canonicalise " + v.Type().String())
		}
	}
	walk(reflect.ValueOf(m))
	return sb.String()
}

func short(b []byte) string {
	if len(b) > 6 {
		b = b[:6]
	}
	return hex.EncodeToString(b)
}
