package wire

import (
	"bytes"
	"context"
	"encoding/hex"
	"fmt"
	"math/big"
	"os"
	"reflect"
	"sort"
	"strings"
	"testing"
	"time"

	"github.com/aergoio/aergo/v2/account/key"
	"github.com/aergoio/aergo/v2/config"
	"github.com/aergoio/aergo/v2/contract"
	"github.com/aergoio/aergo/v2/internal/enc/proto"
	"github.com/aergoio/aergo/v2/state"
	"github.com/aergoio/aergo/v2/types"
	"github.com/aergoio/aergo/v2/zz_verif/simclock"
	"github.com/aergoio/aergo/v2/zz_verif/simkit"
	"github.com/aergoio/aergo/v2/zz_verif/simnode"
)

// World "enc" (C19): a producer node and a validator node joined by a corrupting relay.
// Every block the producer builds is (1) judged as a pure object: every single-field
// mutation of its header and of its transactions must change the identifier and, except for
// the signature field itself, the signed digest; the header's tx root and receipts root
// must equal the harness's own Merkle root over the exact lists, and every list edit /
// single-field mutation of a consensus relevant receipt field must change the root;
// (2) sent to the validator through the relay, which first delivers a copy with ONE field
// corrupted (fields enumerated by reflection) and then the genuine block: the validator
// must never hold or serve, under an identifier, content other than the first content
// produced under that identifier, and must still accept the genuine object; (3) read back
// from storage on both nodes, also after restarts, and compared with what the producer's
// execution wrote; (4) the hardfork version table must be monotone, survive restarts, and an
// incompatible reconfiguration must be refused at boot.
type EncWorld struct{ Scratch string }

func (w *EncWorld) Name() string    { return "enc" }
func (w *EncWorld) Props() []string { return []string{"C19"} }

func init() {
	simkit.Register("enc", func(scratch string, t *testing.T) simkit.World { return &EncWorld{Scratch: scratch} })
}

var encUnit = new(big.Int).Exp(big.NewInt(10), big.NewInt(15), nil)

// tx kinds
const (
	ekTransfer = iota
	ekDeploy
	ekCall
	ekFeeDeleg
	ekStake
	ekName
	ekMax
)

type rsnap struct {
	no    uint64
	v2    bool
	canon []string // stored-format canonical text of each receipt as executed by the producer
}

type eenv struct {
	x        *simkit.Ctx
	net      *simnode.Net
	P, V     *simnode.Node
	hf       config.HardforkConfig
	step     int
	blockNo  int
	relayAll bool
	chainN   map[int]uint64
	pending  map[int]int
	deployed [][]byte
	names    int
	blocks   []*types.Block    // genuine blocks, index = height-1
	blockTab map[string]string // block id -> canonical text of the first content produced under it
	txTab    map[string]string // tx id -> canonical text
	snaps    map[string]*rsnap // block id -> receipts as written
	dead     bool
	hdrLv    []Leaf
	txLv     []Leaf
	rcLv     []Leaf
	targets  []string
	genesis  string // canonical text of the genesis info at first boot
	gid      string
	verTab   []int32
	probeHs  []uint64
	later    *simkit.Violation // a violation that does not stop the exploration of this run (reported at its end)
}

// failLater records a violation but lets the run go on: used where the consequence is local
// (a pure function result, or a validator that a restart heals), so that one defect does not
// hide what lies behind it. The first one is reported when the run ends, unless something
// else fails first.
func (e *eenv) failLater(class, sig, detail string) {
	e.x.Logf("VIOLATION (reported at the end of the run unless another one comes first) %s %s", class, sig)
	e.x.Count("deferred."+class+"."+sig, 1)
	// a listed known finding is counted and never occupies the slot: it must not hide a different
	// violation later in the same run
	if _, known := simkit.KnownKeys["C19|"+class+"|"+sig]; known {
		e.x.FailKnownOrStop("C19", class, sig, detail, e.step)
		return
	}
	if e.later == nil {
		e.later = &simkit.Violation{Prop: "C19", Class: class, Sig: sig, Detail: detail, Step: e.step}
	}
}

func canonBlock(b *types.Block) string {
	return Canon(b.GetHeader()) + "|" + Canon(b.GetBody())
}

func cloneTx(t *types.Tx) *types.Tx {
	buf, err := proto.Encode(t)
	if err != nil {
		panic(err)
	}
	c := &types.Tx{}
	if err := proto.Decode(buf, c); err != nil {
		panic(err)
	}
	return c
}

func cloneHeader(h *types.BlockHeader) *types.BlockHeader {
	buf, err := proto.Encode(h)
	if err != nil {
		panic(err)
	}
	c := &types.BlockHeader{}
	if err := proto.Decode(buf, c); err != nil {
		panic(err)
	}
	return c
}

// sutBlockID asks the code under test for the identifier of a header (Hash field emptied first).
func sutBlockID(h *types.BlockHeader) []byte {
	return (&types.Block{Header: h}).BlockHash()
}

func catchP(f func()) (p string) {
	defer func() {
		if r := recover(); r != nil {
			p = fmt.Sprint(r)
		}
	}()
	f()
	return ""
}

func (w *EncWorld) Run(x *simkit.Ctx) {
	thorough := x.Case.Tier == "thorough"
	public := x.CfgInt("public", func(r *simkit.Rng) int { return r.Pick(1, 1) }) == 1
	hfmode := x.CfgInt("hfmode", func(r *simkit.Rng) int { return r.Pick(1, 3, 1, 1, 2, 3) })
	hfseed := x.CfgInt("hfseed", func(r *simkit.Rng) int { return r.Intn(1 << 20) })
	nacc := x.CfgInt("accounts", func(r *simkit.Rng) int { return r.Range(3, 5) })
	nblocks := x.CfgInt("blocks", func(r *simkit.Rng) int {
		if thorough {
			return r.Range(8, 18)
		}
		return r.Range(4, 9)
	})
	txper := x.CfgInt("txper", func(r *simkit.Rng) int {
		if r.Chance(1, 3) {
			return r.Range(6, 12) // larger blocks: Merkle levels with an odd number of nodes above the leaves
		}
		return r.Range(1, 5)
	})
	cbmode := x.CfgInt("coinbase", func(r *simkit.Rng) int { return r.Pick(1, 2) })
	magic := x.CfgInt("magic", func(r *simkit.Rng) int { return r.Intn(1000) })
	relayAll := x.CfgInt("relaytx", func(r *simkit.Rng) int { return r.Pick(1, 2) }) == 1
	tstart := x.CfgInt("tstart", func(r *simkit.Rng) int { return r.Intn(1 << 16) })

	var hf config.HardforkConfig
	switch hfmode {
	case 0:
		hf = config.HardforkConfig{}
	case 1:
		hf = config.HardforkConfig{V2: 2, V3: 3, V4: 5, V5: 7}
	case 2:
		hf = config.HardforkConfig{V2: 1, V3: 1, V4: 4, V5: 1000}
	case 3:
		hf = config.HardforkConfig{V2: 1000, V3: 1001, V4: 1002, V5: 1003}
	case 4:
		hf = config.HardforkConfig{V2: 3, V3: 6, V4: 6, V5: 9}
	default: // generated heights inside the run
		r := simkit.NewRng(uint64(hfseed))
		h := uint64(r.Intn(3))
		var hs [4]uint64
		for i := range hs {
			hs[i] = h
			h += uint64(r.Intn(4))
		}
		hf = config.HardforkConfig{V2: hs[0], V3: hs[1], V4: hs[2], V5: hs[3]}
	}
	scratch := fmt.Sprintf("%s/enc-%d", w.Scratch, os.Getpid())
	_ = os.RemoveAll(scratch)
	magicStr := []string{"verif.enc", "e", "aergo.verif.chain-id.with.a.long.magic", "Enc_1"}[magic%4] + fmt.Sprint(magic/4)
	net := simnode.NewNet(simnode.NetOpts{Scratch: scratch, NBP: 1, NAcc: nacc, Public: public, Hardfork: hf,
		Balance: "1000000000000000000000000", Magic: magicStr})
	defer func() { net.Close(); _ = os.RemoveAll(scratch) }()

	var coinbase []byte
	if cbmode == 1 {
		coinbase = simnode.NewAccount("coinbase", 0).Addr
	}
	e := &eenv{x: x, net: net, hf: hf, relayAll: relayAll, chainN: map[int]uint64{}, pending: map[int]int{},
		blockTab: map[string]string{}, txTab: map[string]string{}, snaps: map[string]*rsnap{}}
	e.hdrLv = Leaves(reflect.TypeOf(types.BlockHeader{}))
	e.txLv = Leaves(reflect.TypeOf(types.TxBody{}))
	e.rcLv = Leaves(reflect.TypeOf(types.Receipt{}))
	e.targets = []string{""}
	for _, l := range e.hdrLv {
		e.targets = append(e.targets, "hdr:"+l.Path)
	}
	e.targets = append(e.targets, "blk:Hash", "tx:Hash")
	for _, l := range e.txLv {
		e.targets = append(e.targets, "txb:"+l.Path)
	}
	e.targets = append(e.targets, "list:drop", "list:dup-tail", "list:swap", "list:replace", "list:append")
	// two-field edits (outside the property's single-field quantifier, recorded as notes only): one
	// byte moved across the boundary of two adjacent variable-length fields of a digest input
	for i := 1; i < len(e.hdrLv); i++ {
		if e.hdrLv[i-1].Kind == "bytes" && e.hdrLv[i].Kind == "bytes" {
			e.targets = append(e.targets, "shift:"+e.hdrLv[i-1].Path+"|"+e.hdrLv[i].Path)
		}
	}
	for i := 1; i < len(e.txLv); i++ {
		if e.txLv[i-1].Kind == "bytes" && e.txLv[i].Kind == "bytes" && e.txLv[i].Path != "Sign" {
			e.targets = append(e.targets, "txshift:"+e.txLv[i-1].Path+"|"+e.txLv[i].Path)
		}
	}
	e.P = net.AddNode(0, coinbase, "dpos")
	e.V = net.AddNode(-1, nil, "dpos")
	for _, h := range []uint64{hf.V2, hf.V3, hf.V4, hf.V5} {
		for _, d := range []uint64{0, 1} {
			if h >= d {
				e.probeHs = append(e.probeHs, h-d)
			}
			e.probeHs = append(e.probeHs, h+d)
		}
	}
	e.probeHs = append(e.probeHs, 0, 1, 2, 1<<63, ^uint64(0))
	sort.Slice(e.probeHs, func(i, j int) bool { return e.probeHs[i] < e.probeHs[j] })
	e.recordBoot()
	if x.Failed() {
		return
	}

	tseq := tstart
	sinceBlock := 0
	gen := func(r *simkit.Rng) *simkit.Step {
		if e.blockNo >= nblocks || e.dead {
			return nil
		}
		seed := int64(r.U64() >> 12)
		c := r.Pick(txper*8, 8, 1, 1, 1, 1)
		if sinceBlock == 0 && c == 1 && r.Chance(3, 4) {
			c = 0 // most blocks carry transactions
		}
		switch c {
		case 0:
			sinceBlock++
			kind := []int{ekTransfer, ekDeploy, ekDeploy, ekCall, ekCall, ekCall, ekFeeDeleg, ekStake, ekName}[r.Intn(9)]
			st := &simkit.Step{Op: "tx", K: []int{r.Intn(nacc), r.Intn(nacc), kind}, V: int64(1 + r.Intn(5000)), S: encScript(r, net)}
			if relayAll && r.Chance(1, 2) { // the relay corrupts the copy it forwards to the validator's pool first
				st.A = 1
				st.N = r.Intn(len(e.txLv) + 1) // which field (the last index: the Hash field next to the body)
				st.B = r.Intn(30)
				st.C = r.Intn(1 << 16)
			}
			return st
		case 1:
			sinceBlock = 0
			tseq++
			return &simkit.Step{Op: "block", V: seed, S: e.targets[tseq%len(e.targets)], B: r.Intn(30), C: r.Intn(1 << 16), N: r.Intn(64), A: r.Intn(2)}
		case 2:
			return &simkit.Step{Op: "restart"}
		case 3:
			// C = 1: an accepted reconfiguration stays in force (both nodes are moved to it, the run goes on
			// under the new heights and later restarts use them); otherwise the nodes return to the original one
			return &simkit.Step{Op: "reconf", A: r.Intn(2), N: r.Intn(4), B: r.Intn(6), V: int64(r.Intn(6)), C: r.Pick(1, 1)}
		case 4:
			return &simkit.Step{Op: "cid", V: seed}
		default:
			return &simkit.Step{Op: "hfver", V: seed}
		}
	}
	for {
		st, idx := x.Next(gen)
		if st == nil || x.Failed() || e.dead {
			break
		}
		e.step = idx
		switch st.Op {
		case "tx":
			e.doTx(st)
		case "block":
			e.doBlock(st)
		case "restart":
			e.doRestart()
		case "reconf":
			e.doReconf(st)
		case "cid":
			e.doCid(st)
		case "hfver":
			e.doHfver(st)
		default:
			x.Noop()
		}
	}
	if !x.Failed() && !e.dead {
		if e.readBack("final", e.P) {
			e.readBack("final", e.V)
		}
	}
	if !x.Failed() && e.later != nil {
		x.Fail(e.later.Prop, e.later.Class, e.later.Sig, e.later.Detail, e.later.Step)
	}
	x.Out.SimMs = int64(e.blockNo) * 1000
}

func encScript(r *simkit.Rng, net *simnode.Net) string {
	var parts []string
	for i := r.Range(1, 4); i > 0; i-- {
		switch r.Pick(3, 1, 2, 5, 2, 3, 1) {
		case 0:
			parts = append(parts, fmt.Sprintf("set k%d v%d", r.Intn(4), r.Intn(1000)))
		case 1:
			parts = append(parts, fmt.Sprintf("del k%d", r.Intn(4)))
		case 2:
			a := net.Accounts[r.Intn(len(net.Accounts))]
			parts = append(parts, fmt.Sprintf("send %s %s", hex.EncodeToString(a.Addr), new(big.Int).Mul(encUnit, big.NewInt(int64(r.Intn(50)))).String()))
		case 3:
			parts = append(parts, fmt.Sprintf("event ev%d", r.Intn(5)))
		case 4:
			parts = append(parts, "fee "+new(big.Int).Mul(encUnit, big.NewInt(int64(r.Intn(20)))).String())
		case 5:
			parts = append(parts, []string{`ret 1`, `ret "str"`, `ret [1,2,{"a":null}]`, `ret {}`, `ret 12345678901234567890`}[r.Intn(5)])
		case 6:
			parts = append(parts, "fail")
		}
	}
	if r.Chance(1, 3) {
		parts = append(parts, "set fd 1")
	}
	return strings.Join(parts, " ; ")
}

// ---------------------------------------------------------------------------------
// transactions
// ---------------------------------------------------------------------------------

func (e *eenv) nextNonce(a int) uint64 { return e.chainN[a] + uint64(e.pending[a]) + 1 }

func (e *eenv) refreshNonces() {
	for i, a := range e.net.Accounts {
		var n uint64
		e.P.Do(func() {
			as, err := state.GetAccountState(a.Addr, e.P.CS.SDB().GetStateDB())
			if err == nil {
				n = as.Nonce()
			}
		})
		e.chainN[i] = n
	}
	e.pending = map[int]int{}
	var left []*types.Tx
	e.P.Do(func() { left = e.P.MP.VerifUnconfirmed() })
	for _, tx := range left {
		for i, a := range e.net.Accounts {
			if bytes.Equal(a.Addr, tx.GetBody().GetAccount()) && tx.GetBody().GetNonce() > e.chainN[i] {
				if d := int(tx.GetBody().GetNonce() - e.chainN[i]); d > e.pending[i] {
					e.pending[i] = d
				}
			}
		}
	}
}

func (e *eenv) buildTx(st *simkit.Step) *types.Tx {
	if len(st.K) < 3 {
		return nil
	}
	net := e.net
	from, to, kind := st.K[0]%len(net.Accounts), st.K[1]%len(net.Accounts), st.K[2]
	if from < 0 || to < 0 {
		return nil
	}
	acc := net.Accounts[from]
	nonce := e.nextNonce(from)
	cid := e.P.ChainIDHash()
	amt := new(big.Int).Mul(encUnit, big.NewInt(st.V))
	switch kind {
	case ekTransfer:
		return simnode.SignedTx(acc, nonce, net.Accounts[to].Addr, amt, types.TxType_TRANSFER, nil, cid, 0)
	case ekDeploy:
		if st.S == "" {
			return nil
		}
		tx := simnode.SignedTx(acc, nonce, nil, amt, types.TxType_DEPLOY, []byte(st.S), cid, 0)
		e.deployed = append(e.deployed, contract.CreateContractID(acc.Addr, nonce))
		return tx
	case ekCall, ekFeeDeleg:
		if len(e.deployed) == 0 || st.S == "" {
			return nil
		}
		c := e.deployed[int(st.V)%len(e.deployed)]
		typ, a := types.TxType_CALL, amt
		if kind == ekFeeDeleg {
			typ, a = types.TxType_FEEDELEGATION, new(big.Int)
		}
		return simnode.SignedTx(acc, nonce, c, a, typ, []byte(st.S), cid, 0)
	case ekStake:
		return simnode.SignedTx(acc, nonce, []byte(types.AergoSystem), new(big.Int).Add(types.StakingMinimum, amt), types.TxType_GOVERNANCE, []byte(`{"Name":"v1stake"}`), cid, 0)
	case ekName:
		e.names++
		name := fmt.Sprintf("enc%09d", (int(st.V)*7919+e.names)%1000000000)
		return simnode.SignedTx(acc, nonce, []byte(types.AergoName), new(big.Int).Mul(encUnit, big.NewInt(1000)), types.TxType_GOVERNANCE, []byte(`{"Name":"v1createName","Args":["`+name+`"]}`), cid, 0)
	}
	return nil
}

func (e *eenv) doTx(st *simkit.Step) {
	x := e.x
	tx := e.buildTx(st)
	if tx == nil {
		x.Noop()
		return
	}
	id := string(ownDigest(tx.Body, ""))
	if !bytes.Equal([]byte(id), tx.Hash) {
		x.Fail("C19", "tx-id-not-documented-digest", "sign", fmt.Sprintf("the id computed for a new transaction (%x) is not sha256 over all body fields in declaration order (%x)", tx.Hash, []byte(id)), e.step)
		return
	}
	var perr error
	if p := catchP(func() { perr = e.P.Submit(tx) }); p != "" {
		x.Logf("producer pool panicked: %s", sigText(p))
		e.dead = true
		return
	}
	x.Logf("tx kind=%d perr=%v", st.K[2], perr)
	if perr == nil {
		e.pending[st.K[0]%len(e.net.Accounts)]++
		if _, dup := e.txTab[id]; !dup {
			e.txTab[id] = Canon(tx.Body)
		}
		x.Count("tx.admitted", 1)
	}
	if !e.relayAll {
		return
	}
	// the relay forwards the transaction to the validator's pool; when asked, a copy with one
	// field corrupted travels first
	corrupted := false
	if st.A == 1 {
		c := cloneTx(tx)
		what := "Hash"
		ok := false
		if st.N >= 0 && st.N < len(e.txLv) {
			what = e.txLv[st.N].Path
			ok = Mutate(c.Body, e.txLv[st.N], st.B, st.C)
		} else {
			c.Hash = mutBytes(c.Hash, st.B, st.C)
			ok = true
		}
		if ok && (Canon(c.Body) != Canon(tx.Body) || !bytes.Equal(c.Hash, tx.Hash)) {
			corrupted = true
			x.Fault("relay-corrupted-tx")
			var cerr error
			if p := catchP(func() { cerr = e.V.Submit(c) }); p != "" {
				x.Fail("C19", "panic-on-corrupted-tx", what, "pool admission panicked on a relayed transaction with field "+what+" altered: "+p, e.step)
				return
			}
			x.Logf("relay corrupted tx field=%s err=%v", what, cerr)
			// whatever the pool now holds under the genuine id must be the genuine content
			for _, h := range [][]byte{tx.Hash, c.Hash} {
				var held *types.Tx
				e.V.Do(func() { held = e.V.MP.VerifExist(h) })
				if held == nil {
					continue
				}
				hid := string(ownDigest(held.Body, ""))
				if want, known := e.txTab[string(h)]; (known && Canon(held.Body) != want) || hid != string(h) {
					x.Fail("C19", "pool-holds-altered-tx-under-id", what, fmt.Sprintf("after relaying a transaction with field %s altered the validator's pool holds, under id %s, a body whose own digest is %s", what, short(h), short([]byte(hid))), e.step)
					return
				}
			}
			if cerr == nil && Canon(c.Body) != Canon(tx.Body) {
				x.Fail("C19", "altered-tx-admitted", what, fmt.Sprintf("the validator's pool admitted a relayed transaction whose field %s was altered after signing", what), e.step)
				return
			}
		}
	}
	var verr error
	if p := catchP(func() { verr = e.V.Submit(tx) }); p != "" {
		x.Logf("validator pool panicked: %s", sigText(p))
		e.dead = true
		return
	}
	x.Logf("relay tx verr=%v", verr)
	if perr == nil && verr != nil && corrupted {
		x.Fail("C19", "genuine-tx-refused-after-corrupt", sigText(verr.Error()), fmt.Sprintf("the validator's pool refused a genuine transaction (%v) after a corrupted copy of it had been relayed; the producer's pool admitted it", verr), e.step)
		return
	}
	if (perr == nil) != (verr == nil) {
		x.Count("note.pools-disagree", 1)
	}
}

// mirrorPool re-offers the producer's pooled transactions to a validator whose pool was lost.
func (e *eenv) mirrorPool() {
	if !e.relayAll {
		return
	}
	var left []*types.Tx
	e.P.Do(func() { left = e.P.MP.VerifUnconfirmed() })
	sort.Slice(left, func(i, j int) bool {
		if c := bytes.Compare(left[i].Body.Account, left[j].Body.Account); c != 0 {
			return c < 0
		}
		return left[i].Body.Nonce < left[j].Body.Nonce
	})
	for _, tx := range left {
		_ = catchP(func() { _ = e.V.Submit(cloneTx(tx)) })
	}
}

// ---------------------------------------------------------------------------------
// blocks
// ---------------------------------------------------------------------------------

func (e *eenv) doBlock(st *simkit.Step) {
	x := e.x
	e.blockNo++
	ts := e.net.Start.Add(time.Duration(e.blockNo) * time.Second).Add(100 * time.Millisecond)
	simclock.Set(ts.Add(50 * time.Millisecond))
	P := e.P
	var blk *types.Block
	var bs *state.BlockState
	var genErr, addErr error
	pan := catchP(func() { blk, bs, genErr = P.Generate(context.Background(), ts) })
	if pan != "" || genErr != nil || blk == nil {
		x.Logf("produce failed: %s %v", sigText(pan), genErr)
		x.Count("note.produce-failed", 1)
		e.dead = true
		return
	}
	no := blk.BlockNo()
	v2 := e.hf.IsV2Fork(no)
	ver := e.hf.Version(no)
	// ---- receipts as the execution wrote them (before anything is stored) ----
	inMem := bs.Receipts()
	snap := &rsnap{no: no, v2: v2}
	for _, r := range inMem.Get() {
		snap.canon = append(snap.canon, storedCanon(r, v2))
		if !v2 && r.FeeDelegation {
			x.Count("note.v1-receipt-drops-fee-delegation-flag", 1)
		}
		if len(r.CumulativeFeeUsed) != 0 {
			x.Count("note.cumulative-fee-set", 1)
		}
	}
	bloom, berr := receiptsBloomBits(inMem)
	if berr != nil {
		panic("verif: cannot encode the executed receipts: " + berr.Error())
	}
	// the harness's own receipts root over what the execution produced, taken now: connecting
	// the block fills presentation info (event tx hash, block, index) into the same objects
	ownRcRoot, rok := ownReceiptsRoot(inMem.Get(), bloom, v2)
	if !rok {
		panic("verif: executed receipt with an unknown status")
	}
	pan = catchP(func() {
		P.Do(func() {
			addErr = P.CS.VerifAddBlock(blk, bs, "")
			if addErr == nil {
				P.LpbNo = blk.BlockNo()
			}
		})
	})
	if pan != "" || addErr != nil {
		x.Logf("producer could not connect its block: %s %v", sigText(pan), addErr)
		x.Count("note.produce-failed", 1)
		e.dead = true
		return
	}
	genuine := simnode.CloneBlock(blk)
	id := string(ownDigest(genuine.Header, ""))
	e.blocks = append(e.blocks, genuine)
	txs := genuine.GetBody().GetTxs()
	nerr, nev := 0, 0
	for _, r := range inMem.Get() {
		if r.Status == "ERROR" {
			nerr++
		}
		nev += len(r.Events)
	}
	x.Count("blocks", 1)
	x.Count(fmt.Sprintf("blocks.v%d", ver), 1)
	x.Count("txs-in-blocks", int64(len(txs)))
	if len(txs) > 0 {
		x.Out.Nontrivial = true
		x.Probe(fmt.Sprintf("receipts-under-version-%d", ver))
	}
	if bloom != nil {
		x.Probe("block-with-event-filter")
	}
	if nerr > 0 {
		x.Probe("block-with-error-receipt")
	}
	x.Digest("blk", ver, len(txs), nerr, nev > 0, len(genuine.Header.CoinbaseAccount) > 0, len(genuine.Header.Consensus) > 0, st.S)
	x.Logf("block %d id=%s txs=%d err=%d events=%d ver=%d", no, short([]byte(id)), len(txs), nerr, nev, ver)

	// ---- (0) identifiers are the documented digests ----
	if !bytes.Equal(genuine.Hash, []byte(id)) || !bytes.Equal(sutBlockID(cloneHeader(genuine.Header)), []byte(id)) {
		x.Fail("C19", "block-id-not-documented-digest", "header", fmt.Sprintf("block %d: identifier %x is not sha256 over all header fields in declaration order (%x)", no, genuine.Hash, []byte(id)), e.step)
		return
	}
	if first, seen := e.blockTab[id]; seen && first != canonBlock(genuine) {
		x.Fail("C19", "two-contents-one-id", "produced", fmt.Sprintf("block %d: the producer built a second content under id %s", no, short([]byte(id))), e.step)
		return
	}
	e.blockTab[id] = canonBlock(genuine)
	e.snaps[id] = snap
	for _, tx := range txs {
		tid := string(ownDigest(tx.Body, ""))
		if !bytes.Equal(tx.Hash, []byte(tid)) {
			x.Fail("C19", "tx-id-not-documented-digest", "in-block", fmt.Sprintf("block %d carries a transaction whose id %s is not the digest of its body %s", no, short(tx.Hash), short([]byte(tid))), e.step)
			return
		}
		if _, ok := e.txTab[tid]; !ok {
			e.txTab[tid] = Canon(tx.Body)
		}
	}

	r := simkit.NewRng(uint64(st.V))
	// ---- (a) binding digests ----
	if !e.checkHeaderBinding(genuine, r, true) {
		return
	}
	for i, tx := range txs {
		if i >= 4 {
			break
		}
		if !e.checkTxBinding(tx, r, true) {
			return
		}
	}
	// generated field values
	if !e.checkHeaderBinding(&types.Block{Header: synthHeader(r)}, r, false) {
		return
	}
	if !e.checkTxBinding(&types.Tx{Body: synthTxBody(r)}, r, false) {
		return
	}
	// ---- (b) roots ----
	if !e.checkRoots(genuine, inMem, bloom, ownRcRoot, v2, r) {
		return
	}
	// ---- (c) storage on the producer ----
	if !e.checkStored(P, genuine, "producer-after-write") {
		return
	}
	// ---- relay to the validator ----
	if !e.relayBlock(genuine, st, r) {
		return
	}
	if !e.checkStored(e.V, genuine, "validator-after-write") {
		return
	}
	e.refreshNonces()
}

func synthBytes(r *simkit.Rng) []byte {
	switch r.Intn(5) {
	case 0:
		return nil
	case 1:
		return r.Bytes(1)
	case 2:
		return r.Bytes(32)
	case 3:
		return r.Bytes(33)
	}
	return r.Bytes(r.Intn(80))
}

func synthHeader(r *simkit.Rng) *types.BlockHeader {
	h := &types.BlockHeader{}
	v := reflect.ValueOf(h).Elem()
	t := v.Type()
	for i := 0; i < t.NumField(); i++ {
		if t.Field(i).PkgPath != "" {
			continue
		}
		f := v.Field(i)
		switch f.Kind() {
		case reflect.Slice:
			f.SetBytes(synthBytes(r))
		case reflect.Uint64, reflect.Uint32:
			f.SetUint(r.U64() >> uint(r.Intn(64)))
		case reflect.Int64, reflect.Int32:
			f.SetInt(int64(r.U64() >> uint(1+r.Intn(63))))
		}
	}
	return h
}

func synthTxBody(r *simkit.Rng) *types.TxBody {
	b := &types.TxBody{}
	v := reflect.ValueOf(b).Elem()
	t := v.Type()
	for i := 0; i < t.NumField(); i++ {
		if t.Field(i).PkgPath != "" {
			continue
		}
		f := v.Field(i)
		switch f.Kind() {
		case reflect.Slice:
			f.SetBytes(synthBytes(r))
		case reflect.Uint64, reflect.Uint32:
			f.SetUint(r.U64() >> uint(r.Intn(64)))
		case reflect.Int64:
			f.SetInt(int64(r.U64() >> uint(1+r.Intn(63))))
		case reflect.Int32:
			f.SetInt(int64(r.Intn(8)))
		}
	}
	return b
}

// checkHeaderBinding: every single-field mutation of the header changes the block id; every
// one except Sign changes the signed bytes, and (real blocks) voids the signature.
func (e *eenv) checkHeaderBinding(b *types.Block, r *simkit.Rng, real bool) bool {
	x := e.x
	src := "generated"
	if real {
		src = "produced"
		ok, err := simnode.CloneBlock(b).VerifySign()
		if !ok || err != nil {
			x.Fail("C19", "genuine-signature-invalid", "block", fmt.Sprintf("block %d does not verify under its own signature: %v", b.BlockNo(), err), e.step)
			return false
		}
	}
	id0 := sutBlockID(cloneHeader(b.Header))
	d0, err0 := cloneHeader(b.Header).VerifBytesForDigest()
	if err0 != nil {
		panic(err0)
	}
	if want := ownDigest(b.Header, ""); !bytes.Equal(id0, want) {
		x.Fail("C19", "block-id-not-documented-digest", src, fmt.Sprintf("%s header: id %s is not sha256 over all header fields (%s)", src, short(id0), short(want)), e.step)
		return false
	}
	for _, lf := range e.hdrLv {
		h := cloneHeader(b.Header)
		if !Mutate(h, lf, r.Intn(30), r.Intn(1<<16)) || Canon(h) == Canon(b.Header) {
			panic("verif: header mutation of " + lf.Path + " had no effect")
		}
		x.Count("mut.header", 1)
		if bytes.Equal(sutBlockID(cloneHeader(h)), id0) {
			x.Fail("C19", "field-not-bound-by-block-id", lf.Path, fmt.Sprintf("%s header: changing only %s (%s -> %s) leaves the block id %s unchanged", src, lf.Path, fieldText(b.Header, lf), fieldText(h, lf), short(id0)), e.step)
			return false
		}
		if lf.Path == "Sign" {
			continue
		}
		d1, _ := h.VerifBytesForDigest()
		if bytes.Equal(d0, d1) {
			x.Fail("C19", "field-not-bound-by-block-signature", lf.Path, fmt.Sprintf("%s header: changing only %s (%s -> %s) leaves the signed bytes unchanged", src, lf.Path, fieldText(b.Header, lf), fieldText(h, lf)), e.step)
			return false
		}
		if real {
			ok, err := (&types.Block{Header: h}).VerifySign()
			if ok && err == nil {
				x.Fail("C19", "field-not-bound-by-block-signature", lf.Path+"-verifies", fmt.Sprintf("block %d with only %s changed still verifies under the old signature", b.BlockNo(), lf.Path), e.step)
				return false
			}
		}
	}
	return true
}

func fieldText(m interface{}, lf Leaf) string {
	v := resolve(m, lf.Path)
	if !v.IsValid() {
		return "?"
	}
	return clip(Canon(v.Interface()))
}

func (e *eenv) checkTxBinding(tx *types.Tx, r *simkit.Rng, real bool) bool {
	x := e.x
	src := "generated"
	if real {
		src = "produced"
		if len(tx.Body.Account) == types.AddressLength {
			if err := key.VerifyTx(cloneTx(tx)); err != nil {
				x.Fail("C19", "genuine-signature-invalid", "tx", fmt.Sprintf("an included transaction does not verify under its sender key: %v", err), e.step)
				return false
			}
		}
	}
	id0 := (&types.Tx{Body: tx.Body}).CalculateTxHash()
	s0 := key.CalculateHashWithoutSign(tx.Body)
	if want := ownDigest(tx.Body, ""); !bytes.Equal(id0, want) {
		x.Fail("C19", "tx-id-not-documented-digest", src, fmt.Sprintf("%s tx: id %s is not sha256 over all body fields (%s)", src, short(id0), short(want)), e.step)
		return false
	}
	if want := ownDigest(tx.Body, "Sign"); !bytes.Equal(s0, want) {
		x.Fail("C19", "tx-signing-digest-not-documented", src, fmt.Sprintf("%s tx: signing digest %s is not sha256 over all body fields but Sign (%s)", src, short(s0), short(want)), e.step)
		return false
	}
	if real && len(tx.Body.Payload) > 0 && len(tx.Body.Account) == types.AddressLength {
		// observation only (two fields change, the property speaks of one): the digests concatenate
		// variable-length fields without lengths, so moving a byte across the Amount|Payload
		// boundary gives another transaction with the same id and a valid signature
		c := cloneTx(&types.Tx{Hash: tx.Hash, Body: tx.Body})
		c.Body.Amount = append(append([]byte{}, c.Body.Amount...), c.Body.Payload[0])
		c.Body.Payload = c.Body.Payload[1:]
		if bytes.Equal(c.CalculateTxHash(), id0) && key.VerifyTx(c) == nil {
			x.Count("note.amount-payload-boundary-shift-keeps-id-and-signature", 1)
			var verr error
			if p := catchP(func() { e.V.Do(func() { verr = e.V.MP.VerifVerifyTx(types.NewTransaction(c)) }) }); p == "" && verr == nil {
				x.Count("note.boundary-shifted-tx-passes-pool-validation", 1)
			}
		}
	}
	for _, lf := range e.txLv {
		c := cloneTx(&types.Tx{Hash: tx.Hash, Body: tx.Body})
		if !Mutate(c.Body, lf, r.Intn(30), r.Intn(1<<16)) || Canon(c.Body) == Canon(tx.Body) {
			panic("verif: tx mutation of " + lf.Path + " had no effect")
		}
		x.Count("mut.tx", 1)
		if bytes.Equal(c.CalculateTxHash(), id0) {
			x.Fail("C19", "field-not-bound-by-tx-id", lf.Path, fmt.Sprintf("%s tx: changing only %s (%s -> %s) leaves the tx id %s unchanged", src, lf.Path, fieldText(tx.Body, lf), fieldText(c.Body, lf), short(id0)), e.step)
			return false
		}
		if lf.Path == "Sign" {
			continue
		}
		if bytes.Equal(key.CalculateHashWithoutSign(c.Body), s0) {
			x.Fail("C19", "field-not-bound-by-tx-signature", lf.Path, fmt.Sprintf("%s tx: changing only %s (%s -> %s) leaves the signed digest unchanged", src, lf.Path, fieldText(tx.Body, lf), fieldText(c.Body, lf)), e.step)
			return false
		}
		if real && len(tx.Body.Account) == types.AddressLength {
			var verr error
			if p := catchP(func() { verr = key.VerifyTx(c) }); p == "" && verr == nil {
				x.Fail("C19", "field-not-bound-by-tx-signature", lf.Path+"-verifies", fmt.Sprintf("an included transaction with only %s changed still verifies under the old signature", lf.Path), e.step)
				return false
			}
		}
	}
	return true
}

// checkRoots: header roots against the harness's own Merkle roots; list edits and
// single-field receipt mutations must move the roots.
func (e *eenv) checkRoots(b *types.Block, inMem *types.Receipts, bloom []byte, ownRcRoot []byte, v2 bool, r *simkit.Rng) bool {
	x := e.x
	txs := b.GetBody().GetTxs()
	var leaves [][]byte
	for _, tx := range txs {
		leaves = append(leaves, ownDigest(tx.Body, ""))
	}
	if want := ownMerkle(leaves); !bytes.Equal(want, b.Header.TxsRootHash) {
		x.Fail("C19", "tx-root-mismatch", "header", fmt.Sprintf("block %d: header tx root %s differs from the Merkle root over the ids of its %d transactions (%s)", b.BlockNo(), short(b.Header.TxsRootHash), len(txs), short(want)), e.step)
		return false
	}
	want := ownRcRoot
	if !bytes.Equal(want, b.Header.ReceiptsRootHash) {
		x.Fail("C19", "receipts-root-mismatch", fmt.Sprintf("header-v2=%v", v2), fmt.Sprintf("block %d: header receipts root %s differs from the Merkle root over its %d receipts (+filter: %v) in the version's format (%s)", b.BlockNo(), short(b.Header.ReceiptsRootHash), len(inMem.Get()), bloom != nil, short(want)), e.step)
		return false
	}
	// ---- transaction list edits ----
	root0 := types.CalculateTxsRootHash(txs)
	if !bytes.Equal(root0, b.Header.TxsRootHash) {
		x.Fail("C19", "tx-root-mismatch", "recomputed", "CalculateTxsRootHash over the block's own list differs from the header", e.step)
		return false
	}
	other := simnode.SignedTx(e.net.Accounts[0], 4242, e.net.Accounts[0].Addr, big.NewInt(1), types.TxType_TRANSFER, nil, []byte("x"), 0)
	for _, op := range []string{"drop", "dup-tail", "swap", "replace", "append"} {
		ed, ok := editTxList(txs, op, r, other)
		if !ok {
			continue
		}
		x.Count("mut.txlist", 1)
		if bytes.Equal(types.CalculateTxsRootHash(ed), root0) {
			detail := fmt.Sprintf("block %d: the tx list after %q (%d -> %d entries) has the same tx root %s", b.BlockNo(), op, len(txs), len(ed), short(root0))
			if op == "dup-tail" {
				e.failLater("tx-root-not-binding", op, detail)
				continue
			}
			x.Fail("C19", "tx-root-not-binding", op, detail, e.step)
			return false
		}
	}
	// ---- receipts: clone through the storage format of the block's version ----
	mk := func() *types.Receipts {
		raw, err := inMem.MarshalBinary()
		if err != nil {
			panic(err)
		}
		rs := &types.Receipts{}
		rs.SetHardFork(&e.hf, b.BlockNo())
		if err := rs.UnmarshalBinary(raw); err != nil {
			panic("verif: receipts do not decode: " + err.Error())
		}
		return rs
	}
	base := mk()
	if got := base.MerkleRoot(); !bytes.Equal(got, b.Header.ReceiptsRootHash) {
		x.Fail("C19", "receipts-root-mismatch", "after-storage-codec", fmt.Sprintf("block %d: the receipts decoded from their storage encoding give root %s, the header has %s", b.BlockNo(), short(got), short(b.Header.ReceiptsRootHash)), e.step)
		return false
	}
	n := len(base.Get())
	if n == 0 {
		return true
	}
	for _, lf := range e.rcLv {
		top := lf.Path
		if i := strings.IndexAny(top, ".["); i >= 0 {
			top = top[:i]
		}
		if rcptMemoryInfo[top] || (rcptV2Only[top] && !v2) {
			continue
		}
		if strings.HasPrefix(lf.Path, "Events[0].") && evMemoryInfo[lf.Path[len("Events[0]."):]] {
			continue
		}
		rs := mk()
		i := r.Intn(n)
		if strings.HasPrefix(lf.Path, "Events[0].") { // pick a receipt that has events
			i = -1
			for j, rc := range rs.Get() {
				if len(rc.Events) > 0 {
					i = j
					break
				}
			}
			if i < 0 {
				continue
			}
		}
		rc := rs.Get()[i]
		if lf.Path == "Ret" && rc.Status == "ERROR" {
			x.Count("note.error-receipt-ret-not-committed", 1)
			continue
		}
		before := Canon(rc)
		kind := r.Intn(30)
		if lf.Path == "Status" { // another legal status (an unknown status string is a different matter)
			alt := []string{"SUCCESS", "CREATED", "ERROR", "RECREATED"}
			rc.Status = alt[(indexOf(alt, rc.Status)+1+r.Intn(3))%4]
		} else if !Mutate(rc, lf, kind, r.Intn(1<<16)) {
			continue
		}
		if Canon(rc) == before {
			continue
		}
		x.Count("mut.receipt", 1)
		if bytes.Equal(rs.MerkleRoot(), b.Header.ReceiptsRootHash) {
			x.Fail("C19", "receipt-field-not-bound-by-root", fmt.Sprintf("%s-v2=%v", lf.Path, v2), fmt.Sprintf("block %d (receipt format v2=%v): changing only %s of receipt %d (status %s) leaves the receipts root unchanged", b.BlockNo(), v2, lf.Path, i, rc.Status), e.step)
			return false
		}
	}
	// the return value is committed for every execution that did not fail, whatever its status
	// (SUCCESS, CREATED, RECREATED): same receipt list, only the Ret of one receipt differs
	for _, status := range []string{"SUCCESS", "CREATED", "RECREATED"} {
		i := r.Intn(n)
		var roots [2][]byte
		for k, ret := range []string{`"ret-one"`, `"ret-two"`} {
			rs := mk()
			rc := rs.Get()[i]
			rc.Status = status
			rc.Ret = ret
			roots[k] = rs.MerkleRoot()
		}
		x.Count("mut.receipt-ret-by-status", 1)
		if bytes.Equal(roots[0], roots[1]) {
			x.Fail("C19", "receipt-field-not-bound-by-root", fmt.Sprintf("Ret-%s-v2=%v", status, v2), fmt.Sprintf("block %d (receipt format v2=%v): two receipt lists that differ only in the return value of a %s receipt have the same receipts root", b.BlockNo(), v2, status), e.step)
			return false
		}
	}
	// receipt list edits
	for _, op := range []string{"drop", "dup-tail", "swap"} {
		rs := mk()
		l := rs.Get()
		var ed []*types.Receipt
		switch op {
		case "drop":
			ed = l[:n-1]
		case "dup-tail":
			ed = append(append([]*types.Receipt{}, l...), l[n-1])
		case "swap":
			if n < 2 || Canon(l[0]) == Canon(l[1]) {
				continue
			}
			ed = append([]*types.Receipt{l[1], l[0]}, l[2:]...)
		}
		rs.Set(ed)
		x.Count("mut.receiptlist", 1)
		if bytes.Equal(rs.MerkleRoot(), b.Header.ReceiptsRootHash) {
			detail := fmt.Sprintf("block %d: the receipt list after %q (%d -> %d entries, block filter %v) has the same receipts root", b.BlockNo(), op, n, len(ed), bloom != nil)
			if op == "dup-tail" {
				e.failLater("receipts-root-not-binding", op, detail)
				continue
			}
			x.Fail("C19", "receipts-root-not-binding", op, detail, e.step)
			return false
		}
	}
	return true
}

func indexOf(l []string, s string) int {
	for i, v := range l {
		if v == s {
			return i
		}
	}
	return 0
}

// dupGroupHits counts root-preserving repetitions of more than one trailing transaction.
var dupGroupHits int64

func editTxList(txs []*types.Tx, op string, r *simkit.Rng, other *types.Tx) ([]*types.Tx, bool) {
	n := len(txs)
	cp := append([]*types.Tx{}, txs...)
	switch op {
	case "drop":
		if n == 0 {
			return nil, false
		}
		return cp[:n-1], true
	case "dup-tail":
		if n == 0 {
			return nil, false
		}
		// The Merkle tree pads an odd level with a copy of its last node, so repeating the trailing
		// group of 2^k transactions keeps the root whenever the number of such groups is odd
		// ([a,b,c]+[c]; [t1..t6]+[t5,t6]; ...). Prefer a root-preserving repetition when one exists.
		var opts [][]*types.Tx
		for g := 1; g <= n; g *= 2 {
			cand := append(append([]*types.Tx{}, cp...), cp[n-g:]...)
			if bytes.Equal(types.CalculateTxsRootHash(cand), types.CalculateTxsRootHash(cp)) {
				opts = append(opts, cand)
			}
		}
		if len(opts) > 0 {
			pick := opts[r.Intn(len(opts))]
			if len(pick)-n > 1 {
				dupGroupHits++
			}
			return pick, true
		}
		return append(cp, cp[n-1]), true
	case "swap":
		if n < 2 {
			return nil, false
		}
		i := r.Intn(n - 1)
		cp[i], cp[i+1] = cp[i+1], cp[i]
		return cp, true
	case "replace":
		if n == 0 {
			return nil, false
		}
		cp[r.Intn(n)] = other
		return cp, true
	case "append":
		return append(cp, other), true
	}
	return nil, false
}

// corrupt builds the relay's altered copy of a block; it returns nil when the target does
// not apply to this block (e.g. a transaction field of an empty block).
func (e *eenv) corrupt(b *types.Block, st *simkit.Step, r *simkit.Rng) (*types.Block, string) {
	c := simnode.CloneBlock(b)
	t := st.S
	txs := c.Body.Txs
	switch {
	case strings.HasPrefix(t, "hdr:"):
		for _, lf := range e.hdrLv {
			if lf.Path == t[4:] && Mutate(c.Header, lf, st.B, st.C) {
				return c, "header"
			}
		}
	case t == "blk:Hash":
		c.Hash = mutBytes(c.Hash, st.B, st.C)
		return c, "announced-id"
	case t == "tx:Hash":
		if len(txs) > 0 {
			i := st.N % len(txs)
			txs[i].Hash = mutBytes(txs[i].Hash, st.B, st.C)
			return c, "tx-id"
		}
	case strings.HasPrefix(t, "txb:"):
		if len(txs) > 0 {
			for _, lf := range e.txLv {
				if lf.Path == t[4:] && Mutate(txs[st.N%len(txs)].Body, lf, st.B, st.C) {
					return c, "tx-body"
				}
			}
		}
	case strings.HasPrefix(t, "shift:"):
		if shiftBoundary(c.Header, t[6:]) {
			return c, "two-field-shift"
		}
	case strings.HasPrefix(t, "txshift:"):
		if len(txs) > 0 && shiftBoundary(txs[st.N%len(txs)].Body, t[8:]) {
			return c, "two-field-shift"
		}
	case strings.HasPrefix(t, "list:"):
		other := simnode.SignedTx(e.net.Accounts[0], 4242, e.net.Accounts[0].Addr, big.NewInt(1), types.TxType_TRANSFER, nil, []byte("x"), 0)
		before := dupGroupHits
		if ed, ok := editTxList(txs, t[5:], r, other); ok {
			if dupGroupHits > before {
				e.x.Probe("relay-repeated-trailing-group-same-root")
			}
			c.Body.Txs = ed
			return c, "tx-list"
		}
	}
	return nil, ""
}

// shiftBoundary moves one byte across the boundary of two adjacent byte-string fields "A|B".
func shiftBoundary(m interface{}, pair string) bool {
	ab := strings.Split(pair, "|")
	if len(ab) != 2 {
		return false
	}
	a, b := resolve(m, ab[0]), resolve(m, ab[1])
	if !a.IsValid() || !b.IsValid() || !a.CanSet() || !b.CanSet() {
		return false
	}
	x, y := append([]byte{}, a.Bytes()...), append([]byte{}, b.Bytes()...)
	switch {
	case len(x) > 0:
		y = append([]byte{x[len(x)-1]}, y...)
		x = x[:len(x)-1]
	case len(y) > 0:
		x = append(x, y[0])
		y = y[1:]
	default:
		return false
	}
	a.SetBytes(x)
	b.SetBytes(y)
	return true
}

// relayShift: a two-field edit that keeps the digest input (and so the id) unchanged. The
// property quantifies over single fields, so nothing here is a violation; what the validator
// does is recorded as notes, and a poisoned validator is healed by a restart.
func (e *eenv) relayShift(b, c *types.Block, st *simkit.Step) bool {
	x := e.x
	V := e.V
	id := ownDigest(b.Header, "")
	pair := st.S
	x.Fault("relay-two-field-boundary-shift")
	sameID := bytes.Equal(ownDigest(c.Header, ""), id)
	sameTx := bytes.Equal(types.CalculateTxsRootHash(c.Body.Txs), b.Header.TxsRootHash)
	if sameID && sameTx {
		x.Count("note.boundary-shift-keeps-block-id."+pair, 1)
	}
	var cerr, gerr error
	if p := catchP(func() { cerr = V.AddBlock(c, "relay") }); p != "" {
		x.Count("note.boundary-shift-panics-validator."+pair, 1)
		x.Logf("validator panicked on boundary shift %s: %s", pair, sigText(p))
		e.dead = true
		return false
	}
	var got *types.Block
	V.Do(func() { got, _ = V.CS.GetBlock(id) })
	if got != nil && canonBlock(got) != e.blockTab[string(id)] {
		// the validator now holds other content than the producer under the same id; nothing
		// further can be compared on this validator, the run ends here (a note, see above)
		x.Count("note.boundary-shifted-content-held-under-genuine-id."+pair, 1)
		x.Logf("relay boundary shift %s: shifted content accepted under the genuine id (err=%v)", pair, cerr)
		e.dead = true
		return false
	}
	p := catchP(func() { gerr = V.AddBlock(b, "relay") })
	x.Logf("relay boundary shift %s sameid=%v err=%v then genuine err=%v %s", pair, sameID, cerr, gerr, sigText(p))
	if p != "" || gerr != nil || !bytes.Equal(ownDigest(V.Best().Header, ""), id) {
		x.Count("note.genuine-block-refused-after-boundary-shift."+pair, 1)
		x.Fault("restart")
		if !e.reboot(V) {
			return false
		}
		gerr = nil
		if p := catchP(func() { gerr = V.AddBlock(b, "relay") }); p != "" || gerr != nil || !bytes.Equal(ownDigest(V.Best().Header, ""), id) {
			x.Logf("validator cannot be healed after boundary shift: %v %s", gerr, sigText(p))
			e.dead = true
			return false
		}
		e.mirrorPool()
	} else {
		x.Count("note.genuine-block-accepted-after-boundary-shift."+pair, 1)
	}
	return true
}

// relayBlock delivers the block to the validator: optionally a corrupted copy first, then
// the genuine one.
func (e *eenv) relayBlock(b *types.Block, st *simkit.Step, r *simkit.Rng) bool {
	x := e.x
	V := e.V
	id := ownDigest(b.Header, "")
	no := b.BlockNo()
	held := func(h []byte) *types.Block {
		var got *types.Block
		V.Do(func() { got, _ = V.CS.GetBlock(h) })
		return got
	}
	delivered := false
	var cerr error
	c, class := e.corrupt(b, st, r)
	if c != nil && class == "two-field-shift" {
		if canonBlock(c) == canonBlock(b) {
			c = nil
		} else {
			return e.relayShift(b, c, st)
		}
	}
	if c != nil && (canonBlock(c) != canonBlock(b) || !bytes.Equal(c.Hash, b.Hash)) {
		delivered = true
		x.Fault("relay-corrupted-" + class)
		x.Count("relay.corrupt."+st.S, 1)
		cid := ownDigest(c.Header, "")
		altered := canonBlock(c) != canonBlock(b)
		if p := catchP(func() { cerr = V.AddBlock(c, "relay") }); p != "" {
			x.Fail("C19", "panic-on-corrupted-block", st.S, fmt.Sprintf("validator panicked on block %d with %s altered: %s", no, st.S, p), e.step)
			return false
		}
		x.Logf("relay corrupted block %d target=%s err=%v", no, st.S, cerr)
		// whatever the validator holds under the genuine id must be the genuine content
		if g := held(id); g != nil && canonBlock(g) != e.blockTab[string(id)] {
			x.Fail("C19", "altered-content-under-genuine-id", st.S, fmt.Sprintf("after delivering block %d with %s altered the validator holds, under the genuine id %s, content that differs from what the producer built", no, st.S, short(id)), e.step)
			return false
		}
		// an altered header has another digest and no valid signature: it must not be held at all
		if !bytes.Equal(cid, id) {
			if g := held(cid); g != nil {
				x.Fail("C19", "altered-header-accepted", st.S, fmt.Sprintf("the validator stored block %d with header field %s altered (id %s, signature not re-made)", no, st.S, short(cid)), e.step)
				return false
			}
		}
		// under the announced id (if it is a false one) nothing may be held
		if !bytes.Equal(c.Hash, id) && !bytes.Equal(c.Hash, cid) {
			if g := held(c.Hash); g != nil {
				x.Fail("C19", "content-under-false-id", st.S, fmt.Sprintf("the validator holds block %d under the announced id %s which is not the digest of its header", no, short(c.Hash)), e.step)
				return false
			}
		}
		if altered {
			if vb := V.Best(); bytes.Equal(vb.BlockHash(), id) && canonBlock(held(id)) != e.blockTab[string(id)] {
				x.Fail("C19", "altered-content-under-genuine-id", st.S+"-best", "the validator's best block is the altered content", e.step)
				return false
			}
			x.Probe("corrupted-delivery-before-genuine")
		}
	}
	var gerr error
	if p := catchP(func() { gerr = V.AddBlock(b, "relay") }); p != "" {
		x.Logf("validator panicked on the genuine block: %s", sigText(p))
		x.Fail("C19", "panic-on-genuine-block", st.S, fmt.Sprintf("validator panicked on genuine block %d (after corrupted copy %q): %s", no, st.S, p), e.step)
		return false
	}
	vb := V.Best()
	if gerr != nil || !bytes.Equal(ownDigest(vb.Header, ""), id) {
		if !delivered {
			// no corrupted copy travelled: a validator that rejects the producer's block is not
			// a matter of binding encodings (C02 judges that); the run ends here
			x.Logf("validator refused the genuine block %d without any corruption: %v", no, gerr)
			x.Count("note.validator-refused-uncorrupted-block", 1)
			e.dead = true
			return false
		}
		what := class
		if st.S == "list:dup-tail" {
			what = "tx-list-dup-tail"
		}
		e.failLater("genuine-block-refused-after-corrupt", what, fmt.Sprintf("the validator refused genuine block %d (err=%v, its best is %d) after the relay had delivered a copy with %q altered (corrupted copy was answered with: %v): the identifier did not protect the genuine content", no, gerr, vb.BlockNo(), st.S, cerr))
		// a restart forgets the validator's negative cache: heal it and deliver again so that the
		// exploration can go on
		x.Fault("restart")
		if !e.reboot(V) {
			return false
		}
		gerr = nil
		if p := catchP(func() { gerr = V.AddBlock(b, "relay") }); p != "" || gerr != nil || !bytes.Equal(ownDigest(V.Best().Header, ""), id) {
			x.Fail("C19", "genuine-block-refused-after-corrupt", what+"-even-after-restart", fmt.Sprintf("the validator refuses genuine block %d even after a restart: %v %s", no, gerr, p), e.step)
			return false
		}
		e.mirrorPool()
	}
	if g := held(id); g == nil || canonBlock(g) != e.blockTab[string(id)] {
		x.Fail("C19", "altered-content-under-genuine-id", st.S+"-final", fmt.Sprintf("after accepting genuine block %d the validator serves other content under its id", no), e.step)
		return false
	}
	return true
}

// checkStored: the receipts a node serves for a block equal what the producer's execution
// wrote (in the storage format of the block's version), with the presentation info filled in
// from the block; transactions are served under their ids with their genuine content.
func (e *eenv) checkStored(n *simnode.Node, b *types.Block, when string) bool {
	x := e.x
	id := ownDigest(b.Header, "")
	snap := e.snaps[string(id)]
	var rs *types.Receipts
	var err error
	n.Do(func() { rs, err = n.CS.VerifGetReceipts(id) })
	if len(snap.canon) == 0 {
		if err == nil && rs != nil && len(rs.Get()) != 0 {
			x.Fail("C19", "receipts-readback-differs", "phantom", fmt.Sprintf("%s: block %d has no receipts but %d are served", when, b.BlockNo(), len(rs.Get())), e.step)
			return false
		}
		return true
	}
	if err != nil || rs == nil {
		x.Fail("C19", "receipts-readback-differs", "missing", fmt.Sprintf("%s: receipts of block %d cannot be read: %v", when, b.BlockNo(), err), e.step)
		return false
	}
	got := rs.Get()
	if len(got) != len(snap.canon) {
		x.Fail("C19", "receipts-readback-differs", "count", fmt.Sprintf("%s: block %d: %d receipts read, %d written", when, b.BlockNo(), len(got), len(snap.canon)), e.step)
		return false
	}
	txs := b.GetBody().GetTxs()
	for i, r := range got {
		if c := storedCanon(r, snap.v2); c != snap.canon[i] {
			x.Fail("C19", "receipts-readback-differs", fmt.Sprintf("content-v2=%v", snap.v2), fmt.Sprintf("%s: block %d receipt %d read back as %s, written as %s", when, b.BlockNo(), i, clip(c), clip(snap.canon[i])), e.step)
			return false
		}
		if r.BlockNo != b.BlockNo() || !bytes.Equal(r.BlockHash, id) || int(r.TxIndex) != i || i >= len(txs) || !bytes.Equal(r.TxHash, txs[i].Hash) {
			x.Fail("C19", "receipt-served-under-wrong-id", "position", fmt.Sprintf("%s: block %d receipt %d is served with block %d/%s index %d tx %s", when, b.BlockNo(), i, r.BlockNo, short(r.BlockHash), r.TxIndex, short(r.TxHash)), e.step)
			return false
		}
	}
	x.Count("readback.receipts", int64(len(got)))
	for i, tx := range txs {
		var t *types.Tx
		var idx *types.TxIdx
		n.Do(func() { t, idx, err = n.CS.VerifGetTx(tx.Hash) })
		if err != nil || t == nil {
			x.Fail("C19", "tx-readback-differs", "missing", fmt.Sprintf("%s: tx %d of block %d cannot be read by id: %v", when, i, b.BlockNo(), err), e.step)
			return false
		}
		if Canon(t.Body) != e.txTab[string(tx.Hash)] || !bytes.Equal(idx.BlockHash, id) || int(idx.Idx) != i {
			x.Fail("C19", "tx-readback-differs", "content", fmt.Sprintf("%s: tx %d of block %d is served with other content or position under id %s", when, i, b.BlockNo(), short(tx.Hash)), e.step)
			return false
		}
	}
	return true
}
