package wire

import (
	"bytes"
	"crypto/sha256"
	"encoding/binary"
	"fmt"
	"reflect"

	"github.com/aergoio/aergo/v2/types"
)

// ---------------------------------------------------------------------------------
// The harness's own reading of the documented constructions (never calls the repo's
// digest writers or internal/merkle).
// ---------------------------------------------------------------------------------

// ownDigest is sha256 over the exported fields of a flat message in declaration order:
// integers as fixed-width little endian, byte strings raw - the documented construction
// of the block id (all header fields), the block signing digest (all but Sign), the tx id
// (all body fields) and the tx signing digest (all but Sign).
func ownDigest(msg interface{}, skip string) []byte {
	h := sha256.New()
	v := reflect.ValueOf(msg)
	for v.Kind() == reflect.Ptr {
		v = v.Elem()
	}
	t := v.Type()
	for i := 0; i < t.NumField(); i++ {
		if t.Field(i).PkgPath != "" || t.Field(i).Name == skip {
			continue
		}
		f := v.Field(i)
		switch f.Kind() {
		case reflect.Slice:
			h.Write(f.Bytes())
		case reflect.Uint64:
			var b [8]byte
			binary.LittleEndian.PutUint64(b[:], f.Uint())
			h.Write(b[:])
		case reflect.Int64:
			var b [8]byte
			binary.LittleEndian.PutUint64(b[:], uint64(f.Int()))
			h.Write(b[:])
		case reflect.Int32:
			var b [4]byte
			binary.LittleEndian.PutUint32(b[:], uint32(f.Int()))
			h.Write(b[:])
		case reflect.Uint32:
			var b [4]byte
			binary.LittleEndian.PutUint32(b[:], uint32(f.Uint()))
			h.Write(b[:])
		default:
			panic("ownDigest: unexpected field kind " + f.Kind().String() + " in " + t.Name() + "." + t.Field(i).Name)
		}
	}
	return h.Sum(nil)
}

// ownMerkle: leaves padded with "absent" to a power of two; a parent of two absent
// children is absent; an absent right child is replaced by a copy of the left one;
// parent = sha256(left || right); no leaves = 32 zero bytes; one leaf = that leaf.
func ownMerkle(leaves [][]byte) []byte {
	if len(leaves) == 0 {
		return make([]byte, 32)
	}
	n := 1
	for n < len(leaves) {
		n <<= 1
	}
	cur := make([][]byte, n)
	copy(cur, leaves)
	for len(cur) > 1 {
		next := make([][]byte, len(cur)/2)
		for i := range next {
			l, r := cur[2*i], cur[2*i+1]
			if l == nil {
				continue
			}
			if r == nil {
				r = l
			}
			s := sha256.Sum256(append(append([]byte{}, l...), r...))
			next[i] = s[:]
		}
		cur = next
	}
	return cur[0]
}

func le32(n int) []byte {
	var b [4]byte
	binary.LittleEndian.PutUint32(b[:], uint32(n))
	return b[:]
}

// ownReceiptLeaf is the commitment of one receipt under the receipt format of the block
// (v2 = the V2 fork is active at the block's height).
func ownReceiptLeaf(r *types.Receipt, v2 bool) ([]byte, bool) {
	var b bytes.Buffer
	b.Write(r.ContractAddress)
	var st byte
	switch r.Status {
	case "SUCCESS":
		st = 0
	case "CREATED":
		st = 1
	case "ERROR":
		st = 2
	case "RECREATED":
		st = 3
	default:
		return nil, false
	}
	b.WriteByte(st)
	if st != 2 { // the return value of executions that did not fail
		b.Write(le32(len(r.Ret)))
		b.WriteString(r.Ret)
	}
	b.Write(r.TxHash)
	b.Write(le32(len(r.FeeUsed)))
	b.Write(r.FeeUsed)
	b.Write(le32(len(r.CumulativeFeeUsed)))
	b.Write(r.CumulativeFeeUsed)
	if v2 {
		var g [8]byte
		binary.LittleEndian.PutUint64(g[:], r.GasUsed)
		b.Write(g[:])
		if r.FeeDelegation {
			b.WriteByte(1)
		} else {
			b.WriteByte(0)
		}
	}
	if len(r.Bloom) == 0 {
		b.WriteByte(0)
	} else {
		b.WriteByte(1)
		b.Write(r.Bloom)
	}
	b.Write(le32(len(r.Events)))
	for _, ev := range r.Events {
		b.Write(ev.ContractAddress)
		b.Write(le32(len(ev.EventName)))
		b.WriteString(ev.EventName)
		b.Write(le32(len(ev.JsonArgs)))
		b.WriteString(ev.JsonArgs)
		b.Write(ev.TxHash)
		b.Write(le32(int(ev.EventIdx)))
	}
	s := sha256.Sum256(b.Bytes())
	return s[:], true
}

// ownBloomLeaf: the block's event filter is the last leaf: sha256 over the filter's
// serialisation (m=2048 bits, k=3, bit-set length, 256 bytes of bits).
func ownBloomLeaf(bits []byte) []byte {
	var b bytes.Buffer
	var w [8]byte
	for _, v := range []uint64{2048, 3, 2048} {
		binary.BigEndian.PutUint64(w[:], v)
		b.Write(w[:])
	}
	b.Write(bits)
	s := sha256.Sum256(b.Bytes())
	return s[:]
}

// receiptsParts splits the storage encoding of a receipts list into the block filter
// bits (nil if absent); the receipts themselves are taken from the object.
func receiptsBloomBits(rs *types.Receipts) ([]byte, error) {
	raw, err := rs.MarshalBinary()
	if err != nil {
		return nil, err
	}
	if len(raw) < 1 {
		return nil, fmt.Errorf("empty receipts encoding")
	}
	if raw[0] == 1 {
		if len(raw) < 1+256 {
			return nil, fmt.Errorf("short receipts encoding")
		}
		return raw[1 : 1+256], nil
	}
	return nil, nil
}

func ownReceiptsRoot(list []*types.Receipt, bloom []byte, v2 bool) ([]byte, bool) {
	var leaves [][]byte
	for _, r := range list {
		l, ok := ownReceiptLeaf(r, v2)
		if !ok {
			return nil, false
		}
		leaves = append(leaves, l)
	}
	if bloom != nil {
		leaves = append(leaves, ownBloomLeaf(bloom))
	}
	return ownMerkle(leaves), true
}

// addressOrigin: a name stored in a 33-byte address field (0x80, name, zero padding) is
// presented as the bare name by the query path.
func addressOrigin(a []byte) []byte {
	if len(a) > 0 && a[0] == 0x80 {
		if i := bytes.IndexByte(a, 0); i >= 1 {
			return a[1:i]
		}
	}
	return a
}

// Receipt fields by role. Anything not listed is treated as stored and committed, so a
// field added later must round-trip and must be bound by the root.
var rcptMemoryInfo = map[string]bool{"BlockNo": true, "BlockHash": true, "TxIndex": true, "From": true, "To": true}
var rcptV2Only = map[string]bool{"GasUsed": true, "FeeDelegation": true}
var evMemoryInfo = map[string]bool{"BlockHash": true, "BlockNo": true, "TxIndex": true}

// evNotStored: the storage format re-derives an event's tx hash from its receipt.
var evNotStored = map[string]bool{"TxHash": true}

// storedCanon is the canonical text of what the storage format of the block's version
// keeps of a receipt (contract address in presented form).
func storedCanon(r *types.Receipt, v2 bool) string {
	cp := &types.Receipt{ContractAddress: addressOrigin(r.ContractAddress)}
	// every other stored field is copied by reflection (also fields added later)
	src, dst := reflect.ValueOf(r).Elem(), reflect.ValueOf(cp).Elem()
	t := src.Type()
	for i := 0; i < t.NumField(); i++ {
		f := t.Field(i)
		if f.PkgPath != "" || rcptMemoryInfo[f.Name] || f.Name == "Events" || f.Name == "ContractAddress" {
			continue
		}
		if rcptV2Only[f.Name] && !v2 {
			continue
		}
		dst.Field(i).Set(src.Field(i))
	}
	for _, ev := range r.Events {
		e2 := &types.Event{}
		es, ed := reflect.ValueOf(ev).Elem(), reflect.ValueOf(e2).Elem()
		et := es.Type()
		for i := 0; i < et.NumField(); i++ {
			f := et.Field(i)
			if f.PkgPath != "" || evMemoryInfo[f.Name] || evNotStored[f.Name] {
				continue
			}
			ed.Field(i).Set(es.Field(i))
		}
		cp.Events = append(cp.Events, e2)
	}
	return Canon(cp)
}
