package wire

import (
	"encoding/binary"
	"errors"
	"io"

	"github.com/aergoio/aergo/v2/zz_verif/simkit"
)

// ---------------------------------------------------------------------------------
// One-directional simulated byte source for the framing checks: delivers a prepared
// byte string in seeded fragments, can continue with an endless pseudo-random stream,
// counts what the reader pulled and refuses to deliver more than a harness cap.
// ---------------------------------------------------------------------------------

var errHarnessCap = errors.New("verif: reader pulled more than the harness cap")

type chunkReader struct {
	data     []byte
	pos      int
	frag     *simkit.Rng // fragment sizes (derived from the step, never from the run's Rng)
	maxChunk int         // 0 = whatever the caller asks for
	endless  bool
	fill     *simkit.Rng
	pulled   int64
	cap      int64
	reads    int
	capHit   bool
}

func (c *chunkReader) Read(p []byte) (int, error) {
	c.reads++
	if len(p) == 0 {
		return 0, nil
	}
	n := len(p)
	if c.maxChunk > 0 {
		m := 1 + c.frag.Intn(c.maxChunk)
		if m < n {
			n = m
		}
	}
	if c.pos < len(c.data) {
		if rem := len(c.data) - c.pos; n > rem {
			n = rem
		}
		copy(p, c.data[c.pos:c.pos+n])
		c.pos += n
		c.pulled += int64(n)
		return n, nil
	}
	if !c.endless {
		return 0, io.EOF
	}
	if c.cap > 0 && c.pulled+int64(n) > c.cap {
		c.capHit = true
		return 0, errHarnessCap
	}
	// endless tail: cheap pseudo-random fill, 8 bytes per draw
	for i := 0; i < n; i += 8 {
		var t [8]byte
		binary.LittleEndian.PutUint64(t[:], c.fill.U64())
		copy(p[i:n], t[:])
	}
	c.pulled += int64(n)
	return n, nil
}

type sink struct{ b []byte }

func (s *sink) Write(p []byte) (int, error) { s.b = append(s.b, p...); return len(p), nil }

type nopCloser struct{ closed int }

func (n *nopCloser) Close() error { n.closed++; return nil }

// ---------------------------------------------------------------------------------
// Duplex pipe for the handshake checks. Two endpoint goroutines exist, but exactly one
// of them (or the simulator) runs at any time: an endpoint that finds its inbox empty
// hands the baton back to the simulator, which decides who runs next. The outcome is
// therefore independent of the Go scheduler. A middlebox sits on each direction: it
// reassembles frames from the written bytes and may rewrite / drop / cut them.
// ---------------------------------------------------------------------------------

type evKind int

const (
	evBlocked evKind = iota
	evDone
)

type event struct {
	id   int
	kind evKind
}

type duplex struct {
	yield  chan event
	resume [2]chan struct{}
	inbox  [2][]byte // bytes deliverable to endpoint i
	closed [2]bool   // no more bytes will ever arrive at endpoint i
	raw    [2][]byte // bytes written by endpoint i, not yet framed by the middlebox
	sent   [2]int    // bytes forwarded from endpoint i so far
	got    [2][]byte // every byte that was actually delivered to endpoint i's inbox (after all faults)
	frag   *simkit.Rng
	maxChk int
	// middlebox hooks: onFrame gets a whole frame written by endpoint `from` and returns the
	// bytes to forward; cutAfter[from] >= 0 closes the connection after that many forwarded bytes.
	onFrame  func(from int, frame []byte) []byte
	cutAfter [2]int
	cutFired bool
	stalled  bool
	closes   [2]int
}

func newDuplex(frag *simkit.Rng, maxChunk int) *duplex {
	d := &duplex{yield: make(chan event), frag: frag, maxChk: maxChunk}
	d.resume[0], d.resume[1] = make(chan struct{}), make(chan struct{})
	d.cutAfter = [2]int{-1, -1}
	return d
}

type endpoint struct {
	d  *duplex
	id int
}

func (e *endpoint) Read(p []byte) (int, error) {
	d := e.d
	for len(d.inbox[e.id]) == 0 {
		if d.closed[e.id] {
			return 0, io.EOF
		}
		d.yield <- event{e.id, evBlocked}
		<-d.resume[e.id]
	}
	n := len(p)
	if d.maxChk > 0 {
		if m := 1 + d.frag.Intn(d.maxChk); m < n {
			n = m
		}
	}
	if n > len(d.inbox[e.id]) {
		n = len(d.inbox[e.id])
	}
	copy(p, d.inbox[e.id][:n])
	d.inbox[e.id] = d.inbox[e.id][n:]
	return n, nil
}

func (e *endpoint) Write(p []byte) (int, error) {
	d := e.d
	to := 1 - e.id
	if d.closed[to] && d.closed[e.id] {
		return 0, io.ErrClosedPipe
	}
	d.raw[e.id] = append(d.raw[e.id], p...)
	// middlebox: forward whole frames only (48-byte header, big-endian length at offset 4)
	for len(d.raw[e.id]) >= 48 {
		l := int(binary.BigEndian.Uint32(d.raw[e.id][4:8]))
		if len(d.raw[e.id]) < 48+l {
			break
		}
		frame := append([]byte{}, d.raw[e.id][:48+l]...)
		d.raw[e.id] = d.raw[e.id][48+l:]
		out := frame
		if d.onFrame != nil {
			out = d.onFrame(e.id, frame)
		}
		d.forward(e.id, out)
	}
	return len(p), nil
}

func (d *duplex) forward(from int, b []byte) {
	to := 1 - from
	if d.closed[to] {
		return
	}
	if c := d.cutAfter[from]; c >= 0 && d.sent[from]+len(b) > c {
		keep := c - d.sent[from]
		if keep < 0 {
			keep = 0
		}
		d.inbox[to] = append(d.inbox[to], b[:keep]...)
		d.got[to] = append(d.got[to], b[:keep]...)
		d.sent[from] += keep
		// the connection dies: nothing more arrives anywhere
		d.closed[0], d.closed[1] = true, true
		d.cutFired = true
		return
	}
	d.inbox[to] = append(d.inbox[to], b...)
	d.got[to] = append(d.got[to], b...)
	d.sent[from] += len(b)
}

func (e *endpoint) Close() error { e.d.closes[e.id]++; return nil }

// run drives the two endpoint functions to completion and returns nothing; results are
// written by the functions themselves (each runs strictly alternating with the simulator).
func (d *duplex) run(f0, f1 func(rw io.ReadWriteCloser)) {
	fs := []func(rw io.ReadWriteCloser){f0, f1}
	const (
		stReady = iota
		stBlocked
		stDone
	)
	state := [2]int{stReady, stReady}
	for i := 0; i < 2; i++ {
		i := i
		go func() {
			<-d.resume[i]
			fs[i](&endpoint{d: d, id: i})
			d.yield <- event{i, evDone}
		}()
	}
	for guard := 0; ; guard++ {
		if guard > 100000 {
			panic("verif: handshake scheduler did not terminate")
		}
		pick := -1
		// the dialer (0) first, then whoever has something to read
		for i := 0; i < 2; i++ {
			if state[i] == stReady || (state[i] == stBlocked && (len(d.inbox[i]) > 0 || d.closed[i])) {
				pick = i
				break
			}
		}
		if pick < 0 {
			if state[0] == stDone && state[1] == stDone {
				return
			}
			// every live endpoint waits for bytes that will never come: this is where a real
			// connection sits until the handshake timeout closes the stream. Close it.
			d.stalled = true
			d.closed[0], d.closed[1] = true, true
			continue
		}
		d.resume[pick] <- struct{}{}
		ev := <-d.yield
		if ev.kind == evDone {
			state[ev.id] = stDone
		} else {
			state[ev.id] = stBlocked
		}
	}
}
