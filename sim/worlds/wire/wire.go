// Package wire holds two worlds.
//
// World "wire" (C18, framing and handshake clauses): the real p2p/v030.V030ReadWriter and
// the real V200 / V033 handshakers (built by the real p2p version manager) run over byte
// pipes owned by the simulator (fragmenting, truncating, garbage-injecting, endless) with a
// middlebox that decodes the Status message, mutates one field chosen from a field list
// obtained by reflection, and re-encodes it.
//
// World "enc" (C19): see enc.go.
package wire

import (
	"bytes"
	"encoding/binary"
	"fmt"
	"runtime"
	"runtime/debug"
	"strings"
	"testing"

	"github.com/aergoio/aergo/v2/p2p/p2pcommon"
	v030 "github.com/aergoio/aergo/v2/p2p/v030"
	"github.com/aergoio/aergo/v2/zz_verif/simkit"
)

type World struct {
	Scratch string
	T       *testing.T
}

func (w *World) Name() string    { return "wire" }
func (w *World) Props() []string { return []string{"C18"} }

func init() {
	simkit.Register("wire", func(scratch string, t *testing.T) simkit.World { return &World{Scratch: scratch, T: t} })
}

const hdrLen = 48
const bufioSize = 4096 // bufio.NewReader default: the "small buffer" a reader may pull ahead

var knownSubs = []uint32{0, 1, 2, 3, 4, 5, 6, 7, 8, 9, 0x10, 0x11, 0x12, 0x13, 0x16, 0x17, 0x18, 0x19, 0x1a, 0x1b, 0x1c,
	0x20, 0x21, 0x22, 0x30, 0x3101, 0x3102, 0x3103, 0x7fffffff, 0x80000000, 0xffffffff}

type wenv struct {
	x     *simkit.Ctx
	real  uint32 // the production limit (handshake steps run under it)
	limit uint32
	step  int
	hs    *hsLab
}

func (w *World) Run(x *simkit.Ctx) {
	thorough := x.Case.Tier == "thorough"
	limit := uint32(x.CfgInt("limit", func(r *simkit.Rng) int {
		c := []int{0, 1, 47, 48, 49, 100, 4000, 4095, 4096, 4097, 8192, 20000, 65536, 100000}
		if thorough {
			c = append(c, 1<<18, 1<<20, 1<<22)
		}
		return c[r.Intn(len(c))]
	}))
	nsteps := x.CfgInt("steps", func(r *simkit.Rng) int {
		if thorough {
			return r.Range(60, 200)
		}
		return r.Range(30, 90)
	})
	// the framing limit is a package variable: lower it for this run, restore afterwards
	oldLimit := p2pcommon.MaxPayloadLength
	p2pcommon.MaxPayloadLength = limit
	defer func() { p2pcommon.MaxPayloadLength = oldLimit }()

	e := &wenv{x: x, limit: limit, real: oldLimit}
	e.hs = newHsLab(x)
	defer e.hs.close()
	nleaf := len(e.hs.leaves)

	made := 0
	hsSeq := x.CfgInt("hsstart", func(r *simkit.Rng) int { return r.Intn(1 << 20) })
	gen := func(r *simkit.Rng) *simkit.Step {
		if made >= nsteps {
			return nil
		}
		made++
		seed := int64(r.U64() >> 12)
		switch r.Pick(4, 2, 3, 3, 10) {
		case 0:
			return &simkit.Step{Op: "rt", V: seed, N: r.Range(1, 4), A: r.Intn(8)}
		case 1:
			return &simkit.Step{Op: "trunc", V: seed, A: r.Intn(70), B: r.Pick(1, 3) - 1}
		case 2:
			return &simkit.Step{Op: "garbage", V: seed, A: r.Intn(5)}
		case 3:
			return &simkit.Step{Op: "oversize", V: seed, A: r.Intn(4)}
		}
		// handshake: the mutated field cycles through the reflection list so that every run
		// touches every field (systematic over fields, sampled over values)
		hsSeq++
		st := &simkit.Step{Op: "hs", V: seed}
		st.N = []int{200, 33, 32, 31}[r.Pick(12, 8, 1, 1)]
		st.A = 0 // configuration mismatch kind
		if r.Chance(1, 4) {
			st.A = 1 + r.Intn(mmMax-1)
		}
		st.B = r.Pick(2, 5, 4) // 0 no middlebox, 1 dialer->listener, 2 listener->dialer
		if st.A != 0 && r.Chance(2, 3) {
			st.B = 0
		}
		st.S = e.hs.leaves[hsSeq%nleaf].Path
		st.C = r.Intn(30)                                    // mutation kind
		st.K = []int{r.Intn(1 << 16), r.Pick(8, 1, 1), 0, 0} // pos, pipe fault (0 none, 1 cut, 2 garbage), offset, role
		st.K[2] = r.Intn(400)
		st.K[3] = r.Pick(4, 2, 2, 3) // 0 watcher, 1 producer, 2 legacy role value, 3 agent with certificates
		return st
	}
	for {
		st, idx := x.Next(gen)
		if st == nil || x.Failed() {
			break
		}
		e.step = idx
		switch st.Op {
		case "rt":
			e.doRoundTrip(st)
		case "trunc":
			e.doTrunc(st)
		case "garbage":
			e.doGarbage(st)
		case "oversize":
			e.doOversize(st)
		case "hs":
			e.hs.do(e, st)
		default:
			x.Noop()
		}
	}
	x.Out.SimMs = int64(len(x.Case.Steps))
}

// ------------------------------------------------------------------------------------
// framing
// ------------------------------------------------------------------------------------

type wmsg struct {
	sub      uint32
	ts       int64
	id, orig [16]byte
	payload  []byte
}

func (e *wenv) genMsg(r *simkit.Rng, size int) wmsg {
	m := wmsg{ts: int64(r.U64())}
	if r.Chance(3, 4) {
		m.sub = knownSubs[r.Intn(len(knownSubs))]
	} else {
		m.sub = uint32(r.U64())
	}
	copy(m.id[:], r.Bytes(16))
	if r.Bool() {
		copy(m.orig[:], r.Bytes(16))
	}
	m.payload = r.Bytes(size)[:size]
	return m
}

func (e *wenv) pickSize(r *simkit.Rng, class int) int {
	l := int(e.limit)
	var s int
	switch class {
	case 0:
		s = 0
	case 1:
		s = l
	case 2:
		s = l - 1
	case 3:
		s = []int{1, 47, 48, 49, 4047, 4048, 4049, 4095, 4096, 4097, 8191, 8192}[r.Intn(12)]
	case 4:
		s = r.Intn(200)
	default:
		s = r.Intn(l + 1)
	}
	if s < 0 {
		s = 0
	}
	if s > l {
		s = l
	}
	return s
}

func (m wmsg) toReal() p2pcommon.Message {
	return p2pcommon.NewMessageValue(p2pcommon.SubProtocol(m.sub), p2pcommon.MsgID(m.id), p2pcommon.MsgID(m.orig), m.ts, m.payload)
}

// frameBytes is the harness's own encoder of the documented frame.
func (m wmsg) frameBytes(announce uint32) []byte {
	b := make([]byte, hdrLen, hdrLen+len(m.payload))
	binary.BigEndian.PutUint32(b[0:4], m.sub)
	binary.BigEndian.PutUint32(b[4:8], announce)
	binary.BigEndian.PutUint64(b[8:16], uint64(m.ts))
	copy(b[16:32], m.id[:])
	copy(b[32:48], m.orig[:])
	return append(b, m.payload...)
}

func sameMsg(got p2pcommon.Message, want wmsg) string {
	if got == nil {
		return "nil message without error"
	}
	if got.Subprotocol().Uint32() != want.sub {
		return fmt.Sprintf("sub-protocol %#x != %#x", got.Subprotocol().Uint32(), want.sub)
	}
	if got.Timestamp() != want.ts {
		return "timestamp differs"
	}
	if got.ID() != p2pcommon.MsgID(want.id) {
		return "message id differs"
	}
	if got.OriginalID() != p2pcommon.MsgID(want.orig) {
		return "original id differs"
	}
	if int(got.Length()) != len(want.payload) {
		return fmt.Sprintf("length %d != %d", got.Length(), len(want.payload))
	}
	if !bytes.Equal(got.Payload(), want.payload) {
		return "payload differs"
	}
	return ""
}

// readGuard calls ReadMsg, turning a panic of the code under test into a value.
func readGuard(rw *v030.V030ReadWriter) (m p2pcommon.Message, err error, pan string) {
	defer func() {
		if r := recover(); r != nil {
			pan = fmt.Sprint(r)
		}
	}()
	m, err = rw.ReadMsg()
	return
}

func writeGuard(rw *v030.V030ReadWriter, m p2pcommon.Message) (err error, pan string) {
	defer func() {
		if r := recover(); r != nil {
			pan = fmt.Sprint(r)
		}
	}()
	err = rw.WriteMsg(m)
	return
}

func sigText(s string) string {
	var b strings.Builder
	for _, c := range s {
		if c >= '0' && c <= '9' {
			continue
		}
		b.WriteRune(c)
	}
	out := b.String()
	if i := strings.IndexByte(out, '\n'); i >= 0 {
		out = out[:i]
	}
	if len(out) > 80 {
		out = out[:80]
	}
	return out
}

func fragOf(r *simkit.Rng) int {
	return []int{0, 1, 2, 3, 7, 16, 47, 48, 49, 100, 1000, 4096, 5000}[r.Intn(13)]
}

// doRoundTrip: Read(Write(m)) == m for a sequence of messages, then a clean end of stream;
// a message of limit+1 bytes must not get through.
func (e *wenv) doRoundTrip(st *simkit.Step) {
	x := e.x
	r := simkit.NewRng(uint64(st.V))
	n := st.N
	if n < 1 || n > 16 {
		n = 1
	}
	var msgs []wmsg
	out := &sink{}
	wr := v030.NewV030ReadWriter(bytes.NewReader(nil), out, &nopCloser{})
	for i := 0; i < n; i++ {
		cls := st.A
		if i > 0 {
			cls = r.Intn(8)
		}
		m := e.genMsg(r, e.pickSize(r, cls))
		err, pan := writeGuard(wr, m.toReal())
		if pan != "" || err != nil {
			x.Fail("C18", "write-refused-legal-message", sigText(fmt.Sprint(err, pan)), fmt.Sprintf("WriteMsg(sub=%#x, %d bytes, limit %d): err=%v panic=%s", m.sub, len(m.payload), e.limit, err, pan), e.step)
			return
		}
		msgs = append(msgs, m)
		x.Digest("rt", e.limit, sizeClass(len(m.payload), int(e.limit)), m.sub < 0x4000)
	}
	// what went onto the wire must be the documented frame
	var want []byte
	for _, m := range msgs {
		want = append(want, m.frameBytes(uint32(len(m.payload)))...)
	}
	if !bytes.Equal(out.b, want) {
		x.Fail("C18", "frame-bytes-differ", "write", fmt.Sprintf("WriteMsg produced %d bytes that differ from the documented frame (%d bytes)", len(out.b), len(want)), e.step)
		return
	}
	// oversize write: limit+1
	over := e.genMsg(r, int(e.limit)+1)
	out2 := &sink{}
	wr2 := v030.NewV030ReadWriter(bytes.NewReader(nil), out2, &nopCloser{})
	oerr, opan := writeGuard(wr2, over.toReal())
	if opan != "" {
		x.Fail("C18", "panic-in-write", sigText(opan), "WriteMsg panicked on a payload of limit+1 bytes: "+opan, e.step)
		return
	}
	stream := append([]byte{}, out.b...)
	overAppended := false
	if oerr == nil {
		// the writer let it through: then the reader must refuse it
		stream = append(stream, out2.b...)
		overAppended = true
		x.Probe("writer-accepted-limit-plus-1")
	} else {
		x.Probe("writer-refused-limit-plus-1")
	}
	cr := &chunkReader{data: stream, frag: r.Fork(1), maxChunk: fragOf(r)}
	if cr.maxChunk > 0 {
		x.Fault("fragmented-read")
	}
	rd := v030.NewV030ReadWriter(cr, &sink{}, &nopCloser{})
	var kept []p2pcommon.Message
	for i, m := range msgs {
		got, err, pan := readGuard(rd)
		if pan != "" {
			x.Fail("C18", "panic-in-read", sigText(pan), fmt.Sprintf("ReadMsg panicked on a well-formed stream (message %d, %d bytes): %s", i, len(m.payload), pan), e.step)
			return
		}
		if err != nil {
			x.Fail("C18", "roundtrip-read-failed", sigText(err.Error()), fmt.Sprintf("ReadMsg failed on message %d of a well-formed stream (sub=%#x, %d bytes, limit %d, fragments<=%d): %v", i, m.sub, len(m.payload), e.limit, cr.maxChunk, err), e.step)
			return
		}
		if d := sameMsg(got, m); d != "" {
			x.Fail("C18", "roundtrip-mismatch", sigText(d), fmt.Sprintf("Read(Write(m)) != m for message %d (sub=%#x, %d bytes): %s", i, m.sub, len(m.payload), d), e.step)
			return
		}
		kept = append(kept, got)
	}
	// a receiver may keep a message while it reads on (a notice relayed later, a response matched to
	// its request): what was handed out must still be what was written once the stream is drained
	for i, m := range msgs {
		if d := sameMsg(kept[i], m); d != "" {
			x.Fail("C18", "roundtrip-mismatch", "kept-message-changed/"+sigText(d), fmt.Sprintf("message %d (sub=%#x, %d bytes) was read back correctly, but after %d further message(s) were read from the same connection it has changed: %s", i, m.sub, len(m.payload), len(msgs)-1-i, d), e.step)
			return
		}
	}
	if len(msgs) > 1 {
		x.Probe("messages-kept-across-reads")
	}
	x.Count("rt.messages", int64(len(msgs)))
	got, err, pan := readGuard(rd)
	if pan != "" {
		x.Fail("C18", "panic-in-read", sigText(pan), "ReadMsg panicked at the end of the stream: "+pan, e.step)
		return
	}
	if err == nil {
		what := "at the end of the stream"
		if overAppended {
			what = "for a frame of limit+1 bytes"
		}
		x.Fail("C18", "read-accepted-bad-frame", "roundtrip-tail", fmt.Sprintf("ReadMsg returned a message (%d bytes) %s, limit %d", got.Length(), what, e.limit), e.step)
		return
	}
	x.Logf("rt n=%d limit=%d tailerr=%s", len(msgs), e.limit, sigText(err.Error()))
}

func sizeClass(n, limit int) string {
	switch {
	case n == 0:
		return "0"
	case n == limit:
		return "limit"
	case n == limit-1:
		return "limit-1"
	case n < 48:
		return "<48"
	case n < 4096:
		return "<4096"
	case n == 4096:
		return "4096"
	case n < 65536:
		return "<64k"
	}
	return "big"
}

// modelParse is the harness's own reading of a byte stream: the messages a correct reader
// returns before it must fail.
func (e *wenv) modelParse(b []byte) (msgs []wmsg) {
	for {
		if len(b) < hdrLen {
			return
		}
		l := binary.BigEndian.Uint32(b[4:8])
		if l > e.limit || uint64(len(b)-hdrLen) < uint64(l) {
			return
		}
		m := wmsg{sub: binary.BigEndian.Uint32(b[0:4]), ts: int64(binary.BigEndian.Uint64(b[8:16]))}
		copy(m.id[:], b[16:32])
		copy(m.orig[:], b[32:48])
		m.payload = b[hdrLen : hdrLen+int(l)]
		msgs = append(msgs, m)
		b = b[hdrLen+int(l):]
	}
}

// readAll reads a finite stream to its first error and compares with the model.
func (e *wenv) readAll(stream []byte, r *simkit.Rng, what string) bool {
	x := e.x
	want := e.modelParse(stream)
	cr := &chunkReader{data: stream, frag: r.Fork(2), maxChunk: fragOf(r)}
	rd := v030.NewV030ReadWriter(cr, &sink{}, &nopCloser{})
	for i := 0; ; i++ {
		got, err, pan := readGuard(rd)
		if pan != "" {
			x.Fail("C18", "panic-in-read", sigText(pan), fmt.Sprintf("ReadMsg panicked on a %s stream of %d bytes (message %d): %s", what, len(stream), i, pan), e.step)
			return false
		}
		if err != nil {
			if i < len(want) {
				x.Fail("C18", "read-failed-on-complete-frame", what, fmt.Sprintf("%s stream of %d bytes: message %d is complete and within the limit but ReadMsg failed: %v", what, len(stream), i, err), e.step)
				return false
			}
			return true
		}
		if i >= len(want) {
			x.Fail("C18", "read-accepted-bad-frame", what, fmt.Sprintf("%s stream of %d bytes: ReadMsg returned message %d (%d bytes) although the stream holds only %d complete legal frames", what, len(stream), i, got.Length(), len(want)), e.step)
			return false
		}
		if d := sameMsg(got, want[i]); d != "" {
			x.Fail("C18", "roundtrip-mismatch", what, fmt.Sprintf("%s stream: message %d: %s", what, i, d), e.step)
			return false
		}
		if i > len(stream) {
			panic("verif: reader does not terminate on a finite stream")
		}
	}
}

// doTrunc: a well-formed stream cut at one offset or, when B != 0, at every offset.
func (e *wenv) doTrunc(st *simkit.Step) {
	r := simkit.NewRng(uint64(st.V))
	var stream []byte
	for i := 0; i < 2; i++ {
		sz := st.A
		if sz < 0 {
			sz = 0
		}
		if i == 1 {
			sz = r.Intn(20)
		}
		if sz > int(e.limit) {
			sz = int(e.limit)
		}
		m := e.genMsg(r, sz)
		stream = append(stream, m.frameBytes(uint32(sz))...)
	}
	if st.B == 0 {
		off := r.Intn(len(stream) + 1)
		e.x.Fault("truncated-stream")
		if e.readAll(stream[:off], r, "truncated") {
			e.x.Logf("trunc off=%d/%d ok", off, len(stream))
		}
		return
	}
	for off := 0; off <= len(stream); off++ {
		if !e.readAll(stream[:off], r, "truncated") {
			return
		}
	}
	e.x.Fault("truncated-stream")
	e.x.Probe("truncation-at-every-offset")
	e.x.Count("trunc.offsets", int64(len(stream)+1))
	e.x.Logf("trunc all %d ok", len(stream))
}

// doGarbage: arbitrary bytes, or a well-formed stream with damage.
func (e *wenv) doGarbage(st *simkit.Step) {
	r := simkit.NewRng(uint64(st.V))
	var stream []byte
	mk := func() []byte {
		sz := e.pickSize(r, 3+r.Intn(3))
		if sz > 5000 {
			sz = r.Intn(5000)
		}
		if sz > int(e.limit) {
			sz = int(e.limit)
		}
		m := e.genMsg(r, sz)
		return m.frameBytes(uint32(sz))
	}
	switch st.A {
	case 0: // pure noise
		stream = r.Bytes(r.Intn(300))
	case 1: // good frame, then noise
		stream = append(mk(), r.Bytes(r.Intn(200))...)
	case 2: // one bit flipped somewhere in a good stream (often the header)
		stream = append(mk(), mk()...)
		p := r.Intn(len(stream))
		if r.Bool() {
			p = r.Intn(hdrLen)
		}
		stream[p] ^= 1 << uint(r.Intn(8))
	case 3: // noise inserted between two good frames
		stream = append(mk(), r.Bytes(1+r.Intn(60))...)
		stream = append(stream, mk()...)
	default: // length field rewritten
		stream = mk()
		binary.BigEndian.PutUint32(stream[4:8], uint32(r.U64())>>uint(r.Intn(32)))
		stream = append(stream, mk()...)
	}
	e.x.Fault("garbage-stream")
	if e.readAll(stream, r, "damaged") {
		e.x.Logf("garbage kind=%d len=%d model=%d ok", st.A, len(stream), len(e.modelParse(stream)))
	}
}

// doOversize: a header announcing more than the limit, followed by an endless stream.
// ReadMsg must fail after pulling at most header + one read-ahead buffer, and must not
// allocate anything like the announced size.
func (e *wenv) doOversize(st *simkit.Step) {
	x := e.x
	r := simkit.NewRng(uint64(st.V))
	lo := uint64(e.limit) + 1
	hi := uint64(1<<32 - 1)
	var announce uint64
	switch st.A {
	case 0:
		announce = lo
	case 1:
		announce = hi
	case 2: // log-uniform
		span := hi - lo + 1
		sh := uint(r.Intn(33))
		announce = lo + (r.U64()>>sh)%span
	default:
		announce = lo + uint64(r.Intn(1<<20))
	}
	if announce > hi {
		announce = hi
	}
	m := e.genMsg(r, 0)
	hdr := m.frameBytes(uint32(announce))
	slack := int64(1 << 20)
	cr := &chunkReader{data: hdr, frag: r.Fork(3), maxChunk: fragOf(r), endless: true, fill: r.Fork(4),
		cap: int64(e.limit) + slack + int64(hdrLen+bufioSize)}
	rd := v030.NewV030ReadWriter(cr, &sink{}, &nopCloser{})

	// measure allocation of the call alone: GC parked, single goroutine
	old := debug.SetGCPercent(-1)
	var m0, m1 runtime.MemStats
	runtime.ReadMemStats(&m0)
	got, err, pan := readGuard(rd)
	runtime.ReadMemStats(&m1)
	debug.SetGCPercent(old)
	alloc := int64(m1.TotalAlloc - m0.TotalAlloc)

	x.Fault("oversize-header")
	x.Digest("oversize", e.limit, st.A, announce > uint64(e.limit)+uint64(slack), cr.maxChunk)
	if announce-uint64(e.limit) > uint64(slack) {
		x.Probe("oversize-beyond-alloc-threshold")
	}
	if pan != "" {
		x.Fail("C18", "panic-in-read", sigText(pan), fmt.Sprintf("ReadMsg panicked on a header announcing %d bytes (limit %d): %s", announce, e.limit, pan), e.step)
		return
	}
	if err == nil {
		x.Fail("C18", "read-accepted-bad-frame", "oversize", fmt.Sprintf("ReadMsg returned a message of %d bytes for a header announcing %d bytes, limit %d", got.Length(), announce, e.limit), e.step)
		return
	}
	if cr.capHit || cr.pulled > int64(hdrLen+bufioSize) {
		x.Fail("C18", "oversize-frame-kept-reading", "pulled", fmt.Sprintf("header announces %d bytes (limit %d): ReadMsg pulled %d bytes from the connection before failing (allowed: header %d + read-ahead %d)", announce, e.limit, cr.pulled, hdrLen, bufioSize), e.step)
		return
	}
	if alloc > int64(e.limit)+slack {
		x.Fail("C18", "oversize-frame-allocated", "totalalloc", fmt.Sprintf("header announces %d bytes (limit %d): ReadMsg allocated %d bytes before failing (threshold limit + 1 MiB)", announce, e.limit, alloc), e.step)
		return
	}
	x.Logf("oversize announce=%d limit=%d pulled=%d err=%s", announce, e.limit, cr.pulled, sigText(err.Error()))
}
