package syncw

import (
	"bytes"
	"errors"
	"fmt"
	"math/big"

	"github.com/aergoio/aergo/v2/chain"
	"github.com/aergoio/aergo/v2/types"
)

// ---- real, linked blocks with deterministic content ---------------------------------

var chainIDBytes = func() []byte { b, _ := types.NewChainID().Bytes(); return b }()

const tsBase = int64(1_600_000_000_000_000_000)

// mkBlock builds a real types.Block on prev (nil: genesis). tag separates forks that
// share a parent (it goes into the timestamp, hence into the header digest).
func mkBlock(prev *types.Block, tag int) *types.Block {
	var bi *types.BlockHeaderInfo
	var root []byte
	if prev == nil {
		bi = &types.BlockHeaderInfo{No: 0, Ts: tsBase, ChainId: chainIDBytes}
	} else {
		bi = types.NewBlockHeaderInfoFromPrevBlock(prev, 0, types.DummyBlockVersionner(0))
		bi.Ts = tsBase + int64(bi.No)*1000 + int64(tag)
		root = prev.GetHeader().GetBlocksRootHash()
	}
	b := types.NewBlock(bi, root, nil, nil, nil, nil)
	b.BlockHash() // fills the Hash field with the header digest
	return b
}

// forge returns a copy of b that keeps b's identifier (the Hash field the p2p block
// receiver compares) but carries an altered header.
func forge(b *types.Block, prevHash []byte, no uint64) *types.Block {
	h := b.GetHeader()
	return &types.Block{
		Hash: append([]byte{}, b.GetHash()...),
		Header: &types.BlockHeader{
			ChainID:          h.GetChainID(),
			PrevBlockHash:    prevHash,
			BlockNo:          no,
			Timestamp:        h.GetTimestamp(),
			BlocksRootHash:   h.GetBlocksRootHash(),
			TxsRootHash:      h.GetTxsRootHash(),
			ReceiptsRootHash: h.GetReceiptsRootHash(),
			Confirms:         h.GetConfirms(),
			PubKey:           h.GetPubKey(),
			CoinbaseAccount:  h.GetCoinbaseAccount(),
			Sign:             h.GetSign(),
			Consensus:        h.GetConsensus(),
		},
		Body: b.GetBody(),
	}
}

// ---- local chain: a block tree with a longest-chain main branch ----------------------
//
// It plays the part of the node's ChainService: it is the types.ChainAccessor handed to
// the syncer (best block, block by hash, main-chain hash by number) and it answers
// GetAnchors and AddBlock. AddBlock follows chain.addBlock's contract as far as the
// syncer can see it: a block that is already stored succeeds, a block whose parent is
// unknown is an orphan (error), a block whose content does not match its identifier is
// refused, a stored block that makes its branch the longest switches the main chain.

var (
	errOrphan   = chain.ErrBlockOrphan
	errForged   = errors.New("block content does not match its identifier")
	errInjected = errors.New("chain service refused the block (injected)")
	errNoHash   = errors.New("no main-chain block with that number")
	errNoBlock  = errors.New("no block with that hash")
)

type lchain struct {
	main    []*types.Block
	byHash  map[string]*types.Block
	version int // bumped whenever the main chain changes
	reorgs  int
}

func newLchain(blocks []*types.Block) *lchain {
	c := &lchain{byHash: map[string]*types.Block{}}
	for _, b := range blocks {
		c.main = append(c.main, b)
		c.byHash[string(b.GetHash())] = b
	}
	return c
}

func (c *lchain) best() *types.Block { return c.main[len(c.main)-1] }

func (c *lchain) onMain(b *types.Block) bool {
	no := b.BlockNo()
	return no < uint64(len(c.main)) && bytes.Equal(c.main[no].GetHash(), b.GetHash())
}

func (c *lchain) addBlock(b *types.Block, forged bool) error {
	if forged {
		return errForged
	}
	if _, ok := c.byHash[string(b.GetHash())]; ok {
		return nil
	}
	parent, ok := c.byHash[string(b.GetHeader().GetPrevBlockHash())]
	if !ok || parent.BlockNo()+1 != b.BlockNo() {
		return errOrphan
	}
	c.byHash[string(b.GetHash())] = b
	if b.BlockNo() > c.best().BlockNo() {
		// switch the main chain to b's branch
		var path []*types.Block
		cur := b
		for !c.onMain(cur) {
			path = append(path, cur)
			cur = c.byHash[string(cur.GetHeader().GetPrevBlockHash())]
		}
		if cur.BlockNo()+1 != uint64(len(c.main)) {
			c.reorgs++
		}
		c.main = c.main[:cur.BlockNo()+1]
		for i := len(path) - 1; i >= 0; i-- {
			c.main = append(c.main, path[i])
		}
		c.version++
	}
	return nil
}

// anchors runs the repo's anchor selection (chain.StubBlockChain.GetAnchors, the twin of
// ChainService.getAnchorsNew) over the current main chain.
func (c *lchain) anchors() (chain.ChainAnchor, types.BlockNo, error) {
	n := len(c.main)
	hs := make([][]byte, n)
	for i, b := range c.main {
		hs[i] = b.GetHash()
	}
	st := &chain.StubBlockChain{Best: n - 1, Hashes: hs, Blocks: c.main, BestBlock: c.best()}
	return st.GetAnchors()
}

// types.ChainAccessor
func (c *lchain) GetGenesisInfo() *types.Genesis   { return nil }
func (c *lchain) GetConsensusInfo() string         { return "" }
func (c *lchain) GetChainStats() string            { return "" }
func (c *lchain) GetBestBlock() (*types.Block, error) { return c.best(), nil }
func (c *lchain) GetBlock(h []byte) (*types.Block, error) {
	if b, ok := c.byHash[string(h)]; ok {
		return b, nil
	}
	return nil, errNoBlock
}
func (c *lchain) GetHashByNo(no types.BlockNo) ([]byte, error) {
	if no >= uint64(len(c.main)) {
		return nil, errNoHash
	}
	return c.main[no].GetHash(), nil
}
func (c *lchain) GetSystemValue(key types.SystemValue) (*big.Int, error) { return nil, nil }
func (c *lchain) GetEnterpriseConfig(key string) (*types.EnterpriseConfig, error) {
	return nil, nil
}
func (c *lchain) ChainID(bno types.BlockNo) *types.ChainID  { return nil }
func (c *lchain) HardforkHeights() map[string]types.BlockNo { return nil }

var _ types.ChainAccessor = (*lchain)(nil)

// ---- the universe of one run ----------------------------------------------------------

type universe struct {
	common []*types.Block // heights 0..F
	local0 []*types.Block // initial local main chain (common + L blocks)
	remote []*types.Block // remote main chain (common + R blocks); grows in the last phase
	xfork  []*types.Block // a third branch from F (index = height, nil up to F): foreign but genuine blocks
	rstore map[string]*types.Block // blocks an honest remote peer can serve (remote main chain)
	all    map[string]*types.Block // every genuine block
	label  map[string]string
}

func buildUniverse(F, locX, remX int) *universe {
	u := &universe{rstore: map[string]*types.Block{}, all: map[string]*types.Block{}, label: map[string]string{}}
	reg := func(b *types.Block, tag string) {
		u.all[string(b.GetHash())] = b
		u.label[string(b.GetHash())] = fmt.Sprintf("%s%d", tag, b.BlockNo())
	}
	var prev *types.Block
	for i := 0; i <= F; i++ {
		prev = mkBlock(prev, 0)
		u.common = append(u.common, prev)
		reg(prev, "C")
	}
	u.local0 = append(u.local0, u.common...)
	p := prev
	for i := 0; i < locX; i++ {
		p = mkBlock(p, 1)
		u.local0 = append(u.local0, p)
		reg(p, "L")
	}
	u.remote = append(u.remote, u.common...)
	p = prev
	for i := 0; i < remX; i++ {
		p = mkBlock(p, 2)
		u.remote = append(u.remote, p)
		reg(p, "R")
	}
	for _, b := range u.remote {
		u.rstore[string(b.GetHash())] = b
	}
	u.xfork = make([]*types.Block, F+1)
	p = prev
	for i := 0; i < remX+4; i++ {
		p = mkBlock(p, 3)
		u.xfork = append(u.xfork, p)
		reg(p, "X")
	}
	return u
}

func (u *universe) growRemote(n int) {
	p := u.remote[len(u.remote)-1]
	for i := 0; i < n; i++ {
		p = mkBlock(p, 2)
		u.remote = append(u.remote, p)
		u.rstore[string(p.GetHash())] = p
		u.all[string(p.GetHash())] = p
		u.label[string(p.GetHash())] = fmt.Sprintf("R%d", p.BlockNo())
	}
}

func (u *universe) lbl(h []byte) string {
	if h == nil {
		return "nil"
	}
	if l, ok := u.label[string(h)]; ok {
		return l
	}
	return "?"
}

func (u *universe) remoteBest() uint64 { return uint64(len(u.remote) - 1) }

func (u *universe) remoteHas(h []byte) (*types.Block, bool) {
	b, ok := u.rstore[string(h)]
	return b, ok
}
