package syncw

import (
	"bytes"
	"fmt"
	"os"
	"testing/synctest"
	"time"

	"github.com/aergoio/aergo/v2/syncer"
	"github.com/aergoio/aergo/v2/types"
	"github.com/aergoio/aergo/v2/types/message"
	"github.com/aergoio/aergo/v2/zz_verif/simkit"
)

const prop = "C17"

func (h *harness) fail(class, sig, detail string) {
	h.x.Fail(prop, class, sig, detail, h.stepIdx)
}

// failSoft reports a violation; it returns true when it is a listed known finding, in which
// case the run goes on (so that the finding does not hide what lies behind it).
func (h *harness) failSoft(class, sig, detail string) bool {
	return h.x.FailKnownOrStop(prop, class, sig, detail, h.stepIdx)
}

// ---- driver ---------------------------------------------------------------------------------

func (h *harness) drive() {
	h.t0 = time.Now()
	h.wake = make(chan struct{}, 1)
	h.selfWake = make(chan struct{}, 1)
	cfg := syncer.VerifConfig(uint64(h.k.hashReq), h.k.blkReq, h.k.pconn, h.k.tasks, time.Duration(h.fetchTO), h.k.fullOnly == 1)
	h.sy = syncer.NewSyncer(nil, h.local, cfg)
	h.sy.SetRequester(h)
	_, h.seq, _, _ = h.sy.VerifSession()
	go h.actorLoop()
	h.simLimit = 12*h.dflt + 20*h.fetchTO

	h.phase = 1
	for !h.x.Failed() {
		h.settle()
		if h.x.Failed() {
			break
		}
		st, idx := h.x.Next(h.gen)
		if st == nil {
			break
		}
		h.stepIdx = idx
		h.apply(st)
	}
	h.stepIdx = len(h.x.Case.Steps)
	h.nSessP1 = h.nSess
	if !h.x.Failed() {
		h.finish()
	}
	h.simEnd = h.now()
	if h.nSessP1 >= 2 || h.local.reorgs > 0 {
		h.x.Out.Nontrivial = true
	}
	h.teardown()
}

// settle lets the bubble run until every goroutine is durably blocked, then files what was
// emitted and checks the expectation left by the previous step.
func (h *harness) settle() {
	synctest.Wait()
	n := h.collect()
	if h.expectQuiet != "" {
		h.mu.Lock()
		handled := h.handled
		h.mu.Unlock()
		if handled > h.quietHandled { // the actor has processed the message
			if n != 0 || h.running != h.quietRun || h.seq != h.quietSeq {
				h.fail("stale", h.expectQuiet, fmt.Sprintf("a message that must be ignored had an effect: %d emissions, running %v->%v, seq %d->%d",
					n, h.quietRun, h.running, h.quietSeq, h.seq))
			}
			h.expectQuiet = ""
		} else if n != 0 {
			h.expectQuiet = "" // actor busy with something else; cannot attribute
		}
	}
}

func (h *harness) expectNoEffect(sig string) {
	busy, q := h.actorBusy()
	if busy || q > 0 {
		return // queued behind other work: effects cannot be attributed to this message
	}
	h.mu.Lock()
	h.quietHandled = h.handled
	h.mu.Unlock()
	h.expectQuiet, h.quietRun, h.quietSeq = sig, h.running, h.seq
}

func (h *harness) sleep(units int64) {
	if units < 1 {
		units = 1
	}
	select {
	case <-h.selfWake: // left over from a burst the driver was awake for
	default:
	}
	t := time.NewTimer(time.Duration(units * M))
	select {
	case <-t.C:
	case <-h.selfWake:
		t.Stop()
		h.x.Logf("  woken at t=%d by the syncer", h.now())
	}
}

// ---- session observation and the oracle -----------------------------------------------------

func (h *harness) observe() {
	running, seq, anc, target := h.sy.VerifSession()
	h.prevSeq = 0
	if seq != h.seq || (running && h.cur == nil) {
		if h.cur != nil && !h.cur.ended {
			// the old session was stopped and the next SyncStart taken up in one burst
			h.prevSeq = h.cur.seq
			h.endSession(h.cur)
		}
		if running {
			h.cur = &sess{seq: seq, target: target, lver: h.local.version, lmain: append([]*types.Block{}, h.local.main...),
				finderHonest: true, chunkReqs: map[string]int{}}
			if h.k.fullOnly == 1 {
				h.cur.lightNone = true
			}
			h.nSess++
			h.x.Logf("  session %d started target=%d localBest=%d", seq, target, h.local.best().BlockNo())
			if h.nSess == 2 {
				h.x.Probe("second-session-started")
			}
		}
		h.seq = seq
	}
	h.running = running
	s := h.cur
	if s == nil || s.ended {
		return
	}
	if running && anc != nil && s.anc == nil {
		s.anc = anc
		h.checkAncestor(s)
	}
	if !running {
		h.endSession(s)
	}
}

func (h *harness) endSession(s *sess) {
	{
		s.ended = true
		keep := h.notifs[:0]
		for _, c := range h.notifs {
			select {
			case e := <-c:
				if s.gotResult {
					h.fail("termination", "two-notifications", "two result notifications for one session")
				}
				s.result, s.gotResult = e, true
			default:
				keep = append(keep, c) // belongs to a SyncStart that was not (or not yet) taken up
			}
		}
		h.notifs = keep
		if len(h.notifs) > 8 {
			h.notifs = h.notifs[len(h.notifs)-8:]
		}
		h.x.Logf("  session %d ended result=%s notified=%v added=%d", s.seq, errStr(s.result), s.gotResult, s.nAdded)
		if !s.gotResult {
			h.fail("termination", "no-notification", "the session ended without a result on SyncStart.NotifyC")
			return
		}
		if s.result == nil {
			h.x.Probe("session-success")
			h.checkSuccess(s, "notify")
		} else {
			h.x.Probe("session-error-stop")
			switch s.result {
			case syncer.ErrAllPeerBad:
				h.x.Probe("all-peers-bad")
			case syncer.ErrSyncerPanic:
				h.x.Probe("recovered-panic")
				if os.Getenv("VERIF_SYNC_TRAP") == "recovered-panic" { // debugging aid: get a replay file for a probe
					h.fail("trap", "recovered-panic", "trap")
				}
			case syncer.ErrHashFetcherTimeout:
				h.x.Probe("hashfetcher-timeout")
			case syncer.ErrFinderTimeout, syncer.ErrorGetSyncAncestorTimeout:
				h.x.Probe("finder-timeout")
			}
			if h.k.faults == 0 && h.k.stops == 0 && h.phase == 1 {
				h.fail("termination", "fault-free-session-failed", fmt.Sprintf("no fault, no stop, no delayed answer, yet session %d ended with %s", s.seq, errStr(s.result)))
			}
		}
		h.x.Digest(h.k.F, h.k.locX, len(h.u.remote), s.nAdded, errStr(s.result), s.fullScan, h.nSess)
	}
}

func (h *harness) checkAncestor(s *sess) {
	a := s.anc
	h.x.Logf("  session %d ancestor=%s honest=%v lightNone=%v full=%v", s.seq, h.blockStr(a), s.finderHonest, s.lightNone, s.fullScan)
	if s.lver != h.local.version {
		h.x.Probe("ancestor-check-skipped-local-reorg")
		return
	}
	no := a.BlockNo()
	if no >= uint64(len(s.lmain)) || !bytes.Equal(s.lmain[no].GetHash(), a.GetHash()) {
		h.fail("ancestor", "not-on-local-main", fmt.Sprintf("session %d works from %s, which is not on the local main chain", s.seq, h.blockStr(a)))
		return
	}
	// finderHonest: every finder answer that carried content (an ancestor, a hash) was truthful;
	// error answers, silence and delays do not count as lies: after them the finder may stop with
	// an error, but an ancestor it does report must still be the right one
	if !s.finderHonest {
		h.x.Probe("ancestor-from-lying-peer")
		return
	}
	if no >= uint64(len(h.u.remote)) || !bytes.Equal(h.u.remote[no].GetHash(), a.GetHash()) {
		h.fail("ancestor", "not-on-remote", fmt.Sprintf("peers answered honestly, yet session %d works from %s, which the remote chain lacks", s.seq, h.blockStr(a)))
		return
	}
	hi := 0
	for i := 0; i < len(s.lmain) && i < len(h.u.remote); i++ {
		if !bytes.Equal(s.lmain[i].GetHash(), h.u.remote[i].GetHash()) {
			break
		}
		hi = i
	}
	if s.lightNone && s.fullScan {
		h.x.Probe("full-scan-ancestor")
		if no != uint64(hi) {
			h.fail("ancestor", "not-highest", fmt.Sprintf("the anchor comparison found none and the full scan ran; every answer that carried a hash was truthful (errors and silence aside): ancestor %d, highest shared block %d", no, hi))
		}
	} else {
		h.x.Probe("light-scan-ancestor")
		if no == uint64(hi) {
			h.x.Probe("light-scan-ancestor-is-fork-point")
		}
	}
}

// checkSuccess: a success (SyncStop with nil error from the block processor, or nil on NotifyC)
// is only legitimate after every block ancestor+1..target was handed over in order and the
// chain service confirmed the target block.
func (h *harness) checkSuccess(s *sess, where string) {
	if s.anc == nil || s.last == nil || s.last.BlockNo() != s.target || uint64(s.nAdded) != s.target-s.anc.BlockNo() || s.lastRspOK != s.target {
		lastNo := -1
		if s.last != nil {
			lastNo = int(s.last.BlockNo())
		}
		h.fail("termination", "false-success", fmt.Sprintf("session %d reported success (%s) with target %d, last block handed over %d, %d blocks, last confirmed %d",
			s.seq, where, s.target, lastNo, s.nAdded, s.lastRspOK))
	}
}

func (h *harness) onSelf(d *described) {
	if d.seq != h.seq && d.seq != h.prevSeq {
		h.fail("session", "message-from-dead-session", fmt.Sprintf("%s emitted while the syncer is at seq %d", d.key, h.seq))
	}
	switch m := d.e.msg.(type) {
	case *message.SyncStop:
		if m.Err == nil && h.cur != nil && !h.cur.ended && m.Seq == h.cur.seq {
			h.checkSuccess(h.cur, "SyncStop")
		}
	case *message.FinderResult:
		if h.cur != nil && m.Err == nil && m.Ancestor != nil {
			h.x.Probe("finder-result")
		}
	}
}

func (h *harness) onRequest(p *preq) {
	s := h.cur
	if p.kind != kPeers && p.kind != kAddBlock && p.seq == h.prevSeq && h.prevSeq != 0 {
		return // emitted by the session that ended in this burst, before it ended
	}
	if p.kind != kPeers && p.kind != kAddBlock && p.seq != h.seq {
		h.fail("session", "request-from-dead-session", fmt.Sprintf("%s emitted while the syncer is at seq %d", p.key, h.seq))
		return
	}
	if s == nil || s.ended {
		if p.kind == kAddBlock {
			h.fail("session", "addblock-without-session", p.key+" emitted with no session running")
		}
		return
	}
	switch p.kind {
	case kHashByNo:
		s.fullScan = true
		h.x.Probe("full-scan-ran")
	case kHashes:
		s.nHashReq++
		if s.nHashReq == 2 {
			h.x.Probe("multi-hashset")
		}
	case kChunks:
		m := p.em.msg.(*message.GetBlockChunks)
		key := h.hashesStr(m.Hashes)
		s.chunkReqs[key]++
		if s.chunkReqs[key] == 2 {
			h.x.Probe("task-retried")
		}
		n := 0
		for _, q := range h.pend {
			if !q.done && q.kind == kChunks && q.seq == p.seq {
				n++
			}
		}
		if n >= 2 {
			h.x.Probe("parallel-fetch-tasks")
		}
	case kAddBlock:
		b := p.em.msg.(*message.AddBlock).Block
		h.x.Count("blocks-handed-over", 1)
		if s.anc == nil {
			h.fail("order", "addblock-before-ancestor", p.key)
			return
		}
		prev := s.last
		if prev == nil {
			prev = s.anc
		}
		what := "previous"
		if s.last == nil {
			what = "ancestor"
		}
		switch {
		case b.BlockNo() != prev.BlockNo()+1:
			sig := "not-contiguous"
			if s.last == nil {
				sig = "first-not-ancestor-plus-1"
			} else if b.BlockNo() <= prev.BlockNo() {
				sig = "not-ascending"
			}
			h.fail("order", sig, fmt.Sprintf("session %d handed %s to the chain service after %s %s", s.seq, h.blockStr(b), what, h.blockStr(prev)))
		case !bytes.Equal(b.GetHeader().GetPrevBlockHash(), prev.GetHash()):
			sig := "not-child-of-previous-inside-chunk"
			if pos, ok := h.chunkPos[b]; !ok || pos == 0 {
				sig = "not-child-of-previous-at-chunk-start"
			}
			if s.last == nil {
				sig = "first-not-child-of-ancestor"
			}
			if s.lied && sig != "not-child-of-previous-inside-chunk" {
				sig += "-by-lying-peer"
			}
			h.failSoft("order", sig, fmt.Sprintf("session %d handed %s (parent %s) to the chain service after %s %s", s.seq, h.blockStr(b),
				h.u.lbl(b.GetHeader().GetPrevBlockHash()), what, h.blockStr(prev)))
		case b.BlockNo() > s.target:
			h.fail("order", "beyond-target", fmt.Sprintf("session %d handed %s over, target is %d", s.seq, h.blockStr(b), s.target))
		}
		s.last = b
		s.nAdded++
	}
}

// ---- step generation ------------------------------------------------------------------------

// variants lists the answers the environment may give to p now (0 is always the honest one).
func (h *harness) variants(p *preq) []int {
	v := []int{0}
	if h.k.faults == 0 || h.phase >= 2 {
		return v
	}
	switch p.kind {
	case kPeers:
		v = append(v, 1)
	case kAncestor:
		if !h.peerHonest(0) && h.k.lieAnc == 1 {
			v = append(v, 1, 2, 3, 4, 5)
		}
	case kHashByNo:
		if !h.peerHonest(0) {
			v = append(v, 3)
			if h.k.lieAnc == 1 {
				v = append(v, 1, 2, 4)
			}
		}
	case kHashes:
		if !h.peerHonest(0) {
			v = append(v, 1, 2)
			if h.k.lieHash == 1 {
				v = append(v, 3, 4, 5, 6)
			}
		}
	case kChunks:
		i := peerIdx(p.em.msg.(*message.GetBlockChunks).ToWhom)
		if !h.peerHonest(i) {
			v = append(v, 1, 2, 3, 4, 5, 6, 10)
			if h.k.forge == 1 {
				v = append(v, 7, 8, 9)
			}
		}
	case kAddBlock:
		v = append(v, 1)
	}
	return v
}

func (h *harness) gen(r *simkit.Rng) *simkit.Step {
	if h.stepsLeft <= 0 {
		return nil
	}
	h.stepsLeft--
	ans := h.answerable()
	busy, _ := h.actorBusy()
	if len(h.selfq) > 0 && len(ans) > 0 && r.Chance(9, 10) {
		// a late GetHashByNoRsp overtaking the finder's SyncStop blocks the actor for good (known
		// finding F1) and ends the run: take that road only now and then
		keep := ans[:0:0]
		for _, p := range ans {
			if !(p.kind == kHashByNo && p.seq == h.seq && h.running) {
				keep = append(keep, p)
			}
		}
		ans = keep
	}
	if len(h.selfq) > 0 && len(ans) > 0 && h.flood == 0 && r.Chance(1, 14) {
		h.flood = len(ans) // let everything outstanding arrive ahead of the syncer's message to itself
	}
	if h.flood > 0 && len(ans) > 0 {
		h.flood--
		return &simkit.Step{Op: "rsp", N: h.indexOf(ans[0]), B: r.Intn(64)}
	}
	h.flood = 0
	if len(h.selfq) > 0 && (len(ans) == 0 || r.Chance(85, 100)) {
		return &simkit.Step{Op: "self"}
	}
	if !h.running && !busy && len(h.selfq) == 0 {
		if h.local.best().BlockNo() >= h.u.remoteBest() && r.Chance(1, 2) {
			return &simkit.Step{Op: "grow", N: r.Range(1, 8)}
		}
		if r.Chance(7, 10) {
			return h.genStart(r)
		}
	}
	wRsp, wTick, wDrop, wStop, wStart, wGrow := 0, 25, 0, 0, 1, 1
	if len(ans) > 0 {
		wRsp = 70
		if h.k.faults == 1 {
			wDrop = 4
		} else {
			wTick = 0 // fault-free batch: time only passes while nothing waits for an answer
		}
	}
	if len(h.selfq) > 0 {
		wTick = 0
	}
	if h.now() > h.simLimit {
		wTick = 0
	}
	if h.k.stops == 1 {
		wStop = 2
	}
	if wRsp+wTick == 0 {
		wStart, wGrow = 5, 5
		if len(h.selfq) > 0 {
			return &simkit.Step{Op: "self"}
		}
	}
	switch r.Pick(wRsp, wTick, wDrop, wStop, wStart, wGrow) {
	case 0:
		i := r.Intn(len(ans))
		if r.Chance(1, 3) {
			i = 0 // oldest first
		}
		p := ans[i]
		i = h.indexOf(p)
		vs := h.variants(p)
		a := 0
		pf := 35
		if p.kind == kPeers {
			pf = 4
		} else if p.kind == kAddBlock {
			pf = 3
		}
		if len(vs) > 1 && r.Chance(pf, 100) {
			a = vs[1+r.Intn(len(vs)-1)]
		}
		return &simkit.Step{Op: "rsp", N: i, A: a, B: r.Intn(64)}
	case 1:
		var u int64
		switch r.Pick(40, 30, 12, 12, 6) {
		case 0:
			u = int64(r.Range(1, h.k.tickA))
		case 1:
			u = int64(h.k.tickA + 1)
		case 2:
			u = int64(h.k.tickA) * int64(r.Range(2, 12))
		case 3:
			u = int64(h.k.tickA) * int64(h.k.fetchT+2)
		default:
			u = int64(h.k.tickA) * int64(h.k.dfltT+2)
		}
		return &simkit.Step{Op: "tick", V: u}
	case 2:
		return &simkit.Step{Op: "drop", N: h.indexOf(ans[r.Intn(len(ans))])}

	case 3:
		return &simkit.Step{Op: "stop", A: r.Pick(80, 20)}
	case 4:
		return h.genStart(r)
	default:
		return &simkit.Step{Op: "grow", N: r.Range(1, 8)}
	}
}

// indexOf is the position of p in answerable(), which is what rsp/drop steps refer to.
func (h *harness) indexOf(p *preq) int {
	for i, q := range h.answerable() {
		if q == p {
			return i
		}
	}
	return 0
}

func (h *harness) genStart(r *simkit.Rng) *simkit.Step {
	a := 0
	if h.k.faults == 1 {
		a = r.Pick(60, 25, 8, 7)
	} else {
		a = r.Pick(70, 25, 0, 5)
	}
	return &simkit.Step{Op: "start", A: a, B: r.Intn(1000)}
}

// ---- step execution -------------------------------------------------------------------------

func (h *harness) apply(st *simkit.Step) {
	switch st.Op {
	case "self":
		if len(h.selfq) == 0 {
			h.x.Noop()
			return
		}
		h.deliverSelf()
	case "rsp":
		ans := h.answerable()
		if len(ans) == 0 {
			h.x.Noop()
			return
		}
		n := st.N
		if n < 0 {
			n = -n
		}
		h.respond(ans[n%len(ans)], st.A, st.B)
	case "drop":
		ans := h.answerable()
		if len(ans) == 0 || h.k.faults == 0 {
			h.x.Noop()
			return
		}
		n := st.N
		if n < 0 {
			n = -n
		}
		p := ans[n%len(ans)]
		if p.kind != kAncestor && p.kind != kHashByNo && p.kind != kHashes && p.kind != kChunks {
			h.x.Noop() // the node's own ChainSvc and P2PSvc always answer; only remote peers can stay silent
			return
		}
		p.done, p.dropped = true, true
		h.x.Logf("  drop #%d %s", p.id, p.key)
		h.x.Fault("silence-" + kindName[p.kind])
	case "tick":
		if len(h.selfq) > 0 || st.V < 1 || st.V > 1<<22 || h.now() > h.simLimit ||
			(h.k.faults == 0 && len(h.answerable()) > 0) {
			h.x.Noop()
			return
		}
		h.sleep(st.V)
	case "stop":
		if h.k.stops == 0 {
			h.x.Noop()
			return
		}
		seq := h.seq
		if st.A == 1 {
			if seq < 2 {
				h.x.Noop()
				return
			}
			seq--
			h.expectNoEffect("stale-stop-had-effect")
			h.x.Probe("stale-stop-delivered")
		} else if h.running {
			h.x.Fault("stop-injected")
		}
		h.x.Logf("  inject SyncStop seq=%d running=%v", seq, h.running)
		h.post(&message.SyncStop{Seq: seq, FromWho: "verif", Err: errStopInj})
	case "start":
		h.start(st.A, st.B)
	case "grow":
		n := st.N
		if n < 1 || n > 64 || len(h.u.remote) > 3000 {
			h.x.Noop()
			return
		}
		h.u.growRemote(n)
		h.x.Logf("  remote grows to %d", h.u.remoteBest())
	default:
		h.x.Noop()
	}
}

func (h *harness) deliverSelf() {
	m := h.selfq[0]
	h.selfq = h.selfq[1:]
	h.x.Logf("  deliver self %s", m.key)
	h.post(m.msg)
}

func (h *harness) start(a, b int) {
	lb, rb := h.local.best().BlockNo(), h.u.remoteBest()
	var target uint64
	switch a {
	case 1: // a target between the two tips
		if rb <= lb+1 {
			target = rb
		} else {
			target = lb + 1 + uint64(b)%(rb-lb)
		}
	case 2: // the peer announced more than it has
		if h.k.faults == 0 {
			target = rb
		} else {
			target = rb + 1 + uint64(b)%3
			h.x.Fault("target-beyond-remote")
		}
	case 3: // nothing to do
		target = uint64(b) % (lb + 1)
	default:
		target = rb
	}
	c := make(chan error, 1)
	h.notifs = append(h.notifs, c)
	h.x.Logf("  SyncStart target=%d localBest=%d remoteBest=%d running=%v", target, lb, rb, h.running)
	if h.running {
		h.expectNoEffect("start-while-running-had-effect")
		h.x.Probe("start-while-running")
	} else if target <= lb {
		h.expectNoEffect("start-below-best-had-effect")
		h.x.Probe("start-skipped-target-not-ahead")
	}
	h.post(&message.SyncStart{PeerID: types.PeerID(peerName(0)), TargetNo: target, NotifyC: c})
}

// ---- answers --------------------------------------------------------------------------------

var chunkErrs = []error{nil, message.RemotePeerFailError, message.MissingHashError, message.TooManyBlocksError,
	message.UnexpectedBlockError, message.TooBigBlockError, message.TooFewBlocksError}

func (h *harness) stale(p *preq) bool {
	return p.em.fut == nil && p.kind != kAddBlock && (p.seq != h.seq || !h.running)
}

// respond gives request p the answer variant a (0 = honest) with parameter b.
func (h *harness) respond(p *preq, a, b int) {
	ok := false
	for _, v := range h.variants(p) {
		if v == a {
			ok = true
		}
	}
	if !ok {
		a = 0
	}
	if b < 0 {
		b = -b
	}
	p.done = true
	age := h.now() - p.em.at
	s := h.cur
	mine := s != nil && !s.ended && p.seq == s.seq
	h.x.Logf("  answer #%d %s variant=%d", p.id, p.key, a)
	lie := func(name string) {
		h.x.Fault(name)
		if mine {
			s.lied = true
			if p.kind == kAncestor || p.kind == kHashByNo {
				s.finderHonest = false
			}
		}
	}
	if mine && a != 0 && ((p.kind == kHashes && a >= 3) || (p.kind == kChunks && a >= 7)) {
		s.lied = true // a hash list that is not a chain / a block that is not what its identifier says
	}
	if h.stale(p) {
		h.x.Probe("stale-response-delivered")
		h.expectNoEffect("stale-response-had-effect")
	}

	switch p.kind {
	case kAnchors:
		m := p.em.msg.(*message.GetAnchors)
		hs, last, err := h.local.anchors()
		h.fulfil(p, message.GetAnchorsRsp{Seq: m.Seq, Hashes: hs, LastNo: last, Err: err}, nil)
		return

	case kPeers:
		rsp := &message.GetPeersRsp{}
		if a == 1 {
			h.x.Fault("no-peers")
		} else {
			for i := 0; i < h.k.npeers; i++ {
				rsp.Peers = append(rsp.Peers, &message.PeerInfo{Addr: &types.PeerAddress{PeerID: []byte(peerName(i))},
					State: types.RUNNING, LastBlockNumber: h.u.remoteBest()})
			}
		}
		h.fulfil(p, rsp, nil)
		return

	case kAncestor:
		m := p.em.msg.(*message.GetSyncAncestor)
		var common []*types.BlockInfo
		var localOnly *types.BlockInfo
		for _, hash := range m.Hashes {
			if blk, ok := h.u.remoteHas(hash); ok {
				common = append(common, &types.BlockInfo{Hash: blk.GetHash(), No: blk.BlockNo()})
			} else if localOnly == nil {
				if lb, err := h.local.GetBlock(hash); err == nil {
					localOnly = &types.BlockInfo{Hash: lb.GetHash(), No: lb.BlockNo()}
				}
			}
		}
		var anc *types.BlockInfo
		if len(common) > 0 {
			anc = common[0]
		}
		if mine && anc == nil {
			s.lightNone = true
			h.x.Probe("light-scan-none")
		}
		switch a {
		case 1:
			if anc != nil {
				lie("ancestor-lie-none")
			}
			anc = nil
		case 2:
			if len(common) > 1 {
				anc = common[1+b%(len(common)-1)]
				h.x.Fault("ancestor-lower-common")
			}
		case 3:
			if localOnly != nil {
				anc = localOnly
				lie("ancestor-lie-local-only")
			}
		case 4:
			anc = &types.BlockInfo{Hash: garbageHash(m.Seq, 4, uint64(b)), No: h.local.best().BlockNo()}
			lie("ancestor-lie-garbage")
		case 5:
			anc = &types.BlockInfo{Hash: h.u.common[0].GetHash(), No: 0}
			lie("ancestor-lie-below-last-anchor")
		}
		h.post(&message.GetSyncAncestorRsp{Seq: m.Seq, Ancestor: anc})
		return

	case kHashByNo:
		m := p.em.msg.(*message.GetHashByNo)
		rsp := &message.GetHashByNoRsp{Seq: m.Seq}
		if m.BlockNo <= h.u.remoteBest() {
			rsp.BlockHash = h.u.remote[m.BlockNo].GetHash()
		} else {
			rsp.Err = message.RemotePeerFailError
		}
		switch a {
		case 1:
			rsp.BlockHash, rsp.Err = garbageHash(m.Seq, 1, m.BlockNo), nil
			lie("hashbyno-lie-other")
		case 2:
			rsp.BlockHash, rsp.Err = nil, nil
			lie("hashbyno-lie-empty")
		case 3:
			// exactly what p2p/hashbynoreceiver.go sends for a non-OK status: no hash, RemotePeerFailError.
			// An error is not a statement about the remote chain: the finder stays "honestly answered".
			rsp.BlockHash, rsp.Err = nil, message.RemotePeerFailError
			h.x.Fault("hashbyno-error")
			if mine && m.BlockNo <= h.u.remoteBest() {
				h.x.Probe("finder-probe-failed-at-existing-height")
			}
		case 4:
			if lh, err := h.local.GetHashByNo(m.BlockNo); err == nil {
				rsp.BlockHash, rsp.Err = lh, nil
				lie("hashbyno-lie-same")
			}
		}
		h.post(rsp)
		return

	case kHashes:
		m := p.em.msg.(*message.GetHashes)
		h.post(h.hashesRsp(m, a, b))
		return

	case kChunks:
		m := p.em.msg.(*message.GetBlockChunks)
		if age > h.fetchTO {
			h.x.Probe("chunk-answer-after-task-timeout")
		}
		h.post(h.chunksRsp(m, a, b))
		return

	case kAddBlock:
		m := p.em.msg.(*message.AddBlock)
		var err error
		if a == 1 {
			err = errInjected
			h.x.Fault("addblock-refused")
		} else {
			v := h.local.version
			rg := h.local.reorgs
			err = h.local.addBlock(m.Block, h.forged[m.Block])
			if h.local.reorgs != rg {
				h.x.Probe("local-reorg")
			} else if h.local.version != v {
				h.x.Probe("local-extended")
			}
			if err != nil {
				h.x.Probe("chain-rejected-block")
			}
		}
		if !mine {
			h.x.Probe("addblock-answer-outside-its-session")
		}
		// the chain service confirmed a block with this identifier and height; it does not matter to
		// the running session whether the request came from it or from an earlier session (AddBlockRsp
		// carries no sequence), nor which copy of the block the chain service stored
		if err == nil && s != nil && !s.ended && s.last != nil && bytes.Equal(s.last.GetHash(), m.Block.GetHash()) && s.last.BlockNo() == m.Block.BlockNo() {
			s.lastRspOK = m.Block.BlockNo()
		}
		h.x.Logf("  chain: AddBlock %s -> %s, best=%s", h.blockStr(m.Block), errStr(err), h.blockStr(h.local.best()))
		h.post(&message.AddBlockRsp{BlockNo: m.Block.BlockNo(), BlockHash: m.Block.BlockHash(), Err: err})
		return
	}
}

// fulfil completes a RequestToFutureResult.
func (h *harness) fulfil(p *preq, res interface{}, err error) {
	h.mu.Lock()
	tmo := p.em.tmo
	h.mu.Unlock()
	if tmo {
		h.x.Probe("answer-after-future-timeout")
		return
	}
	select {
	case p.em.fut <- futRes{res, err}:
	default:
	}
}

func (h *harness) hashesRsp(m *message.GetHashes, a, b int) *message.GetHashesRsp {
	rsp := &message.GetHashesRsp{Seq: m.Seq, PrevInfo: m.PrevInfo}
	prev := m.PrevInfo
	best := h.u.remoteBest()
	honestN := 0
	if prev.No < best && bytes.Equal(h.u.remote[prev.No].GetHash(), prev.Hash) {
		honestN = int(best - prev.No)
		if uint64(honestN) > m.Count {
			honestN = int(m.Count)
		}
	}
	honest := func(n int) []message.BlockHash {
		var out []message.BlockHash
		for i := 1; i <= n && prev.No+uint64(i) <= best; i++ {
			out = append(out, h.u.remote[prev.No+uint64(i)].GetHash())
		}
		return out
	}
	n := int(m.Count)
	fill := func(hs []message.BlockHash) []message.BlockHash { // pad a lie to the requested count
		for i := len(hs); i < n; i++ {
			hs = append(hs, garbageHash(m.Seq, prev.No, uint64(i)))
		}
		return hs
	}
	switch a {
	case 1: // fewer hashes than requested
		if honestN >= 2 {
			rsp.Hashes = honest(1 + b%(honestN-1))
			h.x.Fault("hashes-too-few")
		} else {
			rsp.Hashes = honest(honestN)
		}
	case 2:
		rsp.Err = []error{message.RemotePeerFailError, message.MissingHashError, message.WrongBlockHashError, message.TooManyBlocksError}[b%4]
		h.x.Fault("hashes-error")
	case 3: // one hash left out: unlinked at that position
		hs := honest(n + 1)
		if len(hs) >= 2 {
			j := b % (len(hs) - 1)
			hs = append(hs[:j:j], hs[j+1:]...)
			h.x.Fault("hashes-lie-skip")
		}
		rsp.Hashes = fill(hs)
	case 4: // one hash twice
		hs := honest(n)
		if len(hs) >= 2 {
			j := b % (len(hs) - 1)
			hs[j+1] = hs[j]
		} else if len(hs) == 1 {
			hs[0] = prev.Hash
		}
		h.x.Fault("hashes-lie-dup")
		rsp.Hashes = fill(hs)
	case 5: // from some position on, the hashes of another (genuine) branch
		hs := honest(n)
		if len(hs) > 0 {
			j := b % len(hs)
			for i := j; i < len(hs); i++ {
				no := int(prev.No) + 1 + i
				if no < len(h.u.xfork) && h.u.xfork[no] != nil {
					hs[i] = h.u.xfork[no].GetHash()
				}
			}
			h.x.Fault("hashes-lie-foreign-branch")
		}
		rsp.Hashes = fill(hs)
	case 6:
		rsp.Hashes = fill(nil)
		h.x.Fault("hashes-lie-garbage")
	default:
		if honestN <= 0 {
			// a real remote refuses: prev is not on its chain, or it has nothing above prev
			rsp.Err = message.RemotePeerFailError
			h.x.Probe("hashes-honest-refusal")
		} else {
			rsp.Hashes = honest(honestN)
			if honestN < n {
				h.x.Probe("hashes-honest-short")
			}
		}
	}
	rsp.Count = uint64(len(rsp.Hashes))
	return rsp
}

func (h *harness) chunksRsp(m *message.GetBlockChunks, a, b int) *message.GetBlockChunksRsp {
	rsp := &message.GetBlockChunksRsp{Seq: m.Seq, ToWhom: m.ToWhom}
	lookup := func(any bool) ([]*types.Block, bool) {
		out := make([]*types.Block, 0, len(m.Hashes))
		for _, hash := range m.Hashes {
			blk, ok := h.u.remoteHas(hash)
			if !ok && any {
				blk, ok = h.u.all[string(hash)]
			}
			if !ok {
				return nil, false
			}
			out = append(out, blk)
		}
		return out, true
	}
	switch {
	case a >= 1 && a <= 6:
		rsp.Err = chunkErrs[a]
		h.x.Fault("chunk-error")
		return rsp
	case a == 10: // a peer that serves whatever genuine block it is asked for, on any branch
		if blks, ok := lookup(true); ok {
			rsp.Blocks = blks
			if _, ok := lookup(false); !ok {
				h.x.Fault("chunk-from-other-branch")
			}
			h.notePos(blks)
			return rsp
		}
	case a >= 7 && a <= 9:
		if blks, ok := lookup(true); ok {
			i := 0
			if a == 9 && len(blks) >= 2 {
				i = 1 + b%(len(blks)-1)
			}
			g := blks[i]
			var f *types.Block
			if a == 8 {
				no := g.BlockNo()
				d := uint64(1 + b%3)
				if b&4 != 0 && no > d {
					no -= d
				} else {
					no += d
				}
				f = forge(g, g.GetHeader().GetPrevBlockHash(), no)
				h.x.Fault("chunk-forged-number")
			} else {
				f = forge(g, garbageHash(m.Seq, g.BlockNo(), uint64(b)), g.BlockNo())
				if a == 9 && i > 0 {
					h.x.Fault("chunk-forged-parent-inside")
				} else {
					h.x.Fault("chunk-forged-parent-first")
				}
			}
			h.forged[f] = true
			blks = append([]*types.Block{}, blks...)
			blks[i] = f
			rsp.Blocks = blks
			h.notePos(blks)
			return rsp
		}
	}
	if blks, ok := lookup(false); ok {
		rsp.Blocks = blks
		h.notePos(blks)
	} else {
		rsp.Err = message.MissingHashError
		h.x.Probe("chunk-honest-missing")
	}
	return rsp
}

func (h *harness) notePos(blks []*types.Block) {
	for i, b := range blks {
		h.chunkPos[b] = i
	}
}

// ---- phases 2 and 3: faults stop ------------------------------------------------------------

// bound is the simulated time within which a session must end once every request is answered
// honestly and at once (what was silenced before stays silent): the hash fetcher's and the
// GetPeers timeout (dfltTimeout), the finder's and the fetch tasks' timeout (fetchTimeOut), and
// scheduler ticks for the tasks still to run.
func (h *harness) bound() int64 {
	blocks := int64(len(h.u.remote) + 8)
	return 3*h.dflt + 10*h.fetchTO + (4*blocks+100)*h.tick
}

// runDown answers everything honestly and lets time pass until the syncer is idle.
func (h *harness) runDown(what string) bool {
	deadline := h.now() + h.bound()
	idle := 0
	aborted := false
	for {
		h.settle()
		if h.x.Failed() {
			return false
		}
		busy, q := h.actorBusy()
		if !h.running && len(h.selfq) == 0 && !busy && q == 0 {
			return true
		}
		if len(h.selfq) > 0 {
			h.deliverSelf()
			idle = 0
			continue
		}
		if ans := h.answerable(); len(ans) > 0 {
			h.respond(ans[0], 0, 0)
			idle = 0
			continue
		}
		if h.now() > deadline {
			sig, d := "session-never-ends-"+h.stuckKind(), "the session is still running ("+h.stuckDetail()+")"
			if h.cur != nil && !h.cur.ended && h.cur.lied && (sig == "session-never-ends-connect-queue-gap" || sig == "session-never-ends-connect-queue-behind") {
				sig += "-by-lying-peer"
			}
			if busy {
				h.mu.Lock()
				cm := h.curMsg
				h.mu.Unlock()
				if len(cm) > 9 && cm[:9] == "*message." {
					cm = cm[9:]
				}
				sig, d = "actor-blocked-in-"+cm, "Syncer.Receive("+cm+") does not return: the syncer's actor is blocked for good"
				h.actorStuck = true
			}
			pend := ""
			if h.cur != nil && !h.cur.ended {
				pend = fmt.Sprintf("; session %d target %d, %d blocks handed over", h.cur.seq, h.cur.target, h.cur.nAdded)
			}
			if aborted && !busy {
				h.fail("termination", "stuck-session-survives-stop", "a session that did not end was sent SyncStop and is still running: "+d)
				return false
			}
			known := h.failSoft("termination", sig, fmt.Sprintf("%s: every request was answered honestly and at once for %d ms of simulated time (bound), %s%s",
				what, h.bound()/1_000_000, d, pend))
			if !known || busy {
				if known {
					h.abandon = true // known finding, but the syncer cannot be used any further
				}
				return false
			}
			// known finding: put an end to the stuck session from outside and go on
			aborted = true
			h.x.Logf("  aborting the stuck session %d", h.seq)
			h.post(&message.SyncStop{Seq: h.seq, FromWho: "verif", Err: errStopInj})
			deadline = h.now() + h.bound()
			continue
		}
		idle++
		u := int64(h.k.tickA + 1)
		if idle > 4 {
			u *= 4
		}
		if idle > 12 {
			u *= 8
		}
		h.sleep(u)
	}
}

// stuckKind classifies a session that does not end by what the block fetcher is waiting for.
func (h *harness) stuckKind() string {
	ok, total, _, _, running, pending, retry, connQ, connecting, want, first := h.sy.VerifFetchState()
	switch {
	case !ok:
		return "before-fetch"
	case total == 0:
		return "no-peers"
	case running+retry == 0 && !connecting && connQ > 0 && first > want:
		return "connect-queue-gap"
	case running+retry == 0 && !connecting && connQ > 0 && first < want:
		return "connect-queue-behind"
	case running+pending+retry == 0 && !connecting && connQ == 0:
		return "nothing-to-do"
	}
	return "other"
}

func (h *harness) stuckDetail() string {
	ok, total, free, bad, running, pending, retry, connQ, connecting, want, first := h.sy.VerifFetchState()
	if !ok {
		return "no block fetcher"
	}
	return fmt.Sprintf("peers %d free %d bad %d; tasks running %d pending %d retry %d; connect queue %d first height %d, waiting for height %d, connecting=%v",
		total, free, bad, running, pending, retry, connQ, first, want, connecting)
}

func (h *harness) finish() {
	h.phase = 2
	h.x.Logf("phase 2: faults stop")
	if !h.runDown("after the last fault") {
		return
	}
	// whatever is still unanswered belongs to ended sessions: deliver it to the idle syncer
	for {
		ans := h.answerable()
		if len(ans) == 0 {
			break
		}
		h.respond(ans[0], 0, 0)
		h.settle()
		if h.x.Failed() {
			return
		}
	}
	if !h.runDown("while idle") {
		return
	}

	h.phase = 3
	h.x.Logf("phase 3: a later synchronisation")
	if lb := h.local.best().BlockNo(); lb >= h.u.remoteBest() {
		h.u.growRemote(int(lb-h.u.remoteBest()) + 3)
	}
	seq0 := h.seq
	h.start(0, 0)
	h.settle()
	if h.x.Failed() {
		return
	}
	if !h.running || h.seq == seq0 || len(h.answerable()) == 0 {
		h.fail("termination", "restart-refused", fmt.Sprintf("SyncStart after the end of the previous session was not taken up (running=%v seq %d->%d)", h.running, seq0, h.seq))
		return
	}
	s := h.cur
	if !h.runDown("in the final fault-free session") {
		return
	}
	rb := h.u.remoteBest()
	okChain := uint64(len(h.local.main)) > rb
	if okChain {
		for i := uint64(0); i <= rb; i++ {
			if !bytes.Equal(h.local.main[i].GetHash(), h.u.remote[i].GetHash()) {
				okChain = false
				break
			}
		}
	}
	if s.result != nil || !okChain {
		h.fail("termination", "final-sync-failed", fmt.Sprintf("fault-free session %d toward %d ended with %s; local best %s, chain equals remote: %v",
			s.seq, s.target, errStr(s.result), h.blockStr(h.local.best()), okChain))
		return
	}
	h.x.Probe("final-sync-complete")
}

// teardown leaves no runnable goroutine behind (time stops when the root goroutine exits).
func (h *harness) teardown() {
	synctest.Wait()
	busy, _ := h.actorBusy()
	running, seq, _, _ := h.sy.VerifSession()
	if running && !busy {
		h.post(&message.SyncStop{Seq: seq, FromWho: "verif", Err: errTeardown})
	}
	for i := 0; i < 3; i++ {
		synctest.Wait()
		h.mu.Lock()
		raw := h.raw
		h.raw = nil
		h.mu.Unlock()
		for _, e := range raw {
			if e.fut != nil {
				h.pend = append(h.pend, &preq{em: e})
			}
		}
		for _, p := range h.pend {
			if p.em.fut != nil {
				select {
				case p.em.fut <- futRes{nil, errTeardown}:
				default:
				}
			}
		}
	}
	h.mu.Lock()
	h.quit = true
	h.mu.Unlock()
	select {
	case h.wake <- struct{}{}:
	default:
	}
	synctest.Wait()
}
