package syncw

import (
	"errors"
	"fmt"
	"sort"
	"sync"
	"time"

	"github.com/aergoio/aergo-actor/actor"
	"github.com/aergoio/aergo/v2/syncer"
	"github.com/aergoio/aergo/v2/types"
	"github.com/aergoio/aergo/v2/types/message"
	"github.com/aergoio/aergo/v2/zz_verif/simkit"
)

// Everything in this file runs inside the synctest bubble.

// M is the driver's time quantum: every sleep of the driver is a multiple of M, while the
// syncer's own periods are set to a multiple of M plus 1 (tick), 3 (dfltTimeout) and 5
// (fetchTimeOut) nanoseconds, so that a timer of the syncer never fires in the same instant as
// the driver wakes up or as a timer of another residue class.
const M = int64(1) << 20

const (
	kAnchors = iota
	kPeers
	kAncestor
	kHashByNo
	kHashes
	kChunks
	kAddBlock
)

var kindName = []string{"GetAnchors", "GetPeers", "GetSyncAncestor", "GetHashByNo", "GetHashes", "GetBlockChunks", "AddBlock"}

type futRes struct {
	res interface{}
	err error
}

// emit is one call of the syncer into the IComponentRequester.
type emit struct {
	target string
	msg    interface{}
	at     int64
	fut    chan futRes
	tmo    bool // future: the caller gave up (set under mu)
	order  int
}

// preq is an outstanding request to ChainSvc / P2PSvc.
type preq struct {
	id      int
	kind    int
	seq     uint64
	em      *emit
	key     string
	done    bool // answered, dropped, or (future) given up by the caller
	dropped bool
}

type selfMsg struct {
	msg interface{}
	key string
}

type sess struct {
	seq      uint64
	target   uint64
	lver     int            // local main-chain version at session start
	lmain    []*types.Block // local main chain at session start
	anc      *types.Block
	last     *types.Block // last block handed to ChainSvc in this session
	nAdded   int
	lastRspOK uint64 // height of the last AddBlockRsp (no error) delivered while this session ran
	finderHonest bool // every finder answer that carried content was truthful (errors / silence allowed)
	lied         bool // a peer gave this session an answer that is not merely late, missing or an error
	lightNone    bool // the honest answer of the light scan was "none" (or the light scan is off)
	fullScan     bool
	ended        bool
	result       error
	gotResult    bool
	nHashReq     int
	firstRspErr  bool
	chunkReqs    map[string]int
}

var (
	errFutTimeout = errors.New("request future timeout")
	errStopInj    = errors.New("stop requested (injected)")
	errTeardown   = errors.New("verif teardown")
)

type actx struct {
	actor.Context
	m interface{}
}

func (c actx) Message() interface{} { return c.m }

type harness struct {
	x  *simkit.Ctx
	k  *knobs
	u  *universe
	sy *syncer.Syncer

	local *lchain

	mu      sync.Mutex
	raw     []*emit
	inbox   []interface{}
	busy    bool
	handled int
	quit    bool
	wake    chan struct{}
	selfWake chan struct{}
	curMsg  string // type of the message the actor is processing
	escaped interface{} // a panic that escaped Syncer.Receive

	t0     time.Time
	selfq  []*selfMsg
	pend   []*preq
	nextID int

	running bool
	seq     uint64
	cur     *sess
	nSess   int
	nSessP1 int // sessions started before faults stopped
	notifs  []chan error

	tick, fetchTO, dflt int64

	stepIdx   int
	stepsLeft int
	flood     int
	phase     int
	simLimit  int64

	expectQuiet string // set by a step that must have no effect; checked at the next settle
	quietHandled int
	quietRun     bool
	quietSeq     uint64

	forged map[*types.Block]bool
	chunkPos map[*types.Block]int // position of a block inside the chunk answer that carried it
	prevSeq  uint64               // session that ended during the burst being collected (0: none)

	harnessPanic interface{}
	simEnd       int64
	actorStuck   bool
	abandon      bool // a known finding left the syncer unusable: skip the remaining phases
}

// ---- component.IComponentRequester -------------------------------------------------------

func (h *harness) now() int64 { return int64(time.Since(h.t0)) }

func (h *harness) push(e *emit) {
	h.mu.Lock()
	e.order = len(h.raw)
	h.raw = append(h.raw, e)
	h.mu.Unlock()
	// a sleeping driver wakes up in this very instant: it can answer at once, or let an answer of
	// the environment race with a message of the syncer to itself (mailbox order) at the right time
	select {
	case h.selfWake <- struct{}{}:
	default:
	}
}

func (h *harness) TellTo(target string, m interface{}) {
	h.push(&emit{target: target, msg: m, at: h.now()})
}

func (h *harness) RequestTo(target string, m interface{}) {
	h.push(&emit{target: target, msg: m, at: h.now()})
}

func (h *harness) RequestToFutureResult(target string, m interface{}, timeout time.Duration, tip string) (interface{}, error) {
	e := &emit{target: target, msg: m, at: h.now(), fut: make(chan futRes, 1)}
	h.push(e)
	t := time.NewTimer(timeout)
	select {
	case r := <-e.fut:
		t.Stop()
		return r.res, r.err
	case <-t.C:
		h.mu.Lock()
		e.tmo = true
		h.mu.Unlock()
		return nil, errFutTimeout
	}
}

// ---- the syncer's actor: one goroutine, FIFO mailbox ----------------------------------------

func (h *harness) actorLoop() {
	for {
		h.mu.Lock()
		for len(h.inbox) == 0 && !h.quit {
			h.mu.Unlock()
			<-h.wake
			h.mu.Lock()
		}
		if len(h.inbox) == 0 {
			h.mu.Unlock()
			return
		}
		m := h.inbox[0]
		h.inbox = h.inbox[1:]
		h.busy = true
		h.curMsg = fmt.Sprintf("%T", m)
		h.mu.Unlock()
		h.receive(m)
		h.mu.Lock()
		h.busy = false
		h.handled++
		h.mu.Unlock()
	}
}

func (h *harness) receive(m interface{}) {
	defer func() {
		if r := recover(); r != nil {
			h.mu.Lock()
			h.escaped = r
			h.mu.Unlock()
		}
	}()
	h.sy.Receive(actx{m: m})
}

func (h *harness) post(m interface{}) {
	h.mu.Lock()
	h.inbox = append(h.inbox, m)
	h.mu.Unlock()
	select {
	case h.wake <- struct{}{}:
	default:
	}
}

func (h *harness) actorBusy() (bool, int) {
	h.mu.Lock()
	defer h.mu.Unlock()
	return h.busy, len(h.inbox)
}

// ---- canonical descriptions (no hash bytes, no addresses) ----------------------------------

func errStr(e error) string {
	if e == nil {
		return "nil"
	}
	if _, ok := e.(*syncer.ErrSyncMsg); ok {
		return "ErrSyncMsg"
	}
	return e.Error()
}

func (h *harness) binfo(b *types.BlockInfo) string {
	if b == nil {
		return "nil"
	}
	return fmt.Sprintf("%s/%d", h.u.lbl(b.Hash), b.No)
}

func (h *harness) blockStr(b *types.Block) string {
	if b == nil {
		return "nil"
	}
	s := fmt.Sprintf("%s/%d", h.u.lbl(b.GetHash()), b.BlockNo())
	if h.forged[b] {
		s += "!forged"
	}
	return s
}

func (h *harness) hashesStr(hs []message.BlockHash) string {
	if len(hs) == 0 {
		return "[]"
	}
	if len(hs) <= 6 {
		s := "["
		for i, x := range hs {
			if i > 0 {
				s += ","
			}
			s += h.u.lbl(x)
		}
		return s + "]"
	}
	return fmt.Sprintf("[%s..%s#%d]", h.u.lbl(hs[0]), h.u.lbl(hs[len(hs)-1]), len(hs))
}

func (h *harness) describe(e *emit) (self bool, kind int, seq uint64, key string, sender string) {
	switch m := e.msg.(type) {
	case *message.FinderResult:
		return true, 0, m.Seq, fmt.Sprintf("FinderResult s=%d anc=%s err=%s", m.Seq, h.binfo(m.Ancestor), errStr(m.Err)), "finder"
	case *message.SyncStop:
		snd := "bf"
		if m.FromWho == syncer.NameFinder {
			snd = "finder"
		} else if m.FromWho == syncer.NameHashFetcher {
			snd = "hf"
		}
		return true, 0, m.Seq, fmt.Sprintf("SyncStop s=%d from=%s err=%s", m.Seq, m.FromWho, errStr(m.Err)), snd
	case *message.CloseFetcher:
		return true, 0, m.Seq, fmt.Sprintf("CloseFetcher s=%d from=%s", m.Seq, m.FromWho), "hf"
	case *message.GetAnchors:
		return false, kAnchors, m.Seq, fmt.Sprintf("GetAnchors s=%d", m.Seq), ""
	case *message.GetPeers:
		return false, kPeers, 0, "GetPeers", ""
	case *message.GetSyncAncestor:
		first := "-"
		if len(m.Hashes) > 0 {
			first = h.u.lbl(m.Hashes[0])
		}
		return false, kAncestor, m.Seq, fmt.Sprintf("GetSyncAncestor s=%d to=%s n=%d first=%s", m.Seq, string(m.ToWhom), len(m.Hashes), first), ""
	case *message.GetHashByNo:
		return false, kHashByNo, m.Seq, fmt.Sprintf("GetHashByNo s=%d to=%s no=%d", m.Seq, string(m.ToWhom), m.BlockNo), ""
	case *message.GetHashes:
		return false, kHashes, m.Seq, fmt.Sprintf("GetHashes s=%d to=%s prev=%s cnt=%d", m.Seq, string(m.ToWhom), h.binfo(m.PrevInfo), m.Count), ""
	case *message.GetBlockChunks:
		return false, kChunks, m.Seq, fmt.Sprintf("GetBlockChunks s=%d to=%s %s", m.Seq, string(m.ToWhom), h.hashesStr(m.Hashes)), ""
	case *message.AddBlock:
		return false, kAddBlock, 0, fmt.Sprintf("AddBlock %s sync=%v", h.blockStr(m.Block), m.IsSync), ""
	}
	return false, -1, 0, fmt.Sprintf("unexpected %T", e.msg), ""
}

// ---- burst collection -----------------------------------------------------------------------

type described struct {
	e      *emit
	self   bool
	kind   int
	seq    uint64
	key    string
	sender string
}

// collect takes what the syncer emitted since the last call, sorts it canonically (time of
// emission, then content; self-messages of one sender keep their order) and files it.
func (h *harness) collect() int {
	h.mu.Lock()
	raw := h.raw
	h.raw = nil
	esc := h.escaped
	h.escaped = nil
	h.mu.Unlock()

	if esc != nil {
		h.x.Logf("panic escaped Syncer.Receive: %v", esc)
		h.x.Fail("C17", "panic", "escaped-actor", fmt.Sprintf("a panic left Syncer.Receive (not recovered by RecoverSyncerSelf): %v", esc), h.stepIdx)
	}
	h.observe()

	ds := make([]*described, 0, len(raw))
	for _, e := range raw {
		d := &described{e: e}
		d.self, d.kind, d.seq, d.key, d.sender = h.describe(e)
		ds = append(ds, d)
	}
	sort.SliceStable(ds, func(i, j int) bool {
		a, b := ds[i], ds[j]
		if a.e.at != b.e.at {
			return a.e.at < b.e.at
		}
		if a.self != b.self {
			return !a.self
		}
		if a.self {
			if a.sender != b.sender {
				return a.sender < b.sender
			}
			return a.e.order < b.e.order
		}
		return a.key < b.key
	})
	for _, d := range ds {
		if d.self {
			h.x.Logf("  emit t=%d self %s", d.e.at, d.key)
			h.onSelf(d)
			h.selfq = append(h.selfq, &selfMsg{msg: d.e.msg, key: d.key})
			continue
		}
		if d.kind < 0 {
			panic("syncw: " + d.key)
		}
		p := &preq{id: h.nextID, kind: d.kind, seq: d.seq, em: d.e, key: d.key}
		h.nextID++
		if d.kind == kPeers || d.kind == kAddBlock {
			p.seq = h.seq
		}
		h.x.Logf("  emit t=%d #%d %s", d.e.at, p.id, d.key)
		h.pend = append(h.pend, p)
		h.onRequest(p)
	}
	// futures the caller has given up
	h.mu.Lock()
	for _, p := range h.pend {
		if !p.done && p.em.fut != nil && p.em.tmo {
			p.done = true
			h.x.Logf("  future #%d timed out", p.id)
			h.x.Probe("future-timeout")
		}
	}
	h.mu.Unlock()
	// forget finished requests that are far behind
	if len(h.pend) > 64 {
		keep := h.pend[:0]
		for _, p := range h.pend {
			if !p.done {
				keep = append(keep, p)
			}
		}
		h.pend = keep
	}
	return len(ds)
}

// answerable lists the requests the environment may answer now, in id order. AddBlock is
// served by one ChainManager in FIFO order: only the oldest one is answerable.
//
// One answer is held back: an AddBlockRsp (it carries no sequence, so it reaches the block fetcher
// of whatever session is running) while that block fetcher has not yet entered its select loop
// for good (init() / waiting for the first hash set). It would sit in bf.responseCh next to a
// buffered scheduler tick, and Go's select picks among ready cases at random: the only place
// where the scheduler's choice would leak into the outputs. The answer is delivered as soon as
// the block fetcher has its first hash set (or is gone).
func (h *harness) answerable() []*preq {
	var out []*preq
	add := false
	hold := h.sy.VerifAwaitsFirstHashSet()
	for _, p := range h.pend {
		if p.done {
			continue
		}
		if p.kind == kAddBlock {
			if add {
				continue
			}
			add = true
			if hold {
				continue
			}
		}
		out = append(out, p)
	}
	return out
}

// ---- peers ----------------------------------------------------------------------------------

func peerName(i int) string { return fmt.Sprintf("peer-%d", i) }

func peerIdx(id types.PeerID) int {
	var i int
	if _, err := fmt.Sscanf(string(id), "peer-%d", &i); err != nil {
		return -1
	}
	return i
}

func (h *harness) peerHonest(i int) bool {
	if h.k.faults == 0 || h.phase >= 2 {
		return true
	}
	return i >= 0 && h.k.honest&(1<<uint(i)) != 0
}

func garbageHash(a, b, c uint64) []byte {
	return simkit.Key32(fmt.Sprintf("garbage-%d-%d", a, b), int(c))
}
