// Package syncw: see DESIGN.md section 4.
package syncw
