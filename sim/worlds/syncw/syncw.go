// Package syncw is the SYNC world: the real, unmodified syncer.Syncer (finder, hash fetcher,
// block fetcher, block processor with all their goroutines, channels, timers and the scheduler
// ticker) inside a testing/synctest bubble. The harness is the component.IComponentRequester
// handed to Syncer.SetRequester: ChainSvc requests are answered from a local block tree,
// P2PSvc requests by simulated remote peers; the driver steps the bubble from quiescence to
// quiescence and decides C17 on what the syncer emits. See DESIGN.md 4.6 and 5/C17.
package syncw

import (
	"fmt"
	"os"
	"runtime/debug"
	"testing"
	"testing/synctest"
	"time"

	"github.com/aergoio/aergo/v2/syncer"
	"github.com/aergoio/aergo/v2/types"
	"github.com/aergoio/aergo/v2/zz_verif/simkit"
)

func init() {
	simkit.Register("sync", func(scratch string, t *testing.T) simkit.World { return &World{Scratch: scratch, T: t} })
}

type World struct {
	Scratch string
	T       *testing.T
}

func (w *World) Name() string    { return "sync" }
func (w *World) Props() []string { return []string{"C17"} }

// knobs is the swarm configuration of one run.
type knobs struct {
	F, locX, remX                         int // fork point (common height), blocks only local / only remote has
	hashReq, blkReq, tasks, pconn, npeers int
	honest                                int // bitmask of peers that never misbehave (timing aside)
	faults, stops                         int // fault-injecting sub-batch? stop requests?
	lieHash, lieAnc, forge                int // fault families of a Byzantine target peer / block server
	fullOnly                              int
	tickA, fetchT, dfltT                  int // tick = tickA*M+1; fetchTimeOut = fetchT*tickA*M+5; dfltTimeout = dfltT*tickA*M+3
	nsteps                                int
}

func drawKnobs(x *simkit.Ctx) *knobs {
	k := &knobs{}
	thorough := x.Case.Tier == "thorough"
	shape := x.CfgInt("shape", func(r *simkit.Rng) int { return r.Pick(50, 25, 15, 10) })
	k.F = x.CfgInt("fork", func(r *simkit.Rng) int {
		switch shape {
		case 0: // small chains, every fork point
			return r.Range(0, 40)
		case 1: // medium
			return r.Range(0, 200)
		case 2: // the local chain is longer than the anchors reach: the light scan can find none
			return r.Range(0, 60)
		default: // fork point 0: only genesis is shared
			return 0
		}
	})
	k.locX = x.CfgInt("localExtra", func(r *simkit.Rng) int {
		switch shape {
		case 2:
			return r.Range(500, 560)
		case 1:
			return []int{0, r.Range(1, 20), r.Range(20, 60)}[r.Intn(3)]
		default:
			return []int{0, 0, r.Range(1, 6), r.Range(1, 40)}[r.Intn(4)]
		}
	})
	k.remX = x.CfgInt("remoteExtra", func(r *simkit.Rng) int {
		lo, hi := 1, 40
		if thorough {
			hi = 120
		}
		switch r.Pick(70, 15, 15) {
		case 0: // remote is ahead
			return k.locX + r.Range(lo, hi)
		case 1: // remote is not ahead: a SyncStart toward it must be skipped
			return r.Range(0, k.locX)
		default:
			return k.locX + r.Range(1, 3)
		}
	})
	k.hashReq = x.CfgInt("hashReq", func(r *simkit.Rng) int { return r.Range(1, 16) })
	k.blkReq = x.CfgInt("blockReq", func(r *simkit.Rng) int { return r.Range(1, 6) })
	k.tasks = x.CfgInt("tasks", func(r *simkit.Rng) int { return r.Range(1, 5) })
	k.pconn = x.CfgInt("pendingConn", func(r *simkit.Rng) int { return r.Range(1, 10) })
	k.npeers = x.CfgInt("peers", func(r *simkit.Rng) int { return r.Range(1, 5) })
	k.faults = x.CfgInt("faults", func(r *simkit.Rng) int { return r.Pick(30, 70) })
	k.stops = x.CfgInt("stops", func(r *simkit.Rng) int { return r.Pick(50, 50) })
	k.honest = x.CfgInt("honestMask", func(r *simkit.Rng) int {
		if r.Chance(1, 4) {
			return 0
		}
		return r.Intn(1 << uint(k.npeers))
	})
	k.lieHash = x.CfgInt("lieHash", func(r *simkit.Rng) int { return r.Pick(60, 40) })
	k.lieAnc = x.CfgInt("lieAncestor", func(r *simkit.Rng) int { return r.Pick(60, 40) })
	k.forge = x.CfgInt("forge", func(r *simkit.Rng) int { return r.Pick(60, 40) })
	k.fullOnly = x.CfgInt("fullScanOnly", func(r *simkit.Rng) int { return r.Pick(70, 30) })
	k.tickA = x.CfgInt("tickA", func(r *simkit.Rng) int { return r.Range(90, 110) })
	k.fetchT = x.CfgInt("fetchTicks", func(r *simkit.Rng) int {
		if thorough && r.Chance(1, 8) {
			return r.Range(280, 320) // the production ratio (30 s / 100 ms)
		}
		return r.Range(12, 40)
	})
	k.dfltT = x.CfgInt("dfltTicks", func(r *simkit.Rng) int {
		if k.fetchT >= 280 {
			return r.Range(1700, 1900)
		}
		return r.Range(k.fetchT+8, 3*k.fetchT+20)
	})
	k.nsteps = x.CfgInt("steps", func(r *simkit.Rng) int {
		if thorough {
			return r.Range(20, 700)
		}
		return r.Range(10, 300)
	})
	// replayed / hand-edited files: keep everything in range
	clamp := func(v *int, lo, hi int) {
		if *v < lo {
			*v = lo
		}
		if *v > hi {
			*v = hi
		}
	}
	clamp(&k.F, 0, 2000)
	clamp(&k.locX, 0, 2000)
	clamp(&k.remX, 0, 4000)
	clamp(&k.hashReq, 1, 1000)
	clamp(&k.blkReq, 1, 100)
	clamp(&k.tasks, 1, 16)
	clamp(&k.pconn, 1, 64)
	clamp(&k.npeers, 1, 5)
	clamp(&k.tickA, 10, 1000)
	clamp(&k.fetchT, 4, 1000)
	clamp(&k.dfltT, k.fetchT+1, 5000)
	clamp(&k.nsteps, 0, 5000)
	return k
}

func (w *World) Run(x *simkit.Ctx) {
	if d := os.Getenv("VERIF_SYNC_DUMP"); d != "" { // debugging aid: keep the full trace of every run
		x.Verbose = true
		defer func() {
			f, err := os.Create(fmt.Sprintf("%s/trace-%d-%d.txt", d, x.Case.Seed, os.Getpid()))
			if err == nil {
				for _, l := range x.Trace {
					fmt.Fprintln(f, l)
				}
				f.Close()
			}
		}()
	}
	k := drawKnobs(x)
	h := &harness{x: x, k: k, forged: map[*types.Block]bool{}, chunkPos: map[*types.Block]int{}}
	h.u = buildUniverse(k.F, k.locX, k.remX)
	h.local = newLchain(h.u.local0)
	h.tick = int64(k.tickA)*M + 1
	h.fetchTO = int64(k.fetchT)*int64(k.tickA)*M + 5
	h.dflt = int64(k.dfltT)*int64(k.tickA)*M + 3
	h.stepsLeft = k.nsteps
	if os.Getenv("VERIF_SYNC_LOG") == "" {
		syncer.VerifQuiet()
	}
	ot, od := syncer.VerifSetTimers(time.Duration(h.tick), time.Duration(h.dflt))
	defer syncer.VerifSetTimers(ot, od)

	x.Logf("cfg F=%d locX=%d remX=%d hashReq=%d blkReq=%d tasks=%d pconn=%d peers=%d honest=%b faults=%d stops=%d lie=%d/%d/%d full=%d tick=%d fetch=%d dflt=%d",
		k.F, k.locX, k.remX, k.hashReq, k.blkReq, k.tasks, k.pconn, k.npeers, k.honest, k.faults, k.stops, k.lieHash, k.lieAnc, k.forge, k.fullOnly, h.tick, h.fetchTO, h.dflt)

	var exitPanic interface{}
	func() {
		defer func() { exitPanic = recover() }()
		synctest.Test(w.T, func(t *testing.T) {
			defer func() {
				if r := recover(); r != nil {
					h.harnessPanic = fmt.Sprintf("%v\n%s", r, debug.Stack())
				}
			}()
			h.drive()
		})
	}()
	if h.harnessPanic != nil {
		panic(h.harnessPanic) // simkit.Exec turns it into Infra
	}
	if exitPanic != nil {
		if msg := fmt.Sprint(exitPanic); len(msg) < 9 || msg[:9] != "deadlock:" {
			panic(exitPanic)
		}
		// "deadlock: main bubble goroutine has exited but blocked goroutines remain": goroutines of
		// the syncer that are blocked for good. The verdict was already taken inside the bubble
		// (a blocked actor / a session that never ends); after a normal stop this is only a probe.
		x.Logf("bubble exit: goroutines remain blocked")
		if !x.Failed() && !h.actorStuck {
			x.Probe("goroutines-left-after-stop")
		}
	}
	x.Out.SimMs = h.simEnd / 1_000_000
}
