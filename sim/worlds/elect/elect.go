// Package elect is the ELECT world (C09): real DPoS nodes cross several producer elections.
//
// Genesis producers and spare nodes (each a real chain service + mempool + DPoS instance with
// its own key) run in lock step over a fault-free network; stake / producer-vote transactions
// executed by the real system contract change who is elected; the election period (a compiled-in
// 100 blocks) is shortened through a build-overlay seam so that a run of a few dozen blocks sees
// the producer set change two or three times; nodes are restarted (the set must be rebuilt from
// the stored chain) and voted-out / never-elected nodes sign blocks for every seat of a round.
//
// Judged (C09: every slot belongs to exactly one index of the *current* producer set; a block is
// accepted only if its key belongs to a current producer whose index owns the slot):
//   - at every slot at most one node of the whole population decides "this slot is mine"
//     (the real producer-side decision, asked of every node, members or not);
//   - the block of that node is accepted by every other node (they hold the same chain);
//   - the node that produces is a member of the set elected by the votes (a reference tally written
//     from the statement: top-N candidates by the stake of their voters, from the transactions
//     that succeeded up to the snapshot height), outside the short windows around a switch;
//   - a block signed by a node that is not a member of the current set is refused by every node,
//     whatever slot of the round it is dated for.
package elect

import (
	"context"
	"fmt"
	"math/big"
	"os"
	"sort"
	"strings"
	"testing"
	"time"

	"github.com/aergoio/aergo/v2/config"
	"github.com/aergoio/aergo/v2/consensus/impl/dpos/bp"
	"github.com/aergoio/aergo/v2/internal/enc/base58"
	"github.com/aergoio/aergo/v2/types"
	"github.com/aergoio/aergo/v2/zz_verif/simclock"
	"github.com/aergoio/aergo/v2/zz_verif/simkit"
	"github.com/aergoio/aergo/v2/zz_verif/simnode"
)

type World struct{ Scratch string }

func (w *World) Name() string    { return "elect" }
func (w *World) Props() []string { return []string{"C09"} }

func init() {
	simkit.Register("elect", func(scratch string, t *testing.T) simkit.World { return &World{Scratch: scratch} })
}

type voteRec struct {
	acct     int
	cands    []int // node indices
	stake    *big.Int
	stakeTx  string // tx hash (string of bytes)
	voteTx   string
	stakeAt  uint64 // height at which the stake succeeded (0 = not yet)
	voteAt   uint64
	vote     *types.Tx // submitted once the stake is in a block (pool admission of a vote needs the stake in the state)
	stakeBad bool
	voteBad  bool
}

type env struct {
	x     *simkit.Ctx
	net   *simnode.Net
	nodes []*simnode.Node
	ids   []types.PeerID // producer id of node i
	ng    int            // size of the producer set
	P     uint64         // election period
	now   time.Time
	step  int
	votes []*voteRec
	voted map[int]bool
	seen  uint64 // main-chain height scanned for vote transactions
	txAt  map[string]*voteRec
}

func catch(f func()) (p string) {
	defer func() {
		if r := recover(); r != nil {
			p = fmt.Sprint(r)
		}
	}()
	f()
	return ""
}

func (w *World) Run(x *simkit.Ctx) {
	e := &env{x: x, voted: map[int]bool{}, txAt: map[string]*voteRec{}}
	e.ng = x.CfgInt("producers", func(r *simkit.Rng) int { return r.Range(3, 4) })
	nspare := x.CfgInt("spares", func(r *simkit.Rng) int { return r.Range(1, 2) })
	e.P = uint64(x.CfgInt("period", func(r *simkit.Rng) int { return r.Range(3, 6) }))
	nslots := x.CfgInt("slots", func(r *simkit.Rng) int {
		if x.Case.Tier == "thorough" {
			return r.Range(5, 8)
		}
		return r.Range(4, 6)
	}) * int(e.P)
	nacc := 7

	scratch := fmt.Sprintf("%s/elect-%d", w.Scratch, os.Getpid())
	_ = os.RemoveAll(scratch)
	net := simnode.NewNet(simnode.NetOpts{Scratch: scratch, NBP: e.ng, NAcc: nacc, Public: true,
		Hardfork: config.HardforkConfig{V2: 1000000, V3: 1000001, V4: 1000002, V5: 1000003},
		Balance:  "1000000000000000000000000", BlockIntv: 1})
	defer func() { net.Close(); _ = os.RemoveAll(scratch); bp.VerifElectionPeriod = 0 }()
	bp.VerifElectionPeriod = types.BlockNo(e.P)
	e.net = net
	for i := 0; i < e.ng; i++ {
		e.nodes = append(e.nodes, net.AddNode(i, nil, "dpos"))
	}
	for i := 0; i < nspare; i++ {
		e.nodes = append(e.nodes, net.AddNode(-1, nil, "dpos"))
	}
	for _, n := range e.nodes {
		id, _ := types.IDFromPublicKey(n.Key.GetPublic())
		e.ids = append(e.ids, id)
	}
	N := len(e.nodes)
	e.now = net.Start
	simclock.Set(e.now)

	slots := 0
	gen := func(r *simkit.Rng) *simkit.Step {
		if slots >= nslots {
			return nil
		}
		h := e.height() + 1
		// votes are cast while they can still reach a snapshot that will be used within the run
		if len(e.voted) < nacc && h < uint64(nslots)-e.P && r.Chance(2, 5) {
			var free []int
			for a := 0; a < nacc; a++ {
				if !e.voted[a] {
					free = append(free, a)
				}
			}
			a := free[r.Intn(len(free))]
			k := r.Range(1, e.ng)
			return &simkit.Step{Op: "vote", A: a, K: r.Perm(N)[:k]}
		}
		switch r.Pick(12, 4, 2) {
		case 1:
			return &simkit.Step{Op: "claim", A: r.Intn(N), B: r.Intn(N), C: r.Intn(e.ng + 1)}
		case 2:
			return &simkit.Step{Op: "restart", A: r.Intn(N)}
		}
		slots++
		return &simkit.Step{Op: "slot"}
	}
	for {
		st, idx := x.Next(gen)
		if st == nil || x.Failed() {
			break
		}
		e.step = idx
		switch st.Op {
		case "slot":
			e.doSlot()
		case "vote":
			e.doVote(st)
		case "claim":
			e.doClaim(st.A, st.B, st.C)
		case "restart":
			e.doRestart(st.A)
		default:
			x.Noop()
		}
	}
	x.Out.SimMs = e.now.Sub(net.Start).Milliseconds()
}

func (e *env) height() uint64 { return e.nodes[0].Best().BlockNo() }

// nextSlot moves the clock 150 ms into the next slot.
func (e *env) nextSlot() {
	im := int64(1000)
	ms := e.now.UnixNano() / 1000000
	next := ((ms-1)/im+1)*im + 1
	e.now = time.Unix(0, (next+150)*1000000)
	simclock.Set(e.now)
}

// claimants asks every node the producer-side question "is this instant mine?".
func (e *env) claimants() []int {
	var out []int
	for i, n := range e.nodes {
		var yes bool
		n.Do(func() { yes = n.DP.VerifWouldProduce(simclock.Now()) })
		if yes {
			out = append(out, i)
		}
	}
	return out
}

func (e *env) inSync() bool {
	id := e.nodes[0].Best().ID()
	for _, n := range e.nodes[1:] {
		if n.Best().ID() != id {
			return false
		}
	}
	return true
}

func (e *env) doSlot() {
	x := e.x
	e.nextSlot()
	if !e.inSync() {
		// can only follow an earlier violation-free oddity (e.g. a production failure): nothing to judge
		x.Probe("nodes-out-of-sync")
	}
	h := e.height() + 1
	cl := e.claimants()
	if len(cl) == 0 {
		// a producer whose predecessor stayed silent (or the first one after genesis) only acts
		// late in its slot
		e.now = e.now.Add(650 * time.Millisecond)
		simclock.Set(e.now)
		cl = e.claimants()
		if len(cl) > 0 {
			x.Probe("late-in-slot-production")
		}
	}
	x.Logf("slot h=%d P=%d claimants=%v sets=%s", h, e.P, cl, e.clusters())
	if len(cl) > 1 && e.inSync() {
		x.Fail("C09", "two-producers-entitled-to-one-slot", e.regimeSig(h), fmt.Sprintf("at %s (next block %d, period %d) the nodes %v all decide that the slot is theirs; producer sets as the nodes see them: %s", e.now.UTC().Format("15:04:05.000"), h, e.P, cl, e.clusters()), e.step)
		return
	}
	if len(cl) == 0 {
		x.Probe("slot-without-producer")
		return
	}
	i := cl[0]
	n := e.nodes[i]
	var (
		blk        *types.Block
		produced   bool
		gerr, aerr error
	)
	if p := catch(func() { blk, produced, gerr, aerr = n.ProduceNow(context.Background()) }); p != "" {
		x.Fail("C09", "producer-died", "produce", fmt.Sprintf("node %d died while producing block %d: %s", i, h, p), e.step)
		return
	}
	if !produced || gerr != nil || aerr != nil || blk == nil {
		x.Logf("production failed: produced=%v gen=%v add=%v", produced, gerr, aerr)
		x.Count("production-failed", 1)
		return
	}
	x.Count("blocks-produced", 1)
	// membership against the reference tally
	if sets, stable := e.allowed(h); sets != nil {
		ok := false
		for _, s := range sets {
			if s[i] {
				ok = true
			}
		}
		if stable {
			x.Probe("producer-judged-against-elected-set")
		}
		if !ok {
			x.Fail("C09", "producer-not-in-elected-set", e.regimeSig(h), fmt.Sprintf("block %d was produced by node %d, which is not in the producer set the votes elect for that height (%s); sets as the nodes see them: %s", h, i, e.describe(sets), e.clusters()), e.step)
			return
		}
	}
	for j, m := range e.nodes {
		if j == i {
			continue
		}
		var err error
		if p := catch(func() { err = m.AddBlock(blk, "") }); p != "" {
			x.Fail("C09", "node-died", "deliver", fmt.Sprintf("node %d died receiving block %d: %s", j, h, p), e.step)
			return
		}
		if err != nil || m.Best().ID() != blk.ID() {
			x.Fail("C09", "honest-block-refused", e.regimeSig(h), fmt.Sprintf("block %d of node %d (the only node that claims the slot) was not adopted by node %d, which holds the same chain: err=%v; sets as the nodes see them: %s", h, i, j, err, e.clusters()), e.step)
			return
		}
	}
	e.scanChain()
	x.Digest(h%(2*e.P), i, e.clusters())
	if h > 3*e.P {
		x.Out.Nontrivial = true
	}
}

// scanChain records at which height the vote transactions succeeded (reference node 0).
func (e *env) scanChain() {
	n := e.nodes[0]
	best := n.Best().BlockNo()
	for h := e.seen + 1; h <= best; h++ {
		var b *types.Block
		var rc *types.Receipts
		n.Do(func() {
			b, _ = n.CS.VerifGetBlockByNo(h)
			if b != nil {
				rc, _ = n.CS.VerifGetReceipts(b.BlockHash())
			}
		})
		if b == nil {
			break
		}
		for k, tx := range b.GetBody().GetTxs() {
			v := e.txAt[string(tx.GetHash())]
			if v == nil {
				continue
			}
			ok := rc != nil && k < len(rc.Get()) && rc.Get()[k].Status == "SUCCESS"
			e.x.Logf("chain: block %d holds a governance tx of account %d, status ok=%v", h, v.acct, ok)
			if string(tx.GetHash()) == v.stakeTx {
				v.stakeAt, v.stakeBad = h, !ok
				if ok && v.vote != nil {
					for _, m := range e.nodes {
						_ = m.Submit(v.vote)
					}
					v.vote = nil
				}
			} else {
				v.voteAt, v.voteBad = h, !ok
			}
		}
		e.seen = h
	}
}

func (e *env) doVote(st *simkit.Step) {
	x := e.x
	a := st.A
	if a < 0 || a >= len(e.net.Accounts) || e.voted[a] || len(st.K) == 0 {
		x.Noop()
		return
	}
	var cands []int
	seen := map[int]bool{}
	for _, c := range st.K {
		if c < 0 || c >= len(e.nodes) || seen[c] {
			continue
		}
		seen[c] = true
		cands = append(cands, c)
	}
	if len(cands) == 0 {
		x.Noop()
		return
	}
	e.voted[a] = true
	acc := e.net.Accounts[a]
	// distinct powers of two: two candidates tie only if exactly the same accounts voted for them
	stake := new(big.Int).Mul(types.StakingMinimum, big.NewInt(1<<uint(a)))
	var args []string
	for _, c := range cands {
		args = append(args, `"`+base58.Encode([]byte(e.ids[c]))+`"`)
	}
	cid := e.nodes[0].ChainIDHash()
	t1 := simnode.SignedTx(acc, 1, []byte(types.AergoSystem), stake, types.TxType_GOVERNANCE, []byte(`{"Name":"v1stake"}`), cid, 0)
	t2 := simnode.SignedTx(acc, 2, []byte(types.AergoSystem), new(big.Int), types.TxType_GOVERNANCE, []byte(`{"Name":"v1voteBP","Args":[`+strings.Join(args, ",")+`]}`), cid, 0)
	v := &voteRec{acct: a, cands: cands, stake: stake, stakeTx: string(t1.GetHash()), voteTx: string(t2.GetHash()), vote: t2}
	e.votes = append(e.votes, v)
	e.txAt[v.stakeTx], e.txAt[v.voteTx] = v, v
	for _, n := range e.nodes {
		_ = n.Submit(t1)
	}
	x.Logf("vote: account %d stakes %s and votes for nodes %v", a, stake, cands)
	x.Count("votes-cast", 1)
}

// elected returns the set the votes elect at snapshot height s (nil = the reference cannot tell:
// a vote is still in flight around s, failed, fewer candidates than seats, or a tie at the boundary).
func (e *env) elected(s uint64) map[int]bool {
	tally := map[int]*big.Int{}
	for _, v := range e.votes {
		if v.stakeBad || v.voteBad {
			return nil
		}
		if v.voteAt == 0 || v.stakeAt == 0 {
			// submitted but not yet in a block: unknown whether it lands before s
			if e.seen <= s {
				return nil
			}
			continue
		}
		if v.voteAt > s {
			continue
		}
		for _, c := range v.cands {
			if tally[c] == nil {
				tally[c] = new(big.Int)
			}
			tally[c].Add(tally[c], v.stake)
		}
	}
	if len(tally) < e.ng {
		return nil
	}
	var cs []int
	for c := range tally {
		cs = append(cs, c)
	}
	sort.Slice(cs, func(i, j int) bool {
		if d := tally[cs[i]].Cmp(tally[cs[j]]); d != 0 {
			return d > 0
		}
		return cs[i] < cs[j]
	})
	if len(cs) > e.ng && tally[cs[e.ng-1]].Cmp(tally[cs[e.ng]]) == 0 {
		e.x.Probe("tie-at-the-last-seat")
		return nil
	}
	out := map[int]bool{}
	for _, c := range cs[:e.ng] {
		out[c] = true
	}
	return out
}

// setAt is the producer set in force after the cluster was last refreshed at height r
// (a multiple of the period): the genesis set during the bootstrap, afterwards the set elected
// one period before r.
func (e *env) setAt(r uint64) (map[int]bool, bool) {
	if r < 3*e.P {
		g := map[int]bool{}
		for i := 0; i < e.ng; i++ {
			g[i] = true
		}
		return g, true
	}
	s := e.elected(r - e.P)
	return s, s != nil
}

// allowed returns the sets a producer of block h may belong to. The set changes when a block whose
// height is a multiple of the period has been connected; one height either side of that point both
// the old and the new set are tolerated (stable=false). nil = the reference cannot tell.
func (e *env) allowed(h uint64) (sets []map[int]bool, stable bool) {
	var keys []string
	for d := int64(-1); d <= 1; d++ {
		hh := int64(h) - 1 + d
		if hh < 0 {
			hh = 0
		}
		r := uint64(hh) / e.P * e.P
		s, ok := e.setAt(r)
		if !ok {
			return nil, false
		}
		k := e.describe([]map[int]bool{s})
		dup := false
		for _, q := range keys {
			if q == k {
				dup = true
			}
		}
		if !dup {
			keys = append(keys, k)
			sets = append(sets, s)
		}
	}
	return sets, len(sets) == 1
}

func (e *env) describe(sets []map[int]bool) string {
	var parts []string
	for _, s := range sets {
		var m []int
		for i := range s {
			m = append(m, i)
		}
		sort.Ints(m)
		parts = append(parts, fmt.Sprint(m))
	}
	return strings.Join(parts, " or ")
}

func (e *env) regimeSig(h uint64) string {
	if h <= 3*e.P {
		return "bootstrap"
	}
	return "after-election"
}

// clusters renders every node's own producer list as node indices in seat order.
func (e *env) clusters() string {
	idx := map[types.PeerID]int{}
	for i, id := range e.ids {
		idx[id] = i
	}
	var parts []string
	for i, n := range e.nodes {
		var seats []string
		n.Do(func() {
			for _, id := range n.DP.VerifBPIDs() {
				if k, ok := idx[id]; ok {
					seats = append(seats, fmt.Sprint(k))
				} else {
					seats = append(seats, "?")
				}
			}
		})
		parts = append(parts, fmt.Sprintf("n%d:[%s]", i, strings.Join(seats, ",")))
	}
	return strings.Join(parts, " ")
}

// doClaim: node a signs a block for the slot `ahead` slots after the next one on top of the
// common best block and shows it to node b. When a is not a member of the current producer set
// the block must be refused whatever seat the slot belongs to.
func (e *env) doClaim(a, b, ahead int) {
	x := e.x
	if a < 0 || a >= len(e.nodes) || b < 0 || b >= len(e.nodes) || a == b || !e.inSync() {
		x.Noop()
		return
	}
	h := e.height() + 1
	sets, stable := e.allowed(h)
	if sets == nil || !stable || sets[0][a] {
		x.Noop()
		return
	}
	// dated for the slot that is `ahead` slots in the future; the receiver's clock is moved there
	// too (a block dated two or more slots ahead of the local clock is refused for that reason alone)
	saved := e.now
	e.nextSlot()
	for k := 0; k < ahead; k++ {
		e.nextSlot()
	}
	ts := e.now
	var blk *types.Block
	var gerr error
	na := e.nodes[a]
	if p := catch(func() { blk, _, gerr = na.Generate(context.Background(), ts) }); p != "" || gerr != nil || blk == nil {
		x.Logf("claim: node %d could not build a block: %v %s", a, gerr, p)
		e.now = saved
		simclock.Set(e.now)
		x.Noop()
		return
	}
	x.Fault("block-signed-by-non-member")
	if h > 3*e.P {
		x.Fault("block-signed-by-voted-out-or-never-elected-node-after-election")
	}
	nb := e.nodes[b]
	before := nb.Best().ID()
	var err error
	if p := catch(func() { err = nb.AddBlock(blk, "") }); p != "" {
		x.Fail("C09", "node-died", "claim", fmt.Sprintf("node %d died receiving a block of non-member %d: %s", b, a, p), e.step)
		return
	}
	var stored *types.Block
	nb.Do(func() { stored, _ = nb.CS.GetBlock(blk.BlockHash()) })
	x.Logf("claim: node %d -> node %d block %d ahead=%d err=%v stored=%v", a, b, h, ahead, err, stored != nil)
	if err == nil || stored != nil || nb.Best().ID() != before {
		x.Fail("C09", "block-of-non-member-accepted", e.regimeSig(h), fmt.Sprintf("node %d is not in the current producer set (%s) but node %d accepted its block %d dated %d slot(s) ahead (err=%v, stored=%v, best moved=%v); sets as the nodes see them: %s", a, e.describe(sets), b, h, ahead+1, err, stored != nil, nb.Best().ID() != before, e.clusters()), e.step)
		return
	}
	e.now = saved
	simclock.Set(e.now)
}

func (e *env) doRestart(i int) {
	x := e.x
	if i < 0 || i >= len(e.nodes) {
		x.Noop()
		return
	}
	n := e.nodes[i]
	simclock.Set(e.now)
	n.Stop()
	var err error
	if p := catch(func() { n.Boot(); err = n.Recover() }); p != "" || err != nil {
		x.Fail("C09", "restart-failed", "clean-restart", fmt.Sprintf("node %d: %v %s", i, err, p), e.step)
		return
	}
	x.Fault("restart")
	if e.height() > 3*e.P {
		x.Fault("restart-after-election")
	}
	x.Logf("restart %d: %s", i, e.clusters())
}
