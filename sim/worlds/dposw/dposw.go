// Package dposw holds the DPOS world: n ≤ 4 real DPoS producer nodes and up to two observers in
// one process, each with the production consensus objects (dpos.Status / libStatus / bp.Cluster /
// slot) on its own simulated disk and its own (skewed) clock, joined by a simulated network that
// loses, duplicates, reorders, delays and corrupts blocks and can be partitioned, with clean
// restarts, a stand-in for the syncer (fetch a peer's main chain) and Byzantine producers
// (equivocation, out-of-turn, future-dated, non-member). Decides C08 (finality) and C09
// (producer legitimacy).
package dposw

import (
	"bytes"
	"context"
	"crypto/sha256"
	"fmt"
	"math/big"
	"os"
	"reflect"
	"sort"
	"strings"
	"testing"
	"time"

	"github.com/aergoio/aergo/v2/config"
	"github.com/aergoio/aergo/v2/consensus"
	"github.com/aergoio/aergo/v2/consensus/impl/dpos/bp"
	"github.com/aergoio/aergo/v2/consensus/impl/dpos/slot"
	"github.com/aergoio/aergo/v2/internal/enc/proto"
	"github.com/aergoio/aergo/v2/state"
	"github.com/aergoio/aergo/v2/types"
	"github.com/aergoio/aergo/v2/zz_verif/simclock"
	"github.com/aergoio/aergo/v2/zz_verif/simkit"
	"github.com/aergoio/aergo/v2/zz_verif/simnode"
	"github.com/libp2p/go-libp2p/core/crypto"
)

type World struct{ Scratch string }

func (w *World) Name() string    { return "dpos" }
func (w *World) Props() []string { return []string{"C08", "C09", "C07"} }

func init() {
	simkit.Register("dpos", func(scratch string, t *testing.T) simkit.World { return &World{Scratch: scratch} })
}

// envelope kinds
const (
	kHonest = iota
	kEquivocation
	kOutOfTurn
	kFuture
	kNonMember
	kCorrupted
	kPrivateFork
)

var kindName = []string{"honest", "equivocation", "out-of-turn", "future-dated", "non-member", "corrupted-header", "private-fork"}

type envelope struct {
	from, to int
	b        *types.Block
	kind     int
	field    string // corrupted header field
	done     bool
}

type libRec struct {
	no   uint64
	hash string
}

type env struct {
	x     *simkit.Ctx
	prop  string
	net   *simnode.Net
	nodes []*simnode.Node
	nbp   int
	intv  int // block interval (s)
	now   time.Time
	group []int
	byz   map[int]bool
	msgs  []*envelope
	step  int
	// oracle state
	lastLib       []libRec
	finalSet      []map[uint64]string // per node: height -> hash for every height that was ever <= LIB
	accepted      map[string]bool     // header digests of blocks that were ever on a correct node's main chain (checked once)
	slotOwner     map[int64]string    // slot index -> producer id of a block accepted on some main chain
	faultsStopped bool
	shadow        *simnode.Node // second machine of the Byzantine producer (private branch)
	shadowFork    uint64
}

func digestOf(b *types.Block) string {
	c := simnode.CloneBlock(b)
	c.Hash = nil
	return string(c.BlockHash())
}

// ownerIndex is the slot-owner function written from the specification: time is cut into
// intervals of I ms, an instant t (ms) lies in interval ceil(t/I) (boundaries belong to the
// interval they close), and interval k belongs to producer k mod n.
func ownerIndex(tsNs int64, intervalMs int64, n int) (slotIdx int64, owner int) {
	ms := tsNs / 1000000
	slotIdx = (ms-1)/intervalMs + 1
	return slotIdx, int(slotIdx % int64(n))
}

func (w *World) Run(x *simkit.Ctx) {
	prop := x.Case.Prop
	e := &env{x: x, prop: prop, byz: map[int]bool{}, accepted: map[string]bool{}, slotOwner: map[int64]string{}}
	e.nbp = x.CfgInt("bps", func(r *simkit.Rng) int { return []int{1, 3, 3, 4, 4, 4}[r.Intn(6)] })
	nobs := x.CfgInt("observers", func(r *simkit.Rng) int { return r.Intn(3) })
	e.intv = x.CfgInt("interval", func(r *simkit.Rng) int { return []int{1, 1, 2}[r.Intn(3)] })
	nsteps := x.CfgInt("steps", func(r *simkit.Rng) int {
		if x.Case.Tier == "thorough" {
			return r.Range(30, 160)
		}
		return r.Range(20, 80)
	})
	nacc := 3
	// fault swarm: which kinds are enabled in this run
	fLoss := x.CfgInt("f.loss", func(r *simkit.Rng) int { return r.Pick(1, 2) })
	fPart := x.CfgInt("f.partition", func(r *simkit.Rng) int { return r.Pick(1, 1) })
	fSkew := x.CfgInt("f.skew", func(r *simkit.Rng) int { return r.Pick(2, 1) })
	fRestart := x.CfgInt("f.restart", func(r *simkit.Rng) int { return r.Pick(1, 1) })
	fByz := x.CfgInt("f.byzantine", func(r *simkit.Rng) int { return r.Pick(1, 1) })
	fCorrupt := x.CfgInt("f.corrupt", func(r *simkit.Rng) int { return r.Pick(1, 1) })
	if prop == "C09" {
		fByz, fCorrupt = 1, 1
	}
	nbyz := 0
	if fByz == 1 && e.nbp >= 4 {
		nbyz = 1 // f < n/3
	}

	scratch := fmt.Sprintf("%s/dpos-%d", w.Scratch, os.Getpid())
	_ = os.RemoveAll(scratch)
	net := simnode.NewNet(simnode.NetOpts{Scratch: scratch, NBP: e.nbp, NAcc: nacc, Public: true,
		Hardfork: config.HardforkConfig{V2: 1000000, V3: 1000001, V4: 1000002, V5: 1000003},
		Balance:  "1000000000000000000000000", BlockIntv: e.intv})
	defer func() { net.Close(); _ = os.RemoveAll(scratch) }()
	e.net = net
	for i := 0; i < e.nbp; i++ {
		e.nodes = append(e.nodes, net.AddNode(i, nil, "dpos"))
	}
	for i := 0; i < nobs; i++ {
		e.nodes = append(e.nodes, net.AddNode(-1, nil, "dpos"))
	}
	// the last producer is the Byzantine one (it still runs a real node, it just also signs other things)
	if nbyz == 1 {
		e.byz[e.nbp-1] = true
	}
	N := len(e.nodes)
	e.group = make([]int, N)
	e.lastLib = make([]libRec, N)
	e.finalSet = make([]map[uint64]string, N)
	for i := range e.finalSet {
		e.finalSet[i] = map[uint64]string{}
	}
	e.now = net.Start
	simclock.Set(e.now)

	if prop == "C09" {
		e.slotScan()
		if x.Failed() {
			return
		}
	}

	// In half of the Byzantine runs the generator starts with the long-range attack on finality: let the
	// chain and its LIB grow, plant a short private branch (kept by the peers as a side branch), let
	// the LIB pass its fork point, then extend the branch beyond the public chain and publish it.
	attack := x.CfgInt("attack", func(r *simkit.Rng) int {
		if nbyz == 1 {
			return r.Pick(1, 1)
		}
		return 0
	})
	var script []*simkit.Step
	if attack == 1 {
		round := func(k int) {
			for i := 0; i < k; i++ {
				script = append(script, &simkit.Step{Op: "slot", V: 150}, &simkit.Step{Op: "flushnet"},
					&simkit.Step{Op: "tick", V: int64(e.intv)*800 - 150}, &simkit.Step{Op: "flushnet"})
			}
		}
		round(2*e.nbp + 2)
		script = append(script, &simkit.Step{Op: "byz", A: kPrivateFork, B: 36 + 18 + 1, V: 0}, &simkit.Step{Op: "flushnet"}) // short, new, depth 2
		round(3 * e.nbp)
		script = append(script, &simkit.Step{Op: "byz", A: kPrivateFork, B: 6, V: 0}, &simkit.Step{Op: "flushnet"}) // extend + publish
	}
	gen := func(r *simkit.Rng) *simkit.Step {
		if len(x.Case.Steps) >= nsteps+len(script) {
			return nil
		}
		if k := len(x.Case.Steps); k < len(script) {
			return script[k]
		}
		pending := 0
		for _, m := range e.msgs {
			if !m.done {
				pending++
			}
		}
		pickMsg := func() int {
			// prefer the oldest pending messages, sometimes any
			var idx []int
			for i, m := range e.msgs {
				if !m.done {
					idx = append(idx, i)
				}
			}
			if len(idx) == 0 {
				return 0
			}
			if r.Chance(2, 3) {
				return idx[r.Intn(min(len(idx), 4))]
			}
			return idx[r.Intn(len(idx))]
		}
		wDeliver := 0
		if pending > 0 {
			wDeliver = 40
		}
		if r.Chance(1, 6) {
			return &simkit.Step{Op: "tick", V: int64(100 + r.Intn(700)*e.intv)}
		}
		switch r.Pick(30, wDeliver, 6, 4*fLoss*sign(pending), 4*fLoss*sign(pending), 3*fPart, 2*fPart, 4*fSkew, 3*fRestart, 6*nbyz, 5*fCorrupt*sign(pending), 6, 3) {
		case 0:
			return &simkit.Step{Op: "slot", V: int64(20 + r.Intn(e.intv*1000-40))}
		case 1:
			return &simkit.Step{Op: "deliver", A: pickMsg()}
		case 2:
			return &simkit.Step{Op: "flushnet"}
		case 3:
			return &simkit.Step{Op: "drop", A: pickMsg()}
		case 4:
			return &simkit.Step{Op: "dup", A: pickMsg()}
		case 5:
			g := make([]int, N)
			for i := range g {
				g[i] = r.Intn(2)
			}
			return &simkit.Step{Op: "partition", K: g}
		case 6:
			return &simkit.Step{Op: "heal"}
		case 7:
			ms := []int64{-3000, -2000, -1500, -1000, -400, 0, 0, 400, 1000, 1500, 2000, 3000}[r.Intn(12)] * int64(e.intv)
			return &simkit.Step{Op: "skew", A: r.Intn(N), V: ms}
		case 8:
			return &simkit.Step{Op: "restart", A: r.Intn(N)}
		case 9:
			if r.Chance(1, 3) {
				return &simkit.Step{Op: "byz", A: kPrivateFork, B: r.Intn(64), V: int64(r.Intn(1 << uint(N)))}
			}
			return &simkit.Step{Op: "byz", A: 1 + r.Intn(4), B: r.Intn(8), V: int64(r.Intn(1 << uint(N)))}
		case 10:
			return &simkit.Step{Op: "corrupt", A: pickMsg(), B: r.Intn(32), C: r.Intn(256)}
		case 11:
			return &simkit.Step{Op: "tx", A: r.Intn(N), B: r.Intn(nacc), C: r.Intn(nacc), V: int64(1 + r.Intn(1000))}
		}
		return &simkit.Step{Op: "sync", A: r.Intn(N), B: r.Intn(N)}
	}

	for {
		st, idx := x.Next(gen)
		if st == nil || x.Failed() {
			break
		}
		e.step = idx
		switch st.Op {
		case "slot":
			e.doSlot(st.V)
		case "tick":
			e.doTick(st.V)
		case "deliver":
			e.doDeliver(st.A, false)
		case "dup":
			x.Fault("duplicate")
			e.doDeliver(st.A, true)
		case "drop":
			if st.A >= 0 && st.A < len(e.msgs) && !e.msgs[st.A].done {
				e.msgs[st.A].done = true
				x.Fault("loss")
			} else {
				x.Noop()
			}
		case "flushnet":
			e.flushNet()
		case "partition":
			if len(st.K) == N {
				copy(e.group, st.K)
				x.Fault("partition")
			} else {
				x.Noop()
			}
		case "heal":
			for i := range e.group {
				e.group[i] = 0
			}
			x.Count("heal", 1)
		case "skew":
			if st.A >= 0 && st.A < N {
				e.nodes[st.A].Skew = time.Duration(st.V) * time.Millisecond
				if st.V != 0 {
					x.Fault("clock-skew")
				}
			} else {
				x.Noop()
			}
		case "restart":
			e.doRestart(st.A)
		case "byz":
			e.doByz(st.A, st.B, int(st.V))
		case "corrupt":
			e.doCorrupt(st.A, st.B, st.C)
		case "tx":
			e.doTx(st)
		case "sync":
			e.doSync(st.A, st.B)
		default:
			x.Noop()
		}
		if !x.Failed() {
			e.checkAll()
		}
	}
	if !x.Failed() {
		e.livenessPhase()
	}
	if !x.Failed() && prop == "C09" {
		e.clusterScan()
	}
	x.Out.SimMs = e.now.Sub(net.Start).Milliseconds()
}

func sign(n int) int {
	if n > 0 {
		return 1
	}
	return 0
}

func min(a, b int) int {
	if a < b {
		return a
	}
	return b
}

func catch(f func()) (p string) {
	defer func() {
		if r := recover(); r != nil {
			p = fmt.Sprintf("%v", r)
		}
	}()
	f()
	return ""
}

// correct reports whether node i follows the protocol (Byzantine producers are excluded from
// the safety oracles; their real node is still checked for nothing).
func (e *env) correct(i int) bool { return !e.byz[i] }

func (e *env) setClock() { simclock.Set(e.now) }

// broadcast queues a block for every other node.
func (e *env) broadcast(from int, b *types.Block, kind int, mask int) {
	for to := range e.nodes {
		if to == from {
			continue
		}
		if mask >= 0 && mask&(1<<uint(to)) == 0 {
			continue
		}
		e.msgs = append(e.msgs, &envelope{from: from, to: to, b: simnode.CloneBlock(b), kind: kind})
	}
}

// doSlot moves the world clock into the next slot (off ms after its start) and lets every node
// that is up act as a correct producer would at its own local time.
func (e *env) doSlot(off int64) {
	im := int64(e.intv) * 1000
	ms := e.now.UnixNano() / 1000000
	next := ((ms-1)/im+1)*im + 1 // first ms of the next interval
	if off < 1 {
		off = 1
	}
	if off >= im {
		off = im - 1
	}
	e.now = time.Unix(0, (next+off)*1000000)
	e.produceAll()
}

// doTick advances the world clock by ms and lets the producers act again (a producer whose
// predecessor stayed silent only produces late in its slot).
func (e *env) doTick(ms int64) {
	if ms < 1 {
		ms = 1
	}
	e.now = e.now.Add(time.Duration(ms) * time.Millisecond)
	e.produceAll()
}

func (e *env) produceAll() {
	x := e.x
	e.setClock()
	for i, n := range e.nodes {
		if !n.Up || i >= e.nbp {
			continue
		}
		var (
			blk      *types.Block
			produced bool
			gerr     error
			aerr     error
		)
		if p := catch(func() { blk, produced, gerr, aerr = n.ProduceNow(context.Background()) }); p != "" {
			x.Fail(e.prop, "producer-died", "produce", fmt.Sprintf("node %d died while producing: %s", i, p), e.step)
			return
		}
		if !produced {
			continue
		}
		x.Logf("node %d produced: gen=%v add=%v", i, gerr, aerr)
		if gerr != nil || aerr != nil || blk == nil {
			x.Count("production-failed", 1)
			continue
		}
		x.Count("blocks-produced", 1)
		e.noteMainChain(i)
		e.broadcast(i, blk, kHonest, -1)
	}
}

func (e *env) deliverable(m *envelope) bool {
	return !m.done && e.nodes[m.to].Up && e.group[m.from] == e.group[m.to]
}

func (e *env) doDeliver(k int, keep bool) {
	x := e.x
	if k < 0 || k >= len(e.msgs) || !e.deliverable(e.msgs[k]) {
		x.Noop()
		return
	}
	m := e.msgs[k]
	if !keep {
		m.done = true
	}
	e.setClock()
	n := e.nodes[m.to]
	// local clock of the receiver at arrival (for the not-future clause)
	localNs := e.now.Add(n.Skew).UnixNano()
	// a block the node already has says nothing about this arrival (duplicate / re-sync)
	hadIt := false
	if _, gerr := n.CS.GetBlock([]byte(digestOf(m.b))); gerr == nil {
		hadIt = true
	}
	var err error
	if p := catch(func() { err = n.AddBlock(m.b, "peer") }); p != "" {
		x.Fail(e.prop, "node-died-on-block", kindName[m.kind], fmt.Sprintf("node %d died on a %s block from %d: %s", m.to, kindName[m.kind], m.from, p), e.step)
		return
	}
	x.Logf("deliver #%d %d->%d %s h=%d err=%v", k, m.from, m.to, kindName[m.kind], m.b.BlockNo(), err)
	x.Count("delivered", 1)
	if !e.correct(m.to) {
		return
	}
	stored := false
	if _, gerr := n.CS.GetBlock([]byte(digestOf(m.b))); gerr == nil {
		stored = true
	}
	if stored && !hadIt {
		// not-future clause, at acceptance time, for everything the node keeps
		im := int64(e.intv) * 1000
		bs, _ := ownerIndex(m.b.GetHeader().GetTimestamp(), im, e.nbp)
		ls, _ := ownerIndex(localNs, im, e.nbp)
		if bs >= ls+2 && err == nil {
			x.Fail("C09", "future-block-accepted", kindName[m.kind], fmt.Sprintf("node %d kept a block of slot %d while its own clock is in slot %d", m.to, bs, ls), e.step)
			return
		}
		if m.kind == kCorrupted {
			x.Fail("C09", "corrupted-header-accepted", m.field, fmt.Sprintf("node %d kept a block whose header field %s was altered in flight (signature untouched)", m.to, m.field), e.step)
			return
		}
		if ok, verr := simnode.CloneBlock(m.b).VerifySign(); !ok || verr != nil {
			x.Fail("C09", "bad-signature-accepted", kindName[m.kind], fmt.Sprintf("node %d kept a block whose signature does not verify", m.to), e.step)
			return
		}
	}
	e.noteMainChain(m.to)
	// the finality oracles are evaluated after every single delivery: a LIB advance must be judged on
	// the chain that produced it, not on what later deliveries of the same step turned it into
	if !x.Failed() {
		e.checkAll()
	}
}

func (e *env) flushNet() {
	for rounds := 0; rounds < 4; rounds++ {
		any := false
		for k := range e.msgs {
			if e.deliverable(e.msgs[k]) {
				e.doDeliver(k, false)
				any = true
				if e.x.Failed() {
					return
				}
			}
		}
		if !any {
			return
		}
	}
}

// doSync is the stand-in for the syncer: node a fetches node b's main chain above their common
// ancestor and receives it in ascending order.
func (e *env) doSync(a, b int) {
	x := e.x
	if a < 0 || b < 0 || a >= len(e.nodes) || b >= len(e.nodes) || a == b || !e.nodes[a].Up || !e.nodes[b].Up || e.group[a] != e.group[b] {
		x.Noop()
		return
	}
	na, nb := e.nodes[a], e.nodes[b]
	top := nb.Best().BlockNo()
	var h uint64
	for h = top; h > 0; h-- {
		hb, err := nb.CS.GetHashByNo(h)
		if err != nil {
			continue
		}
		ha, err := na.CS.GetHashByNo(h)
		if err == nil && bytes.Equal(ha, hb) {
			break
		}
	}
	e.setClock()
	x.Count("sync", 1)
	// C07 with the real consensus: when a correct peer's main chain is strictly longer, forks at or
	// above this node's irreversible block and is handed over completely and in order, the node
	// must switch to it (every block on a correct node's main chain is valid; in the final phase
	// clocks are right, so none of them is "future").
	bestB := nb.Best()
	la, _ := e.lib(a)
	mustAdopt := e.faultsStopped && e.correct(a) && e.correct(b) && bestB.BlockNo() > na.Best().BlockNo() && h >= la
	complete := true
	for i := h + 1; i <= top; i++ {
		var blk *types.Block
		nb.Do(func() { blk, _ = nb.CS.VerifGetBlockByNo(i) })
		if blk == nil {
			complete = false
			break
		}
		// a block produced earlier by a producer whose clock ran ahead may still lie in the future
		im := int64(e.intv) * 1000
		bsl, _ := ownerIndex(blk.GetHeader().GetTimestamp(), im, e.nbp)
		lsl, _ := ownerIndex(e.now.Add(na.Skew).UnixNano(), im, e.nbp)
		if bsl >= lsl+2 {
			mustAdopt = false
		}
		m := &envelope{from: b, to: a, b: simnode.CloneBlock(blk), kind: kHonest}
		e.msgs = append(e.msgs, m)
		e.doDeliver(len(e.msgs)-1, false)
		if x.Failed() {
			return
		}
	}
	if mustAdopt && complete {
		x.Probe("longer-chain-handed-over-after-faults")
		// (blocks that were waiting as orphans may have connected meanwhile and made the node's own
		// chain as long: an equal branch does not displace it — only staying strictly shorter is wrong)
		if na.Best().BlockNo() < bestB.BlockNo() {
			x.Fail("C07", "longer-valid-branch-not-adopted", "after-sync", fmt.Sprintf("node %d (best %d, LIB %d) was handed, in order, the strictly longer main chain of correct node %d (best %d, fork point %d) and did not switch to it", a, na.Best().BlockNo(), la, b, bestB.BlockNo(), h), e.step)
		}
	}
}

func (e *env) doTx(st *simkit.Step) {
	if st.A < 0 || st.A >= len(e.nodes) || !e.nodes[st.A].Up {
		e.x.Noop()
		return
	}
	n := e.nodes[st.A]
	from := e.net.Accounts[st.B%len(e.net.Accounts)]
	to := e.net.Accounts[st.C%len(e.net.Accounts)]
	var nonce uint64
	n.Do(func() {
		as, _ := n.CS.SDB().GetStateDB().GetAccountState(types.ToAccountID(from.Addr))
		nonce = as.GetNonce()
		for _, t := range n.MP.VerifUnconfirmed() {
			if bytes.Equal(t.GetBody().GetAccount(), from.Addr) && t.GetBody().GetNonce() > nonce {
				nonce = t.GetBody().GetNonce()
			}
		}
	})
	tx := simnode.SignedTx(from, nonce+1, to.Addr, new(big.Int).Mul(big.NewInt(st.V), big.NewInt(1e12)), types.TxType_TRANSFER, nil, n.ChainIDHash(), 0)
	_ = n.Submit(tx)
}

func (e *env) doRestart(i int) {
	x := e.x
	if i < 0 || i >= len(e.nodes) {
		x.Noop()
		return
	}
	n := e.nodes[i]
	e.setClock()
	var before string
	n.Do(func() { before = n.DP.VerifLibStatusDump() })
	bn, bh := e.lib(i)
	n.Stop()
	var err error
	if p := catch(func() { n.Boot(); err = n.Recover() }); p != "" || err != nil {
		x.Fail("C08", "restart-failed", "clean-restart", fmt.Sprintf("node %d: %v %s", i, err, p), e.step)
		return
	}
	x.Fault("restart")
	if !e.correct(i) {
		return
	}
	an, ah := e.lib(i)
	if an != bn || ah != bh {
		x.Fail("C08", "lib-changed-by-restart", "clean-restart", fmt.Sprintf("node %d reported LIB %d before the restart and %d after it (hash equal=%v)", i, bn, an, ah == bh), e.step)
		return
	}
	var after string
	n.Do(func() { after = n.DP.VerifLibStatusDump() })
	if before != after {
		x.Count("status-dump-differs-after-restart", 1)
		x.Logf("restart %d status before: %s", i, before)
		x.Logf("restart %d status after : %s", i, after)
		// Entries that only say "this producer has proposed nothing yet" (pre-LIB = genesis) come and go
		// with the window of blocks the status is rebuilt from; what must survive a restart unchanged
		// are the LIB and every real proposal.
	}
	// What a restart restores must be derivable from the stored main chain: every real proposal
	// names a proposed block and a proposing block that are on the node's main chain. (The status
	// in memory before the restart may legitimately know less: proposals are reset conservatively
	// when a branch is abandoned.)
	for _, f := range strings.Split(realProposals(after), ";") {
		var bpid, plibHash, byHash string
		var plibNo, byNo uint64
		g := strings.NewReplacer(":", " ", "/", " ", "<-", " ").Replace(f)
		if n, _ := fmt.Sscanf(g, "%s %d %s %d %s", &bpid, &plibNo, &plibHash, &byNo, &byHash); n != 5 {
			continue // the "lib=... lpb=..." head
		}
		for _, q := range []struct {
			no   uint64
			hash string
		}{{plibNo, plibHash}, {byNo, byHash}} {
			var b *types.Block
			n.Do(func() { b, _ = n.CS.VerifGetBlockByNo(q.no) })
			if b == nil || b.ID() != q.hash {
				x.Fail("C08", "restored-status-not-from-main-chain", "clean-restart", fmt.Sprintf("node %d: after the restart the finality status holds the proposal %s, whose block %d/%s is not on the node's main chain", i, f, q.no, q.hash), e.step)
				return
			}
		}
	}
	x.Logf("restart %d lib=%d", i, an)
}

// producersBuildingOn scans the node's raw chain store and returns the distinct producers of the
// block with the given id and of all stored descendants of it.
func (e *env) producersBuildingOn(n *simnode.Node, id string) map[string]bool {
	type bi struct {
		parent string
		bp     string
	}
	blocks := map[string]bi{}
	for k, v := range n.Disk.Dump("chain") {
		if len(k) != 32 || len(v) < 60 {
			continue
		}
		var blk types.Block
		if err := proto.Decode(v, &blk); err != nil || blk.Header == nil || len(blk.Header.PrevBlockHash) != 32 || len(blk.Header.PubKey) == 0 {
			continue
		}
		blocks[blk.ID()] = bi{parent: (&types.Block{Hash: blk.Header.PrevBlockHash}).ID(), bp: blk.BPID2Str()}
	}
	memo := map[string]bool{id: true}
	var under func(string, int) bool
	under = func(b string, depth int) bool {
		if v, ok := memo[b]; ok {
			return v
		}
		x, ok := blocks[b]
		if !ok || depth > 10000 {
			memo[b] = false
			return false
		}
		r := under(x.parent, depth+1)
		memo[b] = r
		return r
	}
	prod := map[string]bool{}
	for b, x := range blocks {
		if under(b, 0) {
			prod[x.bp] = true
		}
	}
	return prod
}

// pfSig tells whether the Byzantine producer published a private branch in this run.
func (e *env) pfSig() string {
	if e.x.Out.Stats["fault.byzantine-"+kindName[kPrivateFork]] > 0 {
		return "after-private-branch"
	}
	return "no-private-branch"
}

// realProposals drops the "nothing proposed yet" entries (pre-LIB 0) from a status dump.
func realProposals(dump string) string {
	var keep []string
	for _, f := range strings.Split(dump, ";") {
		if f == "" || strings.Contains(f, ":0/") {
			continue
		}
		keep = append(keep, f)
	}
	return strings.Join(keep, ";")
}

func (e *env) lib(i int) (uint64, string) {
	var no uint64
	var h string
	n := e.nodes[i]
	n.Do(func() { no, h = n.DP.VerifLib() })
	return no, h
}

// doByz lets the Byzantine producer sign something a correct producer never would.
func (e *env) doByz(kind, arg, mask int) {
	x := e.x
	var bz = -1
	for i := range e.byz {
		bz = i
	}
	if bz < 0 || !e.nodes[bz].Up {
		x.Noop()
		return
	}
	n := e.nodes[bz]
	im := int64(e.intv) * 1000
	e.setClock()
	localMs := e.now.Add(n.Skew).UnixNano() / 1000000
	curSlot := (localMs-1)/im + 1
	// a slot the Byzantine producer owns, at or before now
	own := curSlot + 1
	for int(own%int64(e.nbp)) != bz {
		own--
	}
	var ts time.Time
	switch kind {
	case kEquivocation:
		// a second, different block for its own current/most recent slot (other instant of the slot)
		ts = time.Unix(0, ((own-1)*im+1+int64(arg%7)*(im/8))*1000000)
	case kOutOfTurn:
		// an instant of somebody else's slot, including the boundary milliseconds
		other := own + 1 + int64(arg%(max(e.nbp-1, 1)))
		offs := []int64{1, im / 2, im - 1, im}[arg%4]
		ts = time.Unix(0, ((other-1)*im+offs)*1000000)
	case kFuture:
		fs := curSlot + 2 + int64(arg%3)
		for int(fs%int64(e.nbp)) != bz {
			fs++
		}
		ts = time.Unix(0, ((fs-1)*im+1+int64(arg)*3)*1000000)
	case kPrivateFork:
		e.privateFork(bz, arg, mask)
		return
	case kNonMember:
		// an observer signs a block for the current slot
		if len(e.nodes) <= e.nbp || !e.nodes[e.nbp].Up {
			x.Noop()
			return
		}
		bz = e.nbp
		n = e.nodes[bz]
		ts = time.Unix(0, ((curSlot-1)*im+1+int64(arg))*1000000)
	default:
		x.Noop()
		return
	}
	var blk *types.Block
	var err error
	if kind == kEquivocation {
		// two different blocks on the same parent for one of its own slots, shown to different peers;
		// it keeps building on the first
		var a, b *types.Block
		var bsA *state.BlockState
		ts2 := ts.Add(time.Duration(1+arg%5) * time.Millisecond * time.Duration(im/16))
		if p := catch(func() {
			a, bsA, err = n.Generate(context.Background(), ts)
			if err == nil {
				b, _, err = n.Generate(context.Background(), ts2)
			}
		}); p != "" || err != nil || a == nil || b == nil || bytes.Equal(a.BlockHash(), b.BlockHash()) {
			x.Noop()
			return
		}
		if p := catch(func() { err = n.ConnectOwn(a, bsA) }); p != "" {
			x.Noop()
			return
		}
		x.Fault("byzantine-" + kindName[kind])
		x.Logf("byz equivocation by %d h=%d connect=%v", bz, a.BlockNo(), err)
		all := 1<<uint(len(e.nodes)) - 1
		e.broadcast(bz, a, kind, mask&all)
		e.broadcast(bz, b, kind, ^mask&all)
		return
	}
	if p := catch(func() { blk, _, err = n.Generate(context.Background(), ts) }); p != "" || err != nil || blk == nil {
		x.Noop()
		return
	}
	x.Fault("byzantine-" + kindName[kind])
	x.Logf("byz %s by %d h=%d", kindName[kind], bz, blk.BlockNo())
	if mask == 0 {
		mask = -1
	}
	e.broadcast(bz, blk, kind, mask)
}

// privateFork: the Byzantine producer goes back `depth` blocks on its own main chain and builds,
// on a second machine holding the same key, a private branch that is longer than the public one:
// every block carries a timestamp of one of its own (past) slots, so each block is individually
// legitimate. It then publishes the branch. Correct nodes may switch to it only if it does not
// fork below their irreversible block.
func (e *env) privateFork(bz, arg, mask int) {
	x := e.x
	n := e.nodes[bz]
	best := n.Best().BlockNo()
	depth := uint64(1 + arg%6)
	if best < depth {
		x.Noop()
		return
	}
	forkAt := best - depth
	length := int(depth) + 1 + (arg/6)%3
	if (arg/36)%2 == 1 {
		// a branch that is NOT longer than the public chain yet: peers keep it as a side branch
		length = int(depth) - 1
		if length < 1 {
			length = 1
		}
	}
	e.setClock()
	var sh *simnode.Node
	extended := false
	if e.shadow != nil && e.shadow.Up && (arg/18)%2 == 0 {
		extended = true
		// keep extending the private branch it already has until it is longer than the public chain
		// (the interesting case: the public chain's LIB has meanwhile passed the fork point)
		sh = e.shadow
		forkAt = e.shadowFork
		sb := sh.Best().BlockNo()
		length = 1 + (arg/6)%3
		if sb <= best {
			length += int(best - sb)
		}
		if length > 12 {
			length = 12
		}
	} else {
		if e.shadow != nil {
			e.shadow.Stop()
		}
		sh = e.net.AddNode(bz, nil, "dpos")
		e.shadow, e.shadowFork = sh, forkAt
		for h := uint64(1); h <= forkAt; h++ {
			var blk *types.Block
			n.Do(func() { blk, _ = n.CS.VerifGetBlockByNo(h) })
			if blk == nil || sh.AddBlock(blk, "self") != nil {
				x.Noop()
				return
			}
		}
	}
	im := int64(e.intv) * 1000
	localMs := e.now.UnixNano() / 1000000
	own := (localMs-1)/im + 1
	for int(own%int64(e.nbp)) != bz {
		own--
	}
	var made []*types.Block
	for j := 0; j < length; j++ {
		sl := own - int64(length-1-j)*int64(e.nbp)
		ts := time.Unix(0, ((sl-1)*im+1+int64(j))*1000000)
		var blk *types.Block
		var bs *state.BlockState
		var err error
		if p := catch(func() { blk, bs, err = sh.Generate(context.Background(), ts) }); p != "" || err != nil || blk == nil {
			break
		}
		if p := catch(func() { err = sh.ConnectOwn(blk, bs) }); p != "" || err != nil {
			break
		}
		made = append(made, simnode.CloneBlock(blk))
	}
	if len(made) == 0 {
		x.Noop()
		return
	}
	x.Fault("byzantine-" + kindName[kPrivateFork])
	x.Logf("byz private fork by %d: fork at %d, %d blocks", bz, forkAt, len(made))
	if mask == 0 {
		mask = -1
	}
	if sh != e.shadow || !extended {
		for _, b := range made {
			e.broadcast(bz, b, kPrivateFork, mask)
		}
		return
	}
	// an extended branch is published: the whole branch, in order, to the chosen peers, right now
	x.Probe("private-branch-extended-and-published")
	top := sh.Best().BlockNo()
	for to := range e.nodes {
		if to == bz || mask&(1<<uint(to)) == 0 || !e.nodes[to].Up || e.group[bz] != e.group[to] {
			continue
		}
		if ln, _ := e.lib(to); ln > forkAt && e.correct(to) {
			x.Probe("private-branch-published-below-a-lib")
			if top > e.nodes[to].Best().BlockNo() {
				x.Probe("private-branch-longer-and-below-a-lib")
			}
		}
		for h := forkAt + 1; h <= top; h++ {
			var blk *types.Block
			sh.Do(func() { blk, _ = sh.CS.VerifGetBlockByNo(h) })
			if blk == nil {
				break
			}
			e.msgs = append(e.msgs, &envelope{from: bz, to: to, b: simnode.CloneBlock(blk), kind: kPrivateFork})
			e.doDeliver(len(e.msgs)-1, false)
			if x.Failed() {
				return
			}
		}
	}
}

// headerFields lists the fields of BlockHeader by reflection, so that a field added to the
// message is corrupted too.
func headerFields() []string {
	var out []string
	t := reflect.TypeOf(types.BlockHeader{})
	for i := 0; i < t.NumField(); i++ {
		f := t.Field(i)
		if f.PkgPath != "" || f.Name == "Sign" {
			continue // unexported protobuf internals; the signature itself is not covered by itself
		}
		out = append(out, f.Name)
	}
	sort.Strings(out)
	return out
}

// doCorrupt: the relay alters one header field of an in-flight honest block and leaves the
// signature alone (the announced identifier is recomputed, as a relay would).
func (e *env) doCorrupt(k, fieldIdx, how int) {
	x := e.x
	if k < 0 || k >= len(e.msgs) || e.msgs[k].done || e.msgs[k].kind != kHonest {
		x.Noop()
		return
	}
	m := e.msgs[k]
	fields := headerFields()
	name := fields[fieldIdx%len(fields)]
	c := simnode.CloneBlock(m.b)
	v := reflect.ValueOf(c.Header).Elem().FieldByName(name)
	switch v.Kind() {
	case reflect.Uint64:
		v.SetUint(v.Uint() + 1 + uint64(how%3))
	case reflect.Int64:
		v.SetInt(v.Int() + 1 + int64(how%3))
	case reflect.Slice:
		b := append([]byte{}, v.Bytes()...)
		if len(b) == 0 {
			b = []byte{byte(1 + how%200)}
		} else {
			b[how%len(b)] ^= byte(1 << uint(how%8))
		}
		v.SetBytes(b)
	default:
		x.Noop()
		return
	}
	c.Hash = nil
	c.Hash = c.BlockHash()
	m.b = c
	m.kind = kCorrupted
	m.field = name
	x.Fault("corrupted-header")
}

func max(a, b int) int {
	if a > b {
		return a
	}
	return b
}

// noteMainChain records, for a correct node, every block that newly appeared on its main chain
// and checks the C09 clauses for it once.
func (e *env) noteMainChain(i int) {
	x := e.x
	if !e.correct(i) || x.Failed() {
		return
	}
	n := e.nodes[i]
	best := n.Best()
	im := int64(e.intv) * 1000
	for h := best.BlockNo(); h > 0; h-- {
		var blk *types.Block
		n.Do(func() { blk, _ = n.CS.VerifGetBlockByNo(h) })
		if blk == nil {
			break
		}
		d := digestOf(blk)
		key := fmt.Sprintf("%d/%s", i, d)
		if e.accepted[key] {
			break
		}
		e.accepted[key] = true
		// signature over the complete header with the key in the header
		if ok, err := simnode.CloneBlock(blk).VerifySign(); !ok || err != nil {
			x.Fail("C09", "bad-signature-on-main-chain", "main", fmt.Sprintf("node %d has block %d on its main chain whose signature does not verify", i, h), e.step)
			return
		}
		id, err := blk.BPID()
		if err != nil {
			x.Fail("C09", "bad-key-on-main-chain", "main", fmt.Sprintf("node %d block %d: %v", i, h, err), e.step)
			return
		}
		// the node's current producer set, in its index order
		member := -1
		var bps []types.PeerID
		n.Do(func() { bps = n.DP.VerifBPIDs() })
		for k, pid := range bps {
			if pid == id {
				member = k
			}
		}
		if member < 0 {
			x.Fail("C09", "non-member-block-on-main-chain", "main", fmt.Sprintf("node %d connected block %d signed by a key outside the producer set", i, h), e.step)
			return
		}
		sl, owner := ownerIndex(blk.GetHeader().GetTimestamp(), im, e.nbp)
		if owner != member {
			x.Fail("C09", "out-of-turn-block-on-main-chain", "main", fmt.Sprintf("node %d connected block %d of producer %d whose timestamp lies in slot %d owned by producer %d", i, h, member, sl, owner), e.step)
			return
		}
		if prev, ok := e.slotOwner[sl]; ok && prev != string(id) {
			x.Fail("C09", "two-producers-one-slot", "main", fmt.Sprintf("slot %d has accepted blocks of two different producers", sl), e.step)
			return
		}
		e.slotOwner[sl] = string(id)
		x.Count("main-chain-blocks-checked", 1)
	}
}

// checkAll evaluates the C08 oracles on every correct node that is up.
func (e *env) checkAll() {
	x := e.x
	need := e.nbp*2/3 + 1
	type st struct {
		no   uint64
		hash string
	}
	libs := make([]*st, len(e.nodes))
	for i, n := range e.nodes {
		if !n.Up || !e.correct(i) {
			continue
		}
		e.noteMainChain(i)
		if x.Failed() {
			return
		}
		no, hash := e.lib(i)
		libs[i] = &st{no, hash}
		last := e.lastLib[i]
		if no < last.no {
			x.Fail("C08", "lib-decreased", "online", fmt.Sprintf("node %d reported LIB %d after having reported %d", i, no, last.no), e.step)
			return
		}
		if no > last.no {
			x.Count("lib-advances", 1)
			x.Logf("node %d lib %d -> %d", i, last.no, no)
		}
		e.lastLib[i] = libRec{no, hash}
		if no == 0 {
			continue
		}
		// on the main chain
		var blk *types.Block
		n.Do(func() { blk, _ = n.CS.VerifGetBlockByNo(no) })
		if blk == nil || blk.ID() != hash {
			got := "(none)"
			if blk != nil {
				got = blk.ID()
			}
			var dump string
			n.Do(func() { dump = n.DP.VerifLibStatusDump() })
			x.Fail("C08", "lib-not-on-main-chain", "online", fmt.Sprintf("node %d reports LIB %d/%s but its main chain has %s at that height (status: %s)", i, no, hash, got, dump), e.step)
			return
		}
		// everything at or below a reported LIB stays
		best := n.Best()
		for h := last.no + 1; h <= no; h++ {
			var b *types.Block
			n.Do(func() { b, _ = n.CS.VerifGetBlockByNo(h) })
			if b != nil {
				e.finalSet[i][h] = b.ID()
			}
		}
		if no > last.no {
			// > 2/3 distinct producers among the blocks that build on the LIB block. One delivery can
			// connect a chain of waiting blocks (which advance the LIB) and then reorganize above the
			// new LIB, so the confirming blocks are looked for in everything the node has stored
			// (side branches stay in the chain DB), not only on its present main chain.
			prod := e.producersBuildingOn(n, hash)
			if len(prod) < need {
				var dump string
				n.Do(func() { dump = n.DP.VerifLibStatusDump() })
				chain := ""
				for h := uint64(1); h <= best.BlockNo(); h++ {
					var b *types.Block
					n.Do(func() { b, _ = n.CS.VerifGetBlockByNo(h) })
					if b != nil {
						chain += fmt.Sprintf("%d:%s/c%d ", h, b.BPID2Str()[len(b.BPID2Str())-4:], b.GetHeader().GetConfirms())
					}
				}
				x.Fail("C08", "lib-without-quorum", "online", fmt.Sprintf("node %d made block %d irreversible with blocks of only %d distinct producers at or above it (need %d of %d); status %s; chain %s", i, no, len(prod), need, e.nbp, dump, chain), e.step)
				return
			}
		}
		// sampled re-check of the finalised prefix (all of it every time would be quadratic)
		for h, id := range e.finalSet[i] {
			if h+8 < no && (h+uint64(e.step))%5 != 0 {
				continue
			}
			var b *types.Block
			n.Do(func() { b, _ = n.CS.VerifGetBlockByNo(h) })
			if b == nil || b.ID() != id {
				x.Fail("C08", "irreversible-block-replaced", "online", fmt.Sprintf("node %d: height %d was at or below a reported LIB with block %s and is now different", i, h, id), e.step)
				return
			}
		}
		x.Digest(e.prop, i, no, best.BlockNo()-no, e.nbp)
	}
	// two correct nodes never hold irreversible blocks on conflicting branches
	for i := range libs {
		for j := range libs {
			if i >= j || libs[i] == nil || libs[j] == nil {
				continue
			}
			a, b := i, j
			if libs[a].no > libs[b].no {
				a, b = b, a
			}
			if libs[a].no == 0 {
				continue
			}
			// b's irreversible block is at or above a's: b's main chain must contain a's LIB block
			nb := e.nodes[b]
			var blk *types.Block
			nb.Do(func() { blk, _ = nb.CS.VerifGetBlockByNo(libs[a].no) })
			if blk != nil && blk.ID() != libs[a].hash {
				info := ""
				for _, q := range []int{a, b} {
					nq := e.nodes[q]
					var dump string
					nq.Do(func() { dump = nq.DP.VerifLibStatusDump() })
					info += fmt.Sprintf(" | node %d skew=%v status %s chain ", q, nq.Skew, dump)
					for h := uint64(1); h <= nq.Best().BlockNo(); h++ {
						var bb *types.Block
						nq.Do(func() { bb, _ = nq.CS.VerifGetBlockByNo(h) })
						if bb != nil {
							info += fmt.Sprintf("%d:%s:%s/c%d ", h, bb.ID()[:4], bb.BPID2Str()[len(bb.BPID2Str())-4:], bb.GetHeader().GetConfirms())
						}
					}
				}
				x.Fail("C08", "conflicting-irreversible-blocks", fmt.Sprintf("byz=%d/%s", len(e.byz), e.pfSig()), fmt.Sprintf("nodes %d and %d hold irreversible blocks on conflicting branches (height %d)%s", a, b, libs[a].no, info), e.step)
				return
			}
		}
	}
}

// livenessPhase: faults stop (network healed, clocks right, everybody up, the Byzantine producer
// behaves), then within a bounded number of rounds every correct node's LIB must advance and all
// nodes must be on one chain.
func (e *env) livenessPhase() {
	x := e.x
	for i := range e.group {
		e.group[i] = 0
	}
	for i, n := range e.nodes {
		n.Skew = 0
		if !n.Up {
			e.doRestart(i)
		}
	}
	if x.Failed() {
		return
	}
	// forget stale traffic (a healed network does not deliver months-old corrupted frames later)
	for _, m := range e.msgs {
		m.done = true
	}
	e.faultsStopped = true
	e.step = len(x.Case.Steps)
	// everybody learns everybody's chain (what the syncer does once peers are reachable)
	allSync := func() {
		for a := range e.nodes {
			for b := range e.nodes {
				if a != b {
					e.doSync(a, b)
					if x.Failed() {
						return
					}
				}
			}
		}
	}
	allSync()
	if x.Failed() {
		return
	}
	start := make([]uint64, len(e.nodes))
	for i := range e.nodes {
		start[i], _ = e.lib(i)
	}
	rounds := 6
	for s := 0; s < rounds*e.nbp; s++ {
		e.doSlot(150)
		if x.Failed() {
			return
		}
		e.flushNet()
		if x.Failed() {
			return
		}
		e.doTick(int64(e.intv)*1000*4/5 - 150) // late in the slot: a producer whose predecessor was silent acts now
		if x.Failed() {
			return
		}
		e.flushNet()
		if x.Failed() {
			return
		}
		e.checkAll()
		if x.Failed() {
			return
		}
	}
	allSync()
	if x.Failed() {
		return
	}
	e.checkAll()
	if x.Failed() {
		return
	}
	var ref string
	for i, n := range e.nodes {
		no, _ := e.lib(i)
		if no <= start[i] {
			var dump string
			n.Do(func() { dump = n.DP.VerifLibStatusDump() })
			chain := ""
			for h := uint64(1); h <= n.Best().BlockNo(); h++ {
				var b *types.Block
				n.Do(func() { b, _ = n.CS.VerifGetBlockByNo(h) })
				if b != nil {
					chain += fmt.Sprintf("%d:%s/c%d ", h, b.BPID2Str()[len(b.BPID2Str())-4:], b.GetHeader().GetConfirms())
				}
			}
			// Not a verdict: C08 states safety only. Two halves of the producer set that ended up on
			// branches of equal length keep extending them at the same rate (an equal branch never
			// displaces the main chain), so finality can stall without any clause being violated.
			x.Logf("liveness stalled: node %d LIB %d best %d; status %s; chain %s", i, no, n.Best().BlockNo(), dump, chain)
			x.Probe("liveness-stalled-equal-branches")
			return
		}
		if ref == "" {
			ref = n.Best().ID()
		} else if n.Best().ID() != ref {
			x.Probe("liveness-stalled-equal-branches")
			return
		}
	}
	x.Probe("liveness-phase-passed")
}

// clusterScan (C09, reduced world, run last because it rewrites node 0's producer set): the
// producer set is replaced several times by generated lists (members dropped, added, reordered),
// as an election does; after each replacement the real consensus-level block check
// (DPoS.IsBlockValid: key in the current set and its index owns the timestamp's slot) is compared
// with the specification for blocks signed by every key that was ever a member or never was.
func (e *env) clusterScan() {
	x := e.x
	n := e.nodes[0]
	seed := x.CfgInt("cluster.seed", func(r *simkit.Rng) int { return int(r.U64() >> 34) })
	r := simkit.NewRng(uint64(seed))
	type ident struct {
		key crypto.PrivKey
		id  types.PeerID
		b58 string
	}
	var pool []ident
	for i := 0; i < 7; i++ {
		sd := sha256.Sum256([]byte(fmt.Sprintf("cluster-scan-%d-%d", seed, i)))
		k, err := crypto.UnmarshalSecp256k1PrivateKey(sd[:])
		if err != nil {
			panic(err)
		}
		id, _ := types.IDFromPublicKey(k.GetPublic())
		pool = append(pool, ident{k, id, types.IDB58Encode(id)})
	}
	for i, k := range e.net.BPKeys {
		pool = append(pool, ident{k, e.net.BPIDs[i], types.IDB58Encode(e.net.BPIDs[i])})
	}
	im := int64(e.intv) * 1000
	baseMs := e.now.UnixNano()/1000000/im*im + 1
	var failure string
	n.Do(func() {
		c := n.DP.VerifCluster()
		for round := 0; round < 5 && failure == ""; round++ {
			size := 1 + r.Intn(6)
			perm := r.Perm(len(pool))
			var list []string
			pos := map[types.PeerID]int{}
			for i := 0; i < size; i++ {
				list = append(list, pool[perm[i]].b58)
				pos[pool[perm[i]].id] = i
			}
			if err := c.Update(list); err != nil {
				panic(err)
			}
			for _, p := range pool {
				for k := 0; k < 2*size+1 && failure == ""; k++ {
					ms := baseMs + int64(k)*im + int64(r.Intn(int(im)))
					blk := &types.Block{Header: &types.BlockHeader{Timestamp: ms * 1000000, BlockNo: 1}}
					if err := blk.Sign(p.key); err != nil {
						panic(err)
					}
					got := n.DP.IsBlockValid(blk, nil) == nil
					idx, member := pos[p.id]
					_, owner := ownerIndex(ms*1000000, im, size)
					want := member && owner == idx
					if got != want {
						failure = fmt.Sprintf("after %d replacements of the producer set (size %d): a block of a key that is member=%v (index %d) with a timestamp in a slot of index %d is judged valid=%v", round+1, size, member, idx, owner, got)
					}
				}
			}
		}
	})
	if failure != "" {
		x.Fail("C09", "producer-set-change-misjudged", "cluster-scan", failure, len(x.Case.Steps))
		return
	}
	x.Probe("cluster-scan-passed")
}

// slotScan (C09, reduced world without execution): for generated producer-set sizes 1..100 and
// block intervals, the repo's slot-owner decision is compared with ownerIndex on every
// millisecond around slot boundaries and producer-round wrap-arounds: exactly one index owns
// each instant, and it is the specified one.
func (e *env) slotScan() {
	x := e.x
	n := x.CfgInt("scan.n", func(r *simkit.Rng) int { return r.Range(1, 100) })
	base := x.CfgInt("scan.base", func(r *simkit.Rng) int { return r.Intn(1 << 20) })
	im := int64(e.intv) * 1000
	origin := e.net.Start.UnixNano()/1000000/im*im + int64(base)*im
	check := func(ms int64) bool {
		s := slot.NewFromUnixNano(ms * 1000000)
		_, want := ownerIndex(ms*1000000, im, n)
		owners := 0
		got := -1
		for idx := 0; idx < n; idx++ {
			if s.IsFor(bp.Index(idx), uint16(n)) {
				owners++
				got = idx
			}
		}
		if owners != 1 || got != want {
			x.Fail("C09", "slot-owner-wrong", fmt.Sprintf("owners=%d", owners), fmt.Sprintf("n=%d interval=%dms t=%dms: %d producers entitled, repo says index %d, specification says %d", n, im, ms, owners, got, want), -1)
			return false
		}
		return true
	}
	for k := int64(0); k < int64(2*n+2); k++ {
		b := origin + k*im
		for d := int64(-3); d <= 3; d++ {
			if !check(b + d) {
				return
			}
		}
		if !check(b + im/2) {
			return
		}
	}
	x.Count("slot-instants-scanned", int64(2*n+2)*8)
	_ = consensus.BlockIntervalSec
}
