// Package dposw: see DESIGN.md section 4.
package dposw
