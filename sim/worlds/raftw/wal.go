package raftw

import (
	"bytes"
	"encoding/json"
	"fmt"
	"os"
	"sort"
	"strings"
	"time"

	"github.com/aergoio/aergo/v2/chain"
	"github.com/aergoio/aergo/v2/consensus"
	"github.com/aergoio/aergo/v2/consensus/impl/raftv2"
	"github.com/aergoio/aergo/v2/internal/enc/proto"
	"github.com/aergoio/aergo/v2/types"
	"github.com/aergoio/aergo/v2/zz_verif/simdisk"
	"github.com/aergoio/aergo/v2/zz_verif/simkit"
	"github.com/aergoio/etcd/raft"
	"github.com/aergoio/etcd/raft/raftpb"
	"github.com/libp2p/go-libp2p/core/crypto"
)

// ---------------------------------------------------------------------------------------------
// Part A — the write-ahead log of the consensus library.
//
// Reference model: entries by index (a map, because the real storage is a map too: a snapshot
// installed ahead of the log legitimately leaves a hole), last index, inverse block->index map
// (positive direction only), hard state, snapshot, identity.
//
// Oracle, after every acknowledged operation, on the live instance and again after a restart
// (a new ChainDB opened on the same disk): every read equals the model —
//   GetRaftEntryLastIdx, GetRaftEntry(i) for every i from 1 to two past the highest index ever
//   written (entries the model does not hold must read as absent), GetBlock of every block a live
//   entry carries, GetRaftEntryOfBlock/GetRaftEntryIndexOfBlock for every live block entry whose
//   block was not later stored under another index, GetHardState, GetSnapshot, GetIdentity, HasWal,
//   and WalDB.ReadAll(GetSnapshot()) (when the model holds every index after the snapshot).
// After a crash inside an operation (every write unit of sampled operations, torn prefixes of bulk
// chunks): the disk must equal one of the operation's legal stages — model-before, or model after
// the first j unit-atomic parts in the order the property implies (entries, then hard state, for
// SaveEntry). ClearWAL/ResetWAL are multi-unit by construction (Appendix A): the only demand is
// that HasWal reports a valid log only if nothing of it has been removed yet.
// Nothing is demanded of: entries of the inverse map that belong to truncated blocks, ReadAll over
// a log with holes or with terms below the snapshot term, the progress records of conf changes.
// ---------------------------------------------------------------------------------------------

type mEnt struct {
	typ   consensus.EntryType
	term  uint64
	index uint64
	blk   int    // block ordinal, -1 if the entry carries none
	wdata []byte // WalEntry.Data: block hash / conf change bytes / nil
	rdata []byte // raftpb.Entry.Data as ReadAll has to re-materialise it
}

type mWal struct {
	ents map[uint64]*mEnt
	last uint64
	inv  map[int]uint64 // block ordinal -> index it was most recently stored under
	hs   *raftpb.HardState
	snap *raftpb.Snapshot
	id   *consensus.RaftIdentity
}

func newModel() *mWal { return &mWal{ents: map[uint64]*mEnt{}, inv: map[int]uint64{}} }

func (m *mWal) clone() *mWal {
	c := &mWal{ents: make(map[uint64]*mEnt, len(m.ents)), inv: make(map[int]uint64, len(m.inv)), last: m.last, hs: m.hs, snap: m.snap, id: m.id}
	for k, v := range m.ents {
		c.ents[k] = v
	}
	for k, v := range m.inv {
		c.inv[k] = v
	}
	return c
}

func (m *mWal) summary() string {
	idx := make([]uint64, 0, len(m.ents))
	for i := range m.ents {
		idx = append(idx, i)
	}
	sort.Slice(idx, func(a, b int) bool { return idx[a] < idx[b] })
	var sb strings.Builder
	fmt.Fprintf(&sb, "last=%d ents=[", m.last)
	for _, i := range idx {
		e := m.ents[i]
		fmt.Fprintf(&sb, "%d:%c%d ", i, "bec"[e.typ], e.term)
	}
	sb.WriteString("]")
	if m.hs != nil {
		fmt.Fprintf(&sb, " hs=%d/%d/%d", m.hs.Term, m.hs.Vote, m.hs.Commit)
	}
	if m.snap != nil {
		fmt.Fprintf(&sb, " snap=%d/%d", m.snap.Metadata.Index, m.snap.Metadata.Term)
	}
	if m.id != nil {
		fmt.Fprintf(&sb, " id=%s", m.id.Name)
	}
	return sb.String()
}

var walChainID = func() []byte {
	cid := types.ChainID{Magic: "verif.raftw", Consensus: "raft"}
	b, _ := cid.Bytes()
	return b
}()

func peerID(i int) types.PeerID {
	k, err := crypto.UnmarshalSecp256k1PrivateKey(simkit.Key32("raftw-peer", i))
	if err != nil {
		panic(err)
	}
	id, err := types.IDFromPrivateKey(k)
	if err != nil {
		panic(err)
	}
	return id
}

func walIdentity(v int) *consensus.RaftIdentity {
	v = ((v % 3) + 3) % 3
	return &consensus.RaftIdentity{ClusterID: uint64(0xC100 + v), ID: uint64(0x501 + v), Name: fmt.Sprintf("node%d", v), PeerID: types.IDB58Encode(peerID(v))}
}

func isCrash(r interface{}) bool { _, ok := r.(simdisk.Crash); return ok }
func panicText(r interface{}) string {
	s := fmt.Sprint(r)
	if len(s) > 200 {
		s = s[:200]
	}
	return s
}

type walH struct {
	x      *simkit.Ctx
	root   string
	disk   *simdisk.Disk
	cdb    *chain.ChainDB
	wal    *raftv2.WalDB
	m      *mWal
	dirty  bool // a crash inside ClearWAL/ResetWAL left a partly cleared log; only clear/reset may follow
	term   uint64
	maxIdx uint64
	probe  consensus.RaftIdentity // identity handed to HasWal when the model holds none
	best   *types.Block
	blocks map[int]*types.Block
}

func (h *walH) reopen() {
	c := chain.NewChainDB()
	if err := c.Init(simdisk.Impl, h.root, nil); err != nil {
		panic(fmt.Sprintf("raftw: ChainDB.Init: %v", err))
	}
	h.cdb = c
	h.wal = raftv2.NewWalDB(c)
}

func (h *walH) block(ord int) *types.Block {
	if b, ok := h.blocks[ord]; ok {
		return b
	}
	b := &types.Block{
		Header: &types.BlockHeader{
			ChainID:       walChainID,
			PrevBlockHash: simkit.Key32("raftw-prev", ord),
			BlockNo:       uint64(1 + ord%9),
			Timestamp:     int64(1600000000000000000) + int64(ord),
			PubKey:        simkit.Key32("raftw-pub", ord%3),
		},
		Body: &types.BlockBody{},
	}
	for t := 0; t < ord%3; t++ {
		b.Body.Txs = append(b.Body.Txs, &types.Tx{Hash: simkit.Key32("raftw-tx", ord*8+t),
			Body: &types.TxBody{Nonce: uint64(t + 1), Account: simkit.Key32("raftw-acc", ord)[:20], Payload: simkit.Key32("raftw-pay", ord)[:ord%17]}})
	}
	b.BlockHash() // fixes the Hash field, as the block factory does before proposing
	h.blocks[ord] = b
	return b
}

func mkConfChange(reqID uint64, ord int) *raftpb.ConfChange {
	m := consensus.Member{MemberAttr: types.MemberAttr{ID: uint64(0x7000 + ord), Name: fmt.Sprintf("m%d", ord),
		Address: fmt.Sprintf("/ip4/10.9.%d.%d/tcp/7846", ord/250, 1+ord%250), PeerID: []byte(peerID(10 + ord%5))}}
	ctx, err := json.Marshal(&m)
	if err != nil {
		panic(err)
	}
	t := raftpb.ConfChangeAddNode
	if ord%3 == 2 {
		t = raftpb.ConfChangeRemoveNode
	}
	return &raftpb.ConfChange{ID: reqID, Type: t, NodeID: m.ID, Context: ctx}
}

func snapMembers(n int) []*consensus.Member {
	var out []*consensus.Member
	for i := 0; i < n; i++ {
		out = append(out, &consensus.Member{MemberAttr: types.MemberAttr{ID: uint64(0x501 + i), Name: fmt.Sprintf("node%d", i),
			Address: fmt.Sprintf("/ip4/10.8.0.%d/tcp/7846", i+1), PeerID: []byte(peerID(i))}})
	}
	return out
}

// plan is one operation made concrete against the current model: how to run it and the sequence
// of states the disk may legally be found in (stages[0] = before, stages[len-1] = after; each
// later stage adds one unit-atomic part).
type plan struct {
	op     string
	run    func(h *walH) error
	stages []*mWal
	multi  bool // ClearWAL/ResetWAL: many units, only the HasWal rule applies inside
}

func (p *plan) after() *mWal { return p.stages[len(p.stages)-1] }

func clampU(v int64) uint64 {
	if v < 0 {
		return 0
	}
	return uint64(v)
}

func kAt(k []int, i int) int {
	if i < len(k) {
		return k[i]
	}
	return 0
}

func (h *walH) plan(st *simkit.Step) *plan {
	m := h.m
	if h.dirty && st.Op != "clear" && st.Op != "reset" {
		return nil
	}
	switch st.Op {
	case "append", "save":
		n := len(st.X)
		if n == 0 && st.Op == "append" {
			return nil
		}
		if st.V > 0 && st.V < 1000 {
			h.term += uint64(st.V)
		}
		first := int64(m.last) + 1 + int64(st.A)
		if first < 1 {
			first = 1
		}
		var (
			rents []raftpb.Entry
			wents []*consensus.WalEntry
			blks  []*types.Block
			ccs   []*raftpb.ConfChange
		)
		after := m.clone()
		if n > 0 {
			for i := uint64(first); i <= m.last; i++ {
				delete(after.ents, i)
			}
		}
		for j := range st.X {
			s := &st.X[j]
			idx := uint64(first) + uint64(j)
			me := &mEnt{term: h.term, index: idx, blk: -1}
			re := raftpb.Entry{Term: h.term, Index: idx}
			var blk *types.Block
			var cc *raftpb.ConfChange
			switch s.Op {
			case "b":
				blk = h.block(s.A)
				data, err := raftv2.VerifMarshalEntryData(blk)
				if err != nil {
					panic(err)
				}
				me.typ, me.blk, me.wdata, me.rdata = consensus.EntryBlock, s.A, blk.BlockHash(), data
				re.Type, re.Data = raftpb.EntryNormal, data
				after.inv[s.A] = idx
			case "c":
				cc = mkConfChange(uint64(s.V), s.A)
				data, err := cc.Marshal()
				if err != nil {
					panic(err)
				}
				me.typ, me.wdata, me.rdata = consensus.EntryConfChange, data, data
				re.Type, re.Data = raftpb.EntryConfChange, data
			default: // "e": the entry a new leader appends
				me.typ = consensus.EntryEmpty
				re.Type = raftpb.EntryNormal
			}
			after.ents[idx] = me
			after.last = idx
			rents = append(rents, re)
			wents = append(wents, &consensus.WalEntry{Type: me.typ, Term: me.term, Index: idx, Data: me.wdata})
			blks = append(blks, blk)
			ccs = append(ccs, cc)
		}
		p := &plan{op: st.Op, stages: []*mWal{m}}
		if n > 0 {
			p.stages = append(p.stages, after)
		}
		if st.Op == "append" {
			p.run = func(h *walH) error { return h.cdb.WriteRaftEntry(wents, blks, ccs) }
			return p
		}
		var hs raftpb.HardState
		if kAt(st.K, 0) != 0 {
			hs = raftpb.HardState{Term: h.term, Vote: uint64(kAt(st.K, 1) % 4), Commit: clampU(int64(after.last) - int64(kAt(st.K, 2)))}
		}
		if !raft.IsEmptyHardState(hs) {
			a2 := after.clone()
			c := hs
			a2.hs = &c
			p.stages = append(p.stages, a2)
		}
		if len(p.stages) == 1 {
			return nil // nothing to store
		}
		p.run = func(h *walH) error { return h.wal.SaveEntry(hs, rents) }
		return p
	case "hs":
		if st.V > 0 && st.V < 1000 {
			h.term += uint64(st.V)
		}
		hs := &raftpb.HardState{Term: h.term, Vote: uint64(st.B % 4), Commit: clampU(int64(m.last) - int64(st.A))}
		after := m.clone()
		after.hs = hs
		return &plan{op: st.Op, stages: []*mWal{m, after}, run: func(h *walH) error { c := *hs; return h.cdb.WriteHardState(&c) }}
	case "snap":
		idx := clampU(int64(m.last) - int64(st.A)) // A<0: a snapshot installed ahead of the log
		term := h.term
		if e := m.ents[idx]; e != nil {
			term = e.term
		}
		mb := snapMembers(st.B % 4)
		sd := consensus.NewSnapshotData(mb, nil, h.best)
		data, err := sd.Encode()
		if err != nil {
			panic(err)
		}
		var nodes []uint64
		for _, x := range mb {
			nodes = append(nodes, x.ID)
		}
		snap := &raftpb.Snapshot{Data: data, Metadata: raftpb.SnapshotMetadata{Index: idx, Term: term, ConfState: raftpb.ConfState{Nodes: nodes}}}
		after := m.clone()
		after.snap = snap
		return &plan{op: st.Op, stages: []*mWal{m, after}, run: func(h *walH) error {
			c := *snap
			c.Data = append([]byte{}, snap.Data...)
			return h.cdb.WriteSnapshot(&c)
		}}
	case "ident":
		id := walIdentity(st.A)
		after := m.clone()
		after.id = id
		return &plan{op: st.Op, stages: []*mWal{m, after}, run: func(h *walH) error { c := *id; return h.cdb.WriteIdentity(&c) }}
	case "clear":
		return &plan{op: st.Op, multi: true, stages: []*mWal{m, newModel()}, run: func(h *walH) error { h.cdb.ClearWAL(); return nil }}
	case "reset":
		commit := clampU(int64(m.last) + int64(st.A))
		if h.dirty {
			commit = clampU(int64(st.A))
		}
		term := h.term
		after := newModel()
		after.last = commit
		after.hs = &raftpb.HardState{Term: term, Commit: commit}
		sd := consensus.NewSnapshotData(nil, nil, h.best)
		data, err := sd.Encode()
		if err != nil {
			panic(err)
		}
		after.snap = &raftpb.Snapshot{Data: data, Metadata: raftpb.SnapshotMetadata{Index: commit, Term: term}}
		return &plan{op: st.Op, multi: true, stages: []*mWal{m, after}, run: func(h *walH) error {
			return h.cdb.ResetWAL(&types.HardStateInfo{Term: term, Commit: commit})
		}}
	}
	return nil
}

// runOp executes the operation; crashed is true if the armed crash point fired inside it.
func (h *walH) runOp(p *plan) (err error, crashed bool) {
	defer func() {
		if r := recover(); r != nil {
			if isCrash(r) {
				crashed = true
				return
			}
			panic(r)
		}
	}()
	return p.run(h), false
}

func sameEntry(e *consensus.WalEntry, w *mEnt) bool {
	return e.Type == w.typ && e.Term == w.term && e.Index == w.index && bytes.Equal(e.Data, w.wdata)
}

func sameHS(a, b *raftpb.HardState) bool {
	return a.Term == b.Term && a.Vote == b.Vote && a.Commit == b.Commit
}

func sameSnap(a, b *raftpb.Snapshot) bool {
	if !bytes.Equal(a.Data, b.Data) || a.Metadata.Index != b.Metadata.Index || a.Metadata.Term != b.Metadata.Term {
		return false
	}
	if len(a.Metadata.ConfState.Nodes) != len(b.Metadata.ConfState.Nodes) || len(a.Metadata.ConfState.Learners) != len(b.Metadata.ConfState.Learners) {
		return false
	}
	for i := range a.Metadata.ConfState.Nodes {
		if a.Metadata.ConfState.Nodes[i] != b.Metadata.ConfState.Nodes[i] {
			return false
		}
	}
	return true
}

func sameID(a, b *consensus.RaftIdentity) bool {
	return a.ClusterID == b.ClusterID && a.ID == b.ID && a.Name == b.Name && a.PeerID == b.PeerID
}

func (h *walH) hasWal(m *mWal) (bool, string) {
	id := h.probe
	if m != nil && m.id != nil {
		id = *m.id
	}
	var ok bool
	if p := sutCall(func() { ok, _ = h.cdb.HasWal(id) }); p != "" {
		return false, p
	}
	return ok, ""
}

// diff compares everything the storage answers with the model m; "" means equal. cls is a short
// stable class name of the first difference.
func (h *walH) diff(m *mWal) (cls, detail string) {
	cdb := h.cdb
	var (
		last uint64
		err  error
	)
	if p := sutCall(func() { last, err = cdb.GetRaftEntryLastIdx() }); p != "" || err != nil {
		return "last-index-unreadable", fmt.Sprintf("GetRaftEntryLastIdx: %v %s", err, p)
	}
	if last != m.last {
		return "wrong-last-index", fmt.Sprintf("GetRaftEntryLastIdx = %d, model %d", last, m.last)
	}
	top := h.maxIdx
	if m.last > top {
		top = m.last
	}
	for i := uint64(1); i <= top+2; i++ {
		var e *consensus.WalEntry
		p := sutCall(func() { e, err = cdb.GetRaftEntry(i) })
		w := m.ents[i]
		if w == nil {
			if p == "" && err == nil && e != nil {
				if i > m.last {
					return "stale-entry-above-last", fmt.Sprintf("GetRaftEntry(%d) returns an entry (type %d term %d) above the last index %d", i, e.Type, e.Term, m.last)
				}
				return "stale-entry", fmt.Sprintf("GetRaftEntry(%d) returns an entry (type %d term %d) the model does not hold", i, e.Type, e.Term)
			}
			continue
		}
		if p != "" || err != nil || e == nil {
			return "entry-lost", fmt.Sprintf("GetRaftEntry(%d): %v %s; model holds type %d term %d", i, err, p, w.typ, w.term)
		}
		if !sameEntry(e, w) {
			return "wrong-entry", fmt.Sprintf("GetRaftEntry(%d) = {type %d term %d index %d data %x}, model {type %d term %d data %x}", i, e.Type, e.Term, e.Index, short(e.Data), w.typ, w.term, short(w.wdata))
		}
		if w.typ != consensus.EntryBlock {
			continue
		}
		want := h.block(w.blk)
		var got *types.Block
		if p := sutCall(func() { got, err = cdb.GetBlock(w.wdata) }); p != "" || err != nil || got == nil {
			return "block-lost", fmt.Sprintf("block %x carried by entry %d is not retrievable: %v %s", short(w.wdata), i, err, p)
		}
		if !bytes.Equal(got.GetHash(), want.GetHash()) || !proto.Equal(got, want) {
			return "wrong-block", fmt.Sprintf("block %x carried by entry %d differs from the one stored", short(w.wdata), i)
		}
		if m.inv[w.blk] == i {
			var be *consensus.WalEntry
			if p := sutCall(func() { be, err = cdb.GetRaftEntryOfBlock(w.wdata) }); p != "" || err != nil || be == nil {
				return "block-entry-not-found", fmt.Sprintf("GetRaftEntryOfBlock(%x): %v %s; the block is carried by live entry %d", short(w.wdata), err, p, i)
			}
			// a block proposed twice may be live under several indices; any of them is "its entry"
			if o := m.ents[be.Index]; o == nil || o.blk != w.blk || !sameEntry(be, o) {
				return "wrong-block-entry", fmt.Sprintf("GetRaftEntryOfBlock(%x) = index %d term %d, which is not a live entry carrying that block; model index %d term %d", short(w.wdata), be.Index, be.Term, i, w.term)
			}
			var bi uint64
			if p := sutCall(func() { bi, err = cdb.GetRaftEntryIndexOfBlock(w.wdata) }); p != "" || err != nil || bi != be.Index {
				return "wrong-block-entry", fmt.Sprintf("GetRaftEntryIndexOfBlock(%x) = %d %v %s, GetRaftEntryOfBlock index %d", short(w.wdata), bi, err, p, be.Index)
			}
		}
	}
	// hard state
	var hs *raftpb.HardState
	p := sutCall(func() { hs, err = cdb.GetHardState() })
	switch {
	case m.hs == nil:
		if p == "" && err == nil && hs != nil {
			return "stale-hardstate", fmt.Sprintf("GetHardState = %d/%d/%d, model holds none", hs.Term, hs.Vote, hs.Commit)
		}
	case p != "" || err != nil || hs == nil:
		return "hardstate-lost", fmt.Sprintf("GetHardState: %v %s; model %d/%d/%d", err, p, m.hs.Term, m.hs.Vote, m.hs.Commit)
	case !sameHS(hs, m.hs):
		return "wrong-hardstate", fmt.Sprintf("GetHardState = term %d vote %d commit %d, model term %d vote %d commit %d", hs.Term, hs.Vote, hs.Commit, m.hs.Term, m.hs.Vote, m.hs.Commit)
	}
	// snapshot
	var snap *raftpb.Snapshot
	p = sutCall(func() { snap, err = cdb.GetSnapshot() })
	switch {
	case m.snap == nil:
		if p == "" && err == nil && snap != nil {
			return "stale-snapshot", fmt.Sprintf("GetSnapshot = index %d term %d, model holds none", snap.Metadata.Index, snap.Metadata.Term)
		}
	case p != "" || err != nil || snap == nil:
		return "snapshot-lost", fmt.Sprintf("GetSnapshot: %v %s; model index %d term %d", err, p, m.snap.Metadata.Index, m.snap.Metadata.Term)
	case !sameSnap(snap, m.snap):
		return "wrong-snapshot", fmt.Sprintf("GetSnapshot = index %d term %d nodes %v data %d bytes, model index %d term %d nodes %v data %d bytes", snap.Metadata.Index, snap.Metadata.Term, snap.Metadata.ConfState.Nodes, len(snap.Data), m.snap.Metadata.Index, m.snap.Metadata.Term, m.snap.Metadata.ConfState.Nodes, len(m.snap.Data))
	}
	// identity
	var id *consensus.RaftIdentity
	p = sutCall(func() { id, err = cdb.GetIdentity() })
	switch {
	case m.id == nil:
		if p == "" && err == nil && id != nil {
			return "stale-identity", fmt.Sprintf("GetIdentity = %s, model holds none", id.Name)
		}
	case p != "" || err != nil || id == nil:
		return "identity-lost", fmt.Sprintf("GetIdentity: %v %s; model %s", err, p, m.id.Name)
	case !sameID(id, m.id):
		return "wrong-identity", fmt.Sprintf("GetIdentity = %+v, model %+v", *id, *m.id)
	}
	// HasWal: the gate through which a restarted node decides to replay this log
	hw, hp := h.hasWal(m)
	if want := m.id != nil && m.hs != nil; hp != "" || hw != want {
		return "wrong-haswal", fmt.Sprintf("HasWal = %v %s, model: identity %v, hard state %v", hw, hp, m.id != nil, m.hs != nil)
	}
	// ReadAll: what a restarted node hands the consensus library
	if m.hs == nil {
		return "", ""
	}
	var snapIdx, snapTerm uint64
	if m.snap != nil {
		snapIdx, snapTerm = m.snap.Metadata.Index, m.snap.Metadata.Term
	}
	complete := true
	for i := snapIdx + 1; i <= m.last; i++ {
		if e := m.ents[i]; e == nil || e.term < snapTerm {
			complete = false
			break
		}
	}
	if !complete {
		h.x.Probe("readall-not-judged")
		return "", ""
	}
	var (
		rid   *consensus.RaftIdentity
		rst   *raftpb.HardState
		rents []raftpb.Entry
	)
	if p := sutCall(func() { rid, rst, rents, err = h.wal.ReadAll(snap) }); p != "" || err != nil {
		return "readall-failed", fmt.Sprintf("ReadAll: %v %s; model holds every index in (%d, %d]", err, p, snapIdx, m.last)
	}
	if (rid == nil) != (m.id == nil) || (rid != nil && !sameID(rid, m.id)) {
		return "readall-wrong-identity", "ReadAll hands out a different identity than the one stored"
	}
	if rst == nil || !sameHS(rst, m.hs) {
		return "readall-wrong-hardstate", "ReadAll hands out a different hard state than the one stored"
	}
	if uint64(len(rents)) != m.last-minU(snapIdx, m.last) {
		return "readall-wrong-length", fmt.Sprintf("ReadAll hands out %d entries, model holds %d in (%d, %d]", len(rents), m.last-minU(snapIdx, m.last), snapIdx, m.last)
	}
	for k := range rents {
		re := &rents[k]
		w := m.ents[snapIdx+1+uint64(k)]
		wt := raftpb.EntryNormal
		if w.typ == consensus.EntryConfChange {
			wt = raftpb.EntryConfChange
		}
		ok := re.Index == w.index && re.Term == w.term && re.Type == wt
		if ok && !bytes.Equal(re.Data, w.rdata) {
			ok = false
			if w.typ == consensus.EntryBlock { // tolerate a different but equivalent encoding
				var b types.Block
				if proto.Decode(re.Data, &b) == nil && proto.Equal(&b, h.block(w.blk)) {
					ok = true
				}
			}
		}
		if !ok {
			return "readall-wrong-entry", fmt.Sprintf("ReadAll entry #%d = {type %v term %d index %d data %d bytes}, model {type %v term %d index %d data %d bytes}", k, re.Type, re.Term, re.Index, len(re.Data), wt, w.term, w.index, len(w.rdata))
		}
	}
	h.x.Probe("readall-judged")
	return "", ""
}

func minU(a, b uint64) uint64 {
	if a < b {
		return a
	}
	return b
}

func short(b []byte) []byte {
	if len(b) > 6 {
		return b[:6]
	}
	return b
}

// judgeCrash decides the state found after a crash inside p (the disk has been rebuilt and
// reopened). It returns the index of the stage the disk equals (-1: none / not applicable).
func (h *walH) judgeCrash(p *plan, unit, torn int, idx int) int {
	x := h.x
	if p.multi {
		// Appendix A: only "HasWal does not report a half-cleared log as valid".
		hw, hp := h.hasWal(p.stages[0])
		if hp != "" {
			x.Fail("C16", "haswal-panic", "crash-in-"+p.op, hp, idx)
			return -1
		}
		if h.dirty {
			if hw {
				x.Fail("C16", "half-cleared-wal-valid", "crash-in-"+p.op, fmt.Sprintf("HasWal reports a valid log after a crash at unit %d (torn %d) of %s that recovers an already half-cleared log", unit, torn, p.op), idx)
			}
			return -1
		}
		cls, det := h.diff(p.stages[0])
		if cls == "" {
			x.Probe("crash-in-clear-nothing-removed")
			return 0
		}
		if hw {
			x.Fail("C16", "half-cleared-wal-valid", "crash-in-"+p.op, fmt.Sprintf("after a crash at unit %d (torn %d) of %s HasWal reports a valid log, but part of it is gone: %s: %s", unit, torn, p.op, cls, det), idx)
			return -1
		}
		x.Probe("crash-in-clear-haswal-false")
		return -1
	}
	var notes []string
	for j, s := range p.stages {
		cls, det := h.diff(s)
		if cls == "" {
			if j > 0 && j < len(p.stages)-1 {
				x.Probe("crash-between-entries-and-hardstate")
			}
			return j
		}
		notes = append(notes, fmt.Sprintf("vs stage %d: %s: %s", j, cls, det))
	}
	x.Fail("C16", "crash-state-mix", "crash-in-"+p.op, fmt.Sprintf("after a crash at unit %d of %s the storage equals neither the state before nor the state after any unit-atomic part: %s", unit, p.op, strings.Join(notes, " | ")), idx)
	return -1
}

type unitInfo struct {
	kind string
	ops  int
}

// dryUnits runs p once to learn its write units, then puts the disk back.
func (h *walH) dryUnits(p *plan) []unitInfo {
	h.disk.Checkpoint()
	if err, crashed := h.runOp(p); err != nil || crashed {
		panic(fmt.Sprintf("raftw: dry run of %s: err=%v crashed=%v", p.op, err, crashed))
	}
	var us []unitInfo
	for _, u := range h.disk.Journal {
		us = append(us, unitInfo{u.Kind, len(u.Ops)})
	}
	h.disk.RebuildAt(0, 0)
	h.reopen()
	return us
}

// crashAt runs p with a crash armed at unit k (torn leading ops of a bulk unit reach the disk),
// rebuilds the disk as a restarted process finds it, reopens and judges.
func (h *walH) crashAt(p *plan, k, torn, idx int) int {
	h.disk.Arm(k, torn)
	_, crashed := h.runOp(p)
	if !crashed {
		panic(fmt.Sprintf("raftw: crash armed at unit %d of %s did not fire", k, p.op))
	}
	h.disk.RebuildAt(h.disk.Units(), 0) // the journal holds exactly what reached the disk
	h.x.Fault("crash")
	if torn > 0 {
		h.x.Fault("torn-bulk")
	}
	h.x.Count("crash-in-"+p.op, 1)
	h.reopen()
	j := h.judgeCrash(p, k, torn, idx)
	h.x.Logf("crash in %s at unit %d torn %d -> stage %d of %d", p.op, k, torn, j, len(p.stages)-1)
	return j
}

func (w *World) runWAL(x *simkit.Ctx) {
	thorough := x.Case.Tier == "thorough"
	nsteps := x.CfgInt("steps", func(r *simkit.Rng) int {
		if thorough {
			return r.Range(10, 70)
		}
		return r.Range(6, 30)
	})
	crashCfg := x.CfgInt("crash", func(r *simkit.Rng) int { return r.Pick(1, 3) })
	chunk := x.CfgInt("bulkchunk", func(r *simkit.Rng) int { return []int{0, 1, 1, 2, 3}[r.Intn(5)] })
	maxBatch := x.CfgInt("maxbatch", func(r *simkit.Rng) int {
		if thorough {
			return r.Range(2, 9)
		}
		return r.Range(2, 6)
	})
	bestNo := x.CfgInt("bestno", func(r *simkit.Rng) int { return r.Pick(2, 1, 1) })

	root := fmt.Sprintf("%s/raftw-%d", w.Scratch, os.Getpid())
	_ = os.MkdirAll(root, 0o755)
	defer os.RemoveAll(root)
	disk := simdisk.New(root)
	defer disk.Unregister()
	disk.BulkChunk = chunk

	h := &walH{x: x, root: root, disk: disk, m: newModel(), term: 1, probe: *walIdentity(0), blocks: map[int]*types.Block{}}
	h.reopen()
	g := &types.Genesis{ID: types.ChainID{Magic: "verif.raftw", Consensus: "raft"}, Timestamp: time.Date(2020, 1, 1, 0, 0, 0, 0, time.UTC).UnixNano()}
	if err := h.cdb.VerifAddGenesisBlock(g); err != nil {
		panic(err)
	}
	h.best = g.Block()
	for i := 1; i <= bestNo; i++ {
		b := &types.Block{Header: &types.BlockHeader{ChainID: h.best.GetHeader().GetChainID(), PrevBlockHash: h.best.BlockHash(), BlockNo: uint64(i), Timestamp: g.Timestamp + int64(i)}, Body: &types.BlockBody{}}
		b.BlockHash()
		h.cdb.VerifConnectBlock(b)
		h.best = b
	}
	disk.Checkpoint()
	h.reopen()
	if bb, _ := h.cdb.GetBestBlock(); bb == nil || !bytes.Equal(bb.BlockHash(), h.best.BlockHash()) {
		panic("raftw: best block not restored on reopen")
	}

	nextOrd, nextReq := 0, 1
	genBatch := func(r *simkit.Rng) (off int, xs []simkit.Step) {
		last := int(h.m.last)
		n := r.Range(1, maxBatch)
		lim := func(v int) int {
			if v > last {
				v = last
			}
			if v < 1 {
				v = 1
			}
			return v
		}
		kind := r.Pick(4, 3, 3, 3, 1)
		if last == 0 {
			kind = 0
		}
		if h.m.snap != nil && h.m.snap.Metadata.Index > h.m.last && r.Chance(3, 4) {
			// the log continues right after a snapshot installed ahead of it
			kind, off = -1, int(h.m.snap.Metadata.Index-h.m.last)
		}
		switch kind {
		case 0: // pure append
		case 1: // new suffix shorter than the one it replaces
			if last < 2 {
				off = -1
				n = 1
			} else {
				k := r.Range(2, lim(6))
				off, n = -k, r.Range(1, k-1)
			}
		case 2: // equal
			k := r.Range(1, lim(maxBatch))
			off, n = -k, k
		case 3: // longer
			k := r.Range(1, lim(5))
			off, n = -k, k+r.Range(1, 3)
		case 4: // a hole (only a snapshot makes that legitimate; the storage must still answer exactly)
			off = r.Range(1, 3)
		}
		for i := 0; i < n; i++ {
			switch r.Pick(6, 2, 2) {
			case 0:
				ord := nextOrd
				if nextOrd > 0 && r.Chance(1, 8) {
					ord = r.Intn(nextOrd) // the same block proposed again
				} else {
					nextOrd++
				}
				xs = append(xs, simkit.Step{Op: "b", A: ord})
			case 1:
				xs = append(xs, simkit.Step{Op: "e"})
			case 2:
				req := 0
				if r.Chance(3, 4) {
					req = nextReq
					nextReq++
				}
				xs = append(xs, simkit.Step{Op: "c", A: r.Intn(12), V: int64(req)})
			}
		}
		return off, xs
	}
	gen := func(r *simkit.Rng) *simkit.Step {
		if len(x.Case.Steps) >= nsteps {
			return nil
		}
		fm := 0
		if crashCfg == 1 {
			fm = r.Pick(5, 4, 2)
		}
		mk := func(s simkit.Step) *simkit.Step {
			s.C = fm
			if fm == 2 {
				s.N, s.B = r.Intn(64), r.Intn(8)
			}
			return &s
		}
		if h.dirty {
			if fm == 1 {
				fm = 0
			}
			if r.Bool() {
				return mk(simkit.Step{Op: "clear"})
			}
			return mk(simkit.Step{Op: "reset", A: r.Range(0, 6)})
		}
		if h.m.id == nil && r.Chance(2, 3) {
			return mk(simkit.Step{Op: "ident", A: r.Intn(3)})
		}
		bump := int64(r.Pick(6, 3, 1))
		switch r.Pick(30, 30, 8, 10, 3, 3, 4) {
		case 0:
			off, xs := genBatch(r)
			return mk(simkit.Step{Op: "append", A: off, V: bump, X: xs})
		case 1:
			off, xs := genBatch(r)
			if r.Chance(1, 7) {
				off, xs = 0, nil // hard state only
			}
			k := []int{r.Pick(1, 3), r.Intn(4), r.Intn(4)}
			if len(xs) == 0 {
				k[0] = 1
			}
			return mk(simkit.Step{Op: "save", A: off, V: bump, X: xs, K: k})
		case 2:
			return mk(simkit.Step{Op: "hs", A: r.Intn(4), B: r.Intn(4), V: bump})
		case 3:
			a := r.Intn(5)
			if r.Chance(1, 4) {
				a = -r.Range(1, 4)
			}
			if fm == 2 {
				fm = 0 // B is the member count here
			}
			s := mk(simkit.Step{Op: "snap", A: a})
			s.B = r.Intn(4)
			return s
		case 4:
			return mk(simkit.Step{Op: "ident", A: r.Intn(3)})
		case 5:
			return mk(simkit.Step{Op: "clear"})
		}
		return mk(simkit.Step{Op: "reset", A: r.Range(-2, 3)})
	}

	for {
		st, idx := x.Next(gen)
		if st == nil || x.Failed() {
			break
		}
		disk.Checkpoint() // the journal is only needed inside one operation
		p := h.plan(st)
		if p == nil {
			x.Noop()
			continue
		}
		x.Count("op."+p.op, 1)
		before := p.stages[0]
		if !p.multi && len(p.stages) >= 2 && (p.op == "append" || p.op == "save") && len(st.X) > 0 {
			first := int64(before.last) + 1 + int64(st.A)
			if first < 1 {
				first = 1
			}
			nl := uint64(first) + uint64(len(st.X)) - 1
			switch {
			case uint64(first) > before.last+1:
				x.Probe("append-leaves-hole")
			case uint64(first) == before.last+1:
				x.Probe("pure-append")
			case nl < before.last:
				x.Probe("truncate-new-suffix-shorter")
			case nl == before.last:
				x.Probe("truncate-new-suffix-equal")
			default:
				x.Probe("truncate-new-suffix-longer")
			}
			for j := range st.X {
				if st.X[j].Op == "b" {
					if at, ok := before.inv[st.X[j].A]; ok {
						if at == uint64(first)+uint64(j) {
							x.Probe("block-stored-again-same-index")
						} else {
							x.Probe("block-stored-again-other-index")
						}
					}
				}
			}
		}
		continued := false
		switch st.C {
		case 1: // every write unit of this operation, one crash each; then the operation for real
			us := h.dryUnits(p)
			for k, u := range us {
				torns := []int{0}
				if u.kind == "bulk" {
					for t := 1; t < u.ops && t <= 8; t++ {
						torns = append(torns, t)
					}
				}
				for _, t := range torns {
					h.crashAt(p, k, t, idx)
					if x.Failed() {
						return
					}
					disk.RebuildAt(0, 0)
					h.reopen()
				}
			}
			x.Probe("operation-with-all-crash-points")
		case 2: // one crash, and the history goes on from what it left
			us := h.dryUnits(p)
			if len(us) == 0 {
				break
			}
			k := st.N % len(us)
			t := 0
			if us[k].kind == "bulk" && us[k].ops > 1 {
				t = st.B % us[k].ops
			}
			j := h.crashAt(p, k, t, idx)
			if x.Failed() {
				return
			}
			x.Fault("crash-and-continue")
			continued = true
			switch {
			case j >= 0:
				h.m = p.stages[j]
			default:
				h.dirty = true
				h.m = newModel()
				x.Probe("continued-on-half-cleared-log")
			}
		}
		if !continued {
			err, _ := h.runOp(p)
			if err != nil {
				x.Fail("C16", "operation-refused", p.op, fmt.Sprintf("%s returned %v", p.op, err), idx)
				break
			}
			h.m = p.after()
			if h.dirty {
				h.dirty = false
				x.Probe("recovered-half-cleared-log")
			}
			if p.op == "ident" && before.id == nil && before.hs != nil && before.snap != nil && len(before.ents) == 0 {
				x.Probe("identity-after-reset")
			}
		}
		if h.m.id != nil {
			h.probe = *h.m.id
		}
		if h.m.last > h.maxIdx {
			h.maxIdx = h.m.last
		}
		if a := p.after().last; a > h.maxIdx {
			h.maxIdx = a
		}
		x.Logf("model %s dirty=%v", h.m.summary(), h.dirty)
		if h.dirty {
			// nothing is promised about a half-cleared log except that it is not taken for a valid one
			h.reopen()
			x.Fault("restart")
			if hw, hp := h.hasWal(nil); hw || hp != "" {
				x.Fail("C16", "half-cleared-wal-valid", "after-restart", fmt.Sprintf("HasWal = %v %s on a half-cleared log", hw, hp), idx)
			}
			continue
		}
		if cls, det := h.diff(h.m); cls != "" {
			x.Fail("C16", cls, "after-"+p.op, det+" (same instance, after "+p.op+")", idx)
			break
		}
		h.reopen()
		x.Fault("restart")
		if cls, det := h.diff(h.m); cls != "" {
			x.Fail("C16", cls, "restart-after-"+p.op, det+" (after "+p.op+" and restart)", idx)
			break
		}
		hsd := "-"
		if h.m.hs != nil {
			hsd = fmt.Sprintf("%d/%d", h.m.hs.Term, h.m.hs.Commit)
		}
		x.Digest("wal", h.m.last, len(h.m.ents), hsd, h.m.snap != nil, h.m.id != nil)
	}
}
