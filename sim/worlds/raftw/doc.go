// Package raftw: see DESIGN.md section 4.
package raftw
