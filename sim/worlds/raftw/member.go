package raftw

import (
	"context"
	"crypto/sha256"
	"encoding/hex"
	"fmt"
	"sort"

	"github.com/aergoio/aergo/v2/consensus"
	"github.com/aergoio/aergo/v2/consensus/impl/raftv2"
	"github.com/aergoio/aergo/v2/types"
	"github.com/aergoio/aergo/v2/zz_verif/simkit"
	"github.com/aergoio/etcd/raft"
	"github.com/aergoio/etcd/raft/raftpb"
)

// ---------------------------------------------------------------------------------------------
// Part B — cluster membership changes.
//
// The real raftv2.Cluster (applied members / removed members, changed only through the real
// addMember/removeMember) sits on a raft server whose raft.Node is a fake that reports a chosen
// Status: one Progress per member, encoding a health vector. The node under test is the leader
// (only the leader's raft status carries progress; a follower answers "skip" long before).
//
// Requests name the four attributes of a member by indices into small pools, so that every kind
// of duplicate, every removed id and every unknown id occurs. Decision paths:
//   0  validateChangeMembership + isEnableChangeMembership (what Cluster.ChangeMembership runs),
//   1  the real makeProposal (request -> member -> conf change -> validation) + isEnableChangeMembership,
//   2  raftServer.ValidateConfChangeEntry on a marshalled log entry (what every node runs when the
//      entry is applied): validation only, no availability check.
//
// Oracle = the predicate of the property text, written here from the text alone:
//   must refuse  an addition whose id is that of a removed member (re-adding), or whose id, name,
//                address or peer id equals that of a current member; a removal of an id that is
//                not a current member; a removal of a healthy member when the healthy members
//                left (h-1) are fewer than the quorum of the remaining cluster ((n-1)/2+1);
//   must accept  (DESIGN.md 5/C16 "accept iff") a well-formed request none of the above applies to,
//                when — for an addition — every member is healthy;
//   unspecified  an addition while some member is unhealthy (the code refuses, the text is silent),
//                an addition that reuses the name/address/peer id of a removed member under a new id.
// "Healthy" = the leader itself, or a follower that replicates and is not more than MaxSlowNodeGap
// entries behind; probing, snapshotting and lagging followers are unhealthy.
// ---------------------------------------------------------------------------------------------

const nPool = 9

type prof struct{ id, name, addr, peer int } // indices into the pools; id -1 = a fresh id

func poolID(i int) uint64 { return uint64(0xA001 + i) }
func poolName(i int) string {
	return fmt.Sprintf("bp%d", i)
}
func poolAddr(i int) string { return fmt.Sprintf("/ip4/10.7.0.%d/tcp/7846", i+1) }

var poolPeers = func() []types.PeerID {
	out := make([]types.PeerID, nPool+1)
	for i := range out {
		out[i] = peerID(100 + i)
	}
	return out
}()

func (p prof) member() *consensus.Member {
	id := uint64(0xF00D)
	if p.id >= 0 {
		id = poolID(p.id)
	}
	return &consensus.Member{MemberAttr: types.MemberAttr{ID: id, Name: poolName(p.name), Address: poolAddr(p.addr), PeerID: []byte(poolPeers[p.peer])}}
}

// health of a follower as the fake raft status encodes it
const (
	hHealthy  = iota // replicating, fully caught up
	hProbe           // ProgressStateProbe
	hSnapshot        // ProgressStateSnapshot
	hLagging         // replicating, more than MaxSlowNodeGap behind
	hEdge            // replicating, exactly MaxSlowNodeGap behind (still healthy)
	nHealth
)

const leaderLast = 1000

type fakeNode struct{ st raft.Status }

func (f *fakeNode) Tick()                              {}
func (f *fakeNode) Campaign(ctx context.Context) error { panic("raftw: unexpected Campaign") }
func (f *fakeNode) Propose(ctx context.Context, data []byte) error {
	panic("raftw: unexpected Propose")
}
func (f *fakeNode) ProposeConfChange(ctx context.Context, cc raftpb.ConfChange) error {
	panic("raftw: unexpected ProposeConfChange")
}
func (f *fakeNode) Step(ctx context.Context, msg raftpb.Message) error {
	panic("raftw: unexpected Step")
}
func (f *fakeNode) Ready() <-chan raft.Ready { panic("raftw: unexpected Ready") }
func (f *fakeNode) Advance()                 {}
func (f *fakeNode) ApplyConfChange(cc raftpb.ConfChange) *raftpb.ConfState {
	panic("raftw: unexpected ApplyConfChange")
}
func (f *fakeNode) TransferLeadership(ctx context.Context, lead, transferee uint64) {}
func (f *fakeNode) ReadIndex(ctx context.Context, rctx []byte) error                { return nil }
func (f *fakeNode) Status() raft.Status {
	c := f.st
	c.Progress = make(map[uint64]raft.Progress, len(f.st.Progress))
	for k, v := range f.st.Progress {
		c.Progress[k] = v
	}
	return c
}
func (f *fakeNode) ReportUnreachable(id uint64)                          {}
func (f *fakeNode) ReportSnapshot(id uint64, status raft.SnapshotStatus) {}
func (f *fakeNode) Stop()                                                {}

type memH struct {
	x       *simkit.Ctx
	cl      *raftv2.Cluster
	node    *fakeNode
	self    int          // pool index of the node under test (the leader)
	members map[int]prof // by id index
	removed map[int]prof
	health  map[int]int
	reqSeq  uint64
	// the lagging replica: a second real Cluster of the same raft cluster that applies only the
	// conf changes it is not partitioned away from, and catches up through snapshots
	fl      *raftv2.Cluster
	fmem    map[int]prof // what the replica has applied (its own history)
	frem    map[int]prof
	onF     bool // requests are currently evaluated on the replica
	snapSeq uint64
}

// onFollower runs f with the replica (real cluster and its model) in place of the leader.
func (h *memH) onFollower(f func()) {
	cl, mem, rem := h.cl, h.members, h.removed
	h.cl, h.members, h.removed, h.onF = h.fl, h.fmem, h.frem, true
	defer func() {
		h.fmem, h.frem = h.members, h.removed
		h.cl, h.members, h.removed, h.onF = cl, mem, rem, false
	}()
	f()
}

func (h *memH) isHealthy(id int) bool {
	return id == h.self || h.health[id] == hHealthy || h.health[id] == hEdge
}

func (h *memH) sortedIDs(m map[int]prof) []int {
	out := make([]int, 0, len(m))
	for k := range m {
		out = append(out, k)
	}
	sort.Ints(out)
	return out
}

// publish writes the model's member set and health vector into the fake raft status.
func (h *memH) publish() {
	pr := map[uint64]raft.Progress{}
	gap := raftv2.MaxSlowNodeGap
	for _, id := range h.sortedIDs(h.members) {
		p := raft.Progress{Match: leaderLast, Next: leaderLast + 1, State: raft.ProgressStateReplicate, RecentActive: true}
		if id == h.self {
			// a leader's own progress is never moved out of the probe state by etcd raft
			p.State = raft.ProgressStateProbe
		} else {
			switch h.health[id] {
			case hProbe:
				p.State, p.Match = raft.ProgressStateProbe, leaderLast-3
			case hSnapshot:
				p.State, p.Match, p.PendingSnapshot = raft.ProgressStateSnapshot, 10, leaderLast-1
			case hLagging:
				p.Match = leaderLast - gap - 1
			case hEdge:
				p.Match = leaderLast - gap
			}
		}
		p.Next = p.Match + 1
		pr[poolID(id)] = p
	}
	h.node.st = raft.Status{ID: poolID(h.self), HardState: raftpb.HardState{Term: 3, Commit: leaderLast},
		SoftState: raft.SoftState{Lead: poolID(h.self), RaftState: raft.StateLeader}, Applied: leaderLast, Progress: pr}
}

type verdict int

const (
	mustRefuse verdict = iota
	mustAccept
	unspecified
)

func (v verdict) String() string { return [...]string{"refuse", "accept", "unspecified"}[v] }

// judgeAdd / judgeRemove are the property text. avail=false leaves the availability clause out
// (the apply-time validation of a log entry does not look at health).
func (h *memH) judgeAdd(p prof, avail bool) (verdict, string) {
	if p.id >= 0 {
		if _, ok := h.removed[p.id]; ok {
			return mustRefuse, "re-add-removed"
		}
		if _, ok := h.members[p.id]; ok {
			return mustRefuse, "dup-id"
		}
	}
	for _, id := range h.sortedIDs(h.members) {
		m := h.members[id]
		switch {
		case m.name == p.name:
			return mustRefuse, "dup-name"
		case m.addr == p.addr:
			return mustRefuse, "dup-address"
		case m.peer == p.peer:
			return mustRefuse, "dup-peerid"
		}
	}
	for _, id := range h.sortedIDs(h.removed) {
		m := h.removed[id]
		if m.name == p.name || m.addr == p.addr || m.peer == p.peer {
			return unspecified, "attr-of-removed-member-under-new-id"
		}
	}
	if avail {
		for _, id := range h.sortedIDs(h.members) {
			if !h.isHealthy(id) {
				return unspecified, "add-while-unhealthy"
			}
		}
	}
	return mustAccept, "add-ok"
}

func (h *memH) judgeRemove(id int, avail bool) (verdict, string) {
	if _, ok := h.members[id]; !ok {
		if _, was := h.removed[id]; was {
			return mustRefuse, "remove-already-removed"
		}
		return mustRefuse, "remove-unknown"
	}
	if !avail {
		return mustAccept, "remove-ok"
	}
	if !h.isHealthy(id) {
		return mustAccept, "remove-unhealthy"
	}
	n, healthy := len(h.members), 0
	for _, m := range h.sortedIDs(h.members) {
		if h.isHealthy(m) {
			healthy++
		}
	}
	if healthy-1 < (n-1)/2+1 {
		return mustRefuse, "remove-healthy-loses-quorum"
	}
	return mustAccept, "remove-healthy-keeps-quorum"
}

// decide asks the real code. It returns the error (nil = accepted), the member as validation left
// it (a removal is completed with the stored attributes) and the text of a panic, if any.
func (h *memH) decide(add bool, p prof, path int) (err error, m *consensus.Member, panicked string) {
	h.reqSeq++
	reqID := h.reqSeq
	typ, ctyp := types.MembershipChangeType_REMOVE_MEMBER, raftpb.ConfChangeRemoveNode
	if add {
		typ, ctyp = types.MembershipChangeType_ADD_MEMBER, raftpb.ConfChangeAddNode
		m = p.member()
	} else {
		m = &consensus.Member{MemberAttr: types.MemberAttr{ID: poolID(p.id)}}
	}
	panicked = sutCall(func() {
		switch path {
		case 1:
			req := &types.MembershipChange{Type: typ, RequestID: reqID, Attr: &types.MemberAttr{ID: m.ID, Name: m.Name, Address: m.Address, PeerID: m.PeerID}}
			var pr *consensus.ConfChangePropose
			if pr, err = h.cl.VerifMakeProposal(req, true); err == nil {
				err = h.cl.VerifIsEnableChangeMembership(pr.Cc)
			}
		case 2:
			var cc *raftpb.ConfChange
			if cc, err = h.cl.VerifMakeConfChange(reqID, typ, m); err != nil {
				panic("raftw: makeConfChange: " + err.Error())
			}
			data, e := cc.Marshal()
			if e != nil {
				panic(e)
			}
			_, m, err = h.cl.VerifValidateConfChangeEntry(&raftpb.Entry{Type: raftpb.EntryConfChange, Term: 3, Index: leaderLast + 1, Data: data})
		case 3:
			var cc *raftpb.ConfChange
			if cc, err = h.cl.VerifMakeConfChange(reqID, typ, m); err != nil {
				panic("raftw: makeConfChange: " + err.Error())
			}
			err = h.cl.VerifValidateChangeMembership(cc, m, true)
		default:
			var cc *raftpb.ConfChange
			if cc, err = h.cl.VerifMakeConfChange(reqID, typ, m); err != nil {
				panic("raftw: makeConfChange: " + err.Error())
			}
			if cc.Type != ctyp {
				panic("raftw: conf change type")
			}
			if err = h.cl.VerifValidateChangeMembership(cc, m, false); err == nil {
				err = h.cl.VerifIsEnableChangeMembership(cc)
			}
		}
	})
	return
}

// check runs one request through the real code and the predicate; it reports whether the request
// was accepted (and is well-defined to apply).
func (h *memH) check(add bool, p prof, path int, idx int, quiet bool) (accepted bool, m *consensus.Member) {
	x := h.x
	var (
		v   verdict
		why string
	)
	avail := path != 2 && path != 3 && !h.onF
	at := ""
	if h.onF {
		at = "@replica"
	}
	if add {
		q := p
		if path == 1 {
			q.id = -1 // makeProposal derives a fresh id from name and time
		}
		v, why = h.judgeAdd(q, avail)
	} else {
		v, why = h.judgeRemove(p.id, avail)
	}
	err, m, pan := h.decide(add, p, path)
	kind := "remove"
	if add {
		kind = "add"
	}
	if pan != "" {
		x.Fail("C16", "membership-check-panic", kind+at, fmt.Sprintf("%s request %+v (path %d) against %s: %s", kind, p, path, h.describe(), pan), idx)
		return false, nil
	}
	accepted = err == nil
	es := "accepted"
	if err != nil {
		es = err.Error()
	}
	if !quiet {
		x.Logf("%s%s %+v path=%d -> %s; text: %s (%s)", kind, at, p, path, es, v, why)
		if h.onF {
			x.Probe("replica-" + why)
		} else {
			x.Probe(why)
		}
		x.Digest("mem", h.describe(), kind, p.id, p.name, p.addr, p.peer, path, accepted)
	}
	switch {
	case v == mustRefuse && accepted:
		x.Fail("C16", "forbidden-membership-change-accepted", why+at, fmt.Sprintf("%s request %+v (path %d) was accepted against %s; the property refuses it: %s", kind, p, path, h.describe(), why), idx)
	case v == mustAccept && !accepted:
		x.Fail("C16", "permitted-membership-change-refused", why+at, fmt.Sprintf("%s request %+v (path %d) was refused (%s) against %s; nothing in the property refuses it: %s", kind, p, path, es, h.describe(), why), idx)
	}
	return accepted && v != mustRefuse, m
}

func (h *memH) describe() string {
	s := fmt.Sprintf("leader=%d members=[", h.self)
	if h.onF {
		s = "replica members=["
	}
	for _, id := range h.sortedIDs(h.members) {
		m := h.members[id]
		hs := "H"
		if h.onF {
			hs = "-"
		} else if !h.isHealthy(id) {
			hs = [...]string{"H", "probe", "snap", "lag", "H"}[h.health[id]]
		}
		s += fmt.Sprintf("%d(n%d a%d p%d %s) ", id, m.name, m.addr, m.peer, hs)
	}
	s += "] removed=["
	for _, id := range h.sortedIDs(h.removed) {
		m := h.removed[id]
		s += fmt.Sprintf("%d(n%d a%d p%d) ", id, m.name, m.addr, m.peer)
	}
	return s + "]"
}

// sweep: every health vector of (up to four) followers x every removal target, and every
// combination of fresh/duplicated attributes of an addition, at the current composition.
func (h *memH) sweep(idx int) {
	x := h.x
	saved := map[int]int{}
	for k, v := range h.health {
		saved[k] = v
	}
	defer func() { h.health = saved; h.publish() }()
	var fol []int
	for _, id := range h.sortedIDs(h.members) {
		if id != h.self && len(fol) < 4 {
			fol = append(fol, id)
		}
	}
	targets := append(h.sortedIDs(h.members), h.sortedIDs(h.removed)...)
	targets = append(targets, nPool-1) // never a member
	sum := sha256.New()
	nvec := 1
	for range fol {
		nvec *= 3
	}
	states := [3]int{hHealthy, hProbe, hSnapshot}
	for vec := 0; vec < nvec; vec++ {
		v := vec
		for _, f := range fol {
			h.health[f] = states[v%3]
			v /= 3
		}
		h.publish()
		for _, t := range targets {
			ok, _ := h.check(false, prof{id: t}, 0, idx, true)
			fmt.Fprintf(sum, "%d/%d:%v;", vec, t, ok)
			x.Count("sweep-decisions", 1)
			if x.Failed() {
				return
			}
		}
		if vec == 0 || vec == nvec-1 {
			// additions: all-healthy, and the last (all followers snapshotting) vector
			ids := []int{-1}
			ids = append(ids, targets...)
			attrs := []int{nPool - 1}
			for _, id := range h.sortedIDs(h.members) {
				attrs = append(attrs, id)
			}
			for _, id := range h.sortedIDs(h.removed) {
				attrs = append(attrs, id)
			}
			for _, i := range ids {
				for _, n := range attrs {
					for _, a := range attrs {
						for _, pe := range attrs {
							p := prof{id: i}
							p.name, p.addr, p.peer = h.attrOf(n).name, h.attrOf(a).addr, h.attrOf(pe).peer
							ok, _ := h.check(true, p, 0, idx, true)
							fmt.Fprintf(sum, "a%d/%d/%d/%d:%v;", i, n, a, pe, ok)
							x.Count("sweep-decisions", 1)
							if x.Failed() {
								return
							}
						}
					}
				}
			}
		}
	}
	x.Probe("sweep")
	x.Logf("sweep over %d health vectors at %s: %s", nvec, h.describe(), hex.EncodeToString(sum.Sum(nil)[:8]))
}

// attrOf returns the attributes of member/removed member id, or fresh ones.
func (h *memH) attrOf(id int) prof {
	if m, ok := h.members[id]; ok {
		return m
	}
	if m, ok := h.removed[id]; ok {
		return m
	}
	return prof{id: id, name: id, addr: id, peer: id}
}

// ---- the lagging replica -------------------------------------------------------------------

// replicate hands one conf change the leader has applied to the replica, the way a node applies
// a committed conf change entry (raftServer.applyConfChange: ValidateConfChangeEntry, then
// addMember/removeMember; an entry that fails validation is skipped). The replica judges it
// against its OWN history, which differs from the leader's when it missed earlier changes.
func (h *memH) replicate(add bool, p prof, idx int) {
	h.onFollower(func() {
		q := p
		if !add {
			q = prof{id: p.id}
		}
		ok, m := h.check(add, q, 2, idx, false)
		if h.x.Failed() || !ok || m == nil {
			h.x.Probe("replica-skipped-conf-change")
			return
		}
		if add {
			if err := h.cl.VerifAddMember(m, true); err != nil {
				h.x.Fail("C16", "accepted-change-not-applicable", "add@replica", fmt.Sprintf("addMember(%+v) on the replica after acceptance: %v", p, err), idx)
				return
			}
			h.members[p.id] = p
		} else {
			if err := h.cl.VerifRemoveMember(m); err != nil {
				h.x.Fail("C16", "accepted-change-not-applicable", "remove@replica", fmt.Sprintf("removeMember(%d) on the replica after acceptance: %v", p.id, err), idx)
				return
			}
			h.removed[p.id] = h.members[p.id]
			delete(h.members, p.id)
		}
		h.x.Probe("replica-applied-conf-change")
	})
}

func memberList(ms []*consensus.Member) string {
	out := make([]string, 0, len(ms))
	for _, m := range ms {
		out = append(out, fmt.Sprintf("%x/%s/%s/%x", m.ID, m.Name, m.Address, sha256.Sum256(m.PeerID)))
	}
	sort.Strings(out)
	return fmt.Sprint(out)
}

func (h *memH) modelList(m map[int]prof) string {
	var ms []*consensus.Member
	for _, id := range h.sortedIDs(m) {
		q := m[id]
		q.id = id
		ms = append(ms, q.member())
	}
	return memberList(ms)
}

// stateDiff compares the three member sets of a real cluster with a model; "" = equal.
func (h *memH) stateDiff(cl *raftv2.Cluster, mem, rem map[int]prof) string {
	var got [3]string
	if p := sutCall(func() {
		got[0], got[1], got[2] = memberList(cl.Members().ToArray()), memberList(cl.AppliedMembers().ToArray()), memberList(cl.RemovedMembers().ToArray())
	}); p != "" {
		return p
	}
	want := [3]string{h.modelList(mem), h.modelList(mem), h.modelList(rem)}
	for i, n := range [3]string{"members", "applied members", "removed members"} {
		if got[i] != want[i] {
			return fmt.Sprintf("%s = %s, expected %s", n, got[i], want[i])
		}
	}
	for _, id := range h.sortedIDs(rem) {
		if !cl.IsIDRemoved(poolID(id)) {
			return fmt.Sprintf("IsIDRemoved(%d) is false for a removed member", id)
		}
	}
	for _, id := range h.sortedIDs(mem) {
		if cl.IsIDRemoved(poolID(id)) {
			return fmt.Sprintf("IsIDRemoved(%d) is true for a current member", id)
		}
	}
	return ""
}

func sameKeys(a, b map[int]prof) bool {
	if len(a) != len(b) {
		return false
	}
	for k := range a {
		if _, ok := b[k]; !ok {
			return false
		}
	}
	return true
}

// snapshot: the leader builds snapshot data with the real createSnapshotData, the replica runs
// the real Cluster.Recover on it (raftServer.publishSnapshot does). Afterwards the replica's
// member sets must be the leader's, and it must refuse what the leader refuses.
func (h *memH) snapshot(idx int) {
	x := h.x
	if d := h.stateDiff(h.cl, h.members, h.removed); d != "" {
		x.Fail("C16", "cluster-state-differs", "leader", "the leader's cluster after the applied changes: "+d+" ("+h.describe()+")", idx)
		return
	}
	var nodes []uint64
	for _, id := range h.sortedIDs(h.members) {
		nodes = append(nodes, poolID(id))
	}
	h.snapSeq++
	blk := &types.Block{Header: &types.BlockHeader{ChainID: walChainID, BlockNo: h.snapSeq, Timestamp: int64(h.snapSeq)}, Body: &types.BlockBody{}}
	blk.BlockHash()
	cs := raftpb.ConfState{Nodes: nodes}
	var (
		sd  *consensus.SnapshotData
		err error
	)
	if p := sutCall(func() { sd, err = raftv2.VerifCreateSnapshotData(h.cl, blk, &cs) }); p != "" || err != nil || sd == nil {
		panic(fmt.Sprintf("raftw: createSnapshotData: %v %s", err, p))
	}
	data, err := sd.Encode()
	if err != nil {
		panic(err)
	}
	snap := &raftpb.Snapshot{Data: data, Metadata: raftpb.SnapshotMetadata{Index: leaderLast + h.snapSeq, Term: 3, ConfState: cs}}
	// what the replica missed
	lag := false
	for _, id := range h.sortedIDs(h.removed) {
		_, a := h.fmem[id]
		_, b := h.frem[id]
		switch {
		case !a && !b:
			x.Probe("follower-missed-add-and-remove")
			lag = true
		case a:
			x.Probe("follower-missed-remove")
			lag = true
		}
	}
	for _, id := range h.sortedIDs(h.members) {
		if _, a := h.fmem[id]; !a {
			x.Probe("follower-missed-add")
			lag = true
		}
	}
	if lag && sameKeys(h.fmem, h.members) {
		x.Probe("follower-same-members-stale-removed-set")
	}
	if lag {
		x.Fault("replica-partitioned")
	}
	var same bool
	if p := sutCall(func() { same, err = h.fl.Recover(snap) }); p != "" || err != nil {
		x.Fail("C16", "recover-from-snapshot-failed", "replica", fmt.Sprintf("Cluster.Recover on the replica: %v %s", err, p), idx)
		return
	}
	if same {
		x.Probe("follower-snapshot-nothing-new")
	} else {
		x.Probe("follower-recovered-from-snapshot")
	}
	x.Logf("snapshot #%d -> replica (lagging=%v, skipped=%v)", h.snapSeq, lag, same)
	if d := h.stateDiff(h.fl, h.members, h.removed); d != "" {
		x.Fail("C16", "replica-state-differs-after-snapshot", "replica", fmt.Sprintf("after Cluster.Recover from the leader's snapshot (%s) the replica's %s", h.describe(), d), idx)
		return
	}
	h.fmem, h.frem = map[int]prof{}, map[int]prof{}
	for k, v := range h.members {
		h.fmem[k] = v
	}
	for k, v := range h.removed {
		h.frem[k] = v
	}
	h.replicaSweep(idx)
}

// replicaSweep: the refusal oracle on the replica (validation of log entries, both entry points):
// every removal target, and additions under every id with fresh or singly duplicated attributes.
func (h *memH) replicaSweep(idx int) {
	h.onFollower(func() {
		x := h.x
		targets := append(h.sortedIDs(h.members), h.sortedIDs(h.removed)...)
		targets = append(targets, nPool-1)
		for _, path := range []int{2, 3} {
			for _, t := range targets {
				h.check(false, prof{id: t}, path, idx, true)
				x.Count("replica-sweep-decisions", 1)
				if x.Failed() {
					return
				}
			}
			for _, i := range append([]int{-1}, targets...) {
				fresh := prof{i, nPool - 1, nPool - 1, nPool - 1}
				cands := []prof{fresh}
				for _, o := range targets {
					a := h.attrOf(o)
					c1, c2, c3 := fresh, fresh, fresh
					c1.name, c2.addr, c3.peer = a.name, a.addr, a.peer
					cands = append(cands, c1, c2, c3)
				}
				for _, c := range cands {
					h.check(true, c, path, idx, true)
					x.Count("replica-sweep-decisions", 1)
					if x.Failed() {
						return
					}
				}
			}
		}
		x.Probe("replica-sweep")
	})
}

func (w *World) runMembers(x *simkit.Ctx) {
	thorough := x.Case.Tier == "thorough"
	nsteps := x.CfgInt("steps", func(r *simkit.Rng) int {
		if thorough {
			return r.Range(10, 60)
		}
		return r.Range(6, 28)
	})
	n0 := x.CfgInt("nodes", func(r *simkit.Rng) int { return r.Range(1, 5) })
	self := x.CfgInt("self", func(r *simkit.Rng) int { return r.Intn(5) }) % n0
	raftv2.VerifQuiet()

	h := &memH{x: x, self: self, members: map[int]prof{}, removed: map[int]prof{}, health: map[int]int{}, node: &fakeNode{}}
	h.cl = raftv2.NewCluster(walChainID, nil, poolName(self), poolPeers[self], 0, nil)
	for i := 0; i < n0; i++ {
		p := prof{i, i, i, i}
		if err := h.cl.VerifAddMember(p.member(), true); err != nil {
			panic(err)
		}
		h.members[i] = p
	}
	h.cl.SetNodeID(poolID(self))
	h.cl.SetClusterID(0xC1)
	storage := raft.NewMemoryStorage()
	if err := storage.ApplySnapshot(raftpb.Snapshot{Metadata: raftpb.SnapshotMetadata{Index: leaderLast, Term: 3}}); err != nil {
		panic(err)
	}
	raftv2.VerifWireServer(h.cl, h.node, storage, poolID(self))
	h.publish()

	// the replica: another node of the same cluster (the first other initial member, or a node
	// that is about to join), started from the same initial configuration
	fself := nPool
	for i := 0; i < n0; i++ {
		if i != self {
			fself = i
			break
		}
	}
	h.fmem, h.frem = map[int]prof{}, map[int]prof{}
	h.fl = raftv2.NewCluster(walChainID, nil, poolName(fself), poolPeers[fself], 0, nil)
	for i := 0; i < n0; i++ {
		p := prof{i, i, i, i}
		if err := h.fl.VerifAddMember(p.member(), true); err != nil {
			panic(err)
		}
		h.fmem[i] = p
	}
	h.fl.SetNodeID(poolID(fself))
	h.fl.SetClusterID(0xC1)
	fstorage := raft.NewMemoryStorage()
	raftv2.VerifWireServer(h.fl, &fakeNode{}, fstorage, poolID(self))
	partitioned := false // generator state only: steps carry their own "missed" flag
	var addedInPartition []int

	pickAttr := func(r *simkit.Rng) int { return r.Intn(nPool - 1) }
	gen := func(r *simkit.Rng) *simkit.Step {
		if len(x.Case.Steps) >= nsteps {
			return nil
		}
		mem := h.sortedIDs(h.members)
		rem := h.sortedIDs(h.removed)
		path := r.Pick(6, 2, 2)
		apply := 0
		if r.Chance(3, 4) {
			apply = 1
		}
		if r.Chance(1, 6) {
			partitioned = !partitioned
			if !partitioned {
				addedInPartition = nil
			}
		}
		miss := 0
		if (partitioned && r.Chance(9, 10)) || (!partitioned && r.Chance(1, 12)) {
			miss = 1
		}
		lagging := !sameKeys(h.fmem, h.members) || !sameKeys(h.frem, h.removed)
		wSnap, wReq := 5, 6
		if lagging {
			wSnap = 14
		}
		switch r.Pick(22, 30, 30, 5, wSnap, wReq) {
		case 4:
			partitioned, addedInPartition = false, nil
			return &simkit.Step{Op: "snapshot"}
		case 5:
			// a request judged by the replica alone: a stale or replayed conf change entry
			fpath := 2 + r.Intn(2)
			all := append(append([]int{}, mem...), rem...)
			t := r.Intn(nPool)
			if len(all) > 0 && r.Chance(3, 4) {
				t = all[r.Intn(len(all))]
			}
			if r.Bool() {
				return &simkit.Step{Op: "frm", A: t, K: []int{fpath}}
			}
			q := prof{t, pickAttr(r), pickAttr(r), pickAttr(r)}
			if r.Bool() {
				f := nPool - 2
				q = prof{t, f, f, f}
			}
			return &simkit.Step{Op: "fadd", A: q.id, B: q.name, C: q.addr, N: q.peer, K: []int{fpath}}
		case 0:
			k := make([]int, nPool)
			mode := r.Pick(3, 2, 1)
			for i := range k {
				switch mode {
				case 0: // mostly healthy
					if r.Chance(1, 4) {
						k[i] = r.Range(1, nHealth-1)
					}
				case 1:
					k[i] = r.Intn(nHealth)
				}
			}
			return &simkit.Step{Op: "health", K: k}
		case 1:
			// an addition: fresh attributes, with some of them taken from a member or a removed member
			free := -1
			for i := 0; i < nPool-1; i++ {
				_, a := h.members[i]
				_, b := h.removed[i]
				if !a && !b {
					free = i
					break
				}
			}
			p := prof{pickAttr(r), pickAttr(r), pickAttr(r), pickAttr(r)}
			if free >= 0 && r.Chance(3, 4) {
				p = prof{free, free, free, free}
			}
			if len(rem) > 0 && r.Chance(1, 3) { // the removed member comes back
				q := h.removed[rem[r.Intn(len(rem))]]
				p = q
				if r.Chance(1, 3) && free >= 0 {
					p.id = free
				}
			}
			if len(mem) > 0 && r.Chance(1, 3) {
				q := h.members[mem[r.Intn(len(mem))]]
				switch r.Intn(4) {
				case 0:
					p.id = q.id
				case 1:
					p.name = q.name
				case 2:
					p.addr = q.addr
				case 3:
					p.peer = q.peer
				}
			}
			if partitioned && miss == 1 && apply == 1 && path != 1 {
				addedInPartition = append(addedInPartition, p.id)
			}
			return &simkit.Step{Op: "add", A: p.id, B: p.name, C: p.addr, N: p.peer, K: []int{path, apply, miss}}
		case 2:
			t := r.Intn(nPool)
			if len(mem) > 0 && r.Chance(3, 4) {
				t = mem[r.Intn(len(mem))]
			} else if len(rem) > 0 && r.Bool() {
				t = rem[r.Intn(len(rem))]
			}
			if partitioned && len(addedInPartition) > 0 && r.Bool() {
				// the member that joined while the replica was away leaves again
				t, miss, apply = addedInPartition[r.Intn(len(addedInPartition))], 1, 1
				if path == 1 {
					path = 0
				}
			}
			return &simkit.Step{Op: "rm", A: t, K: []int{path, apply, miss}}
		}
		return &simkit.Step{Op: "sweep"}
	}

	inPool := func(v int) int { return ((v % nPool) + nPool) % nPool }
	for {
		st, idx := x.Next(gen)
		if st == nil || x.Failed() {
			break
		}
		switch st.Op {
		case "health":
			for i := 0; i < nPool; i++ {
				h.health[i] = ((kAt(st.K, i) % nHealth) + nHealth) % nHealth
			}
			h.publish()
			x.Logf("health %s", h.describe())
			unhealthy := 0
			for _, id := range h.sortedIDs(h.members) {
				if !h.isHealthy(id) {
					unhealthy++
				}
			}
			if unhealthy > 0 {
				x.Fault("unhealthy-members")
			}
		case "add":
			p := prof{inPool(st.A), inPool(st.B), inPool(st.C), inPool(st.N)}
			path := kAt(st.K, 0) % 3
			ok, m := h.check(true, p, path, idx, false)
			if ok && kAt(st.K, 1) == 1 && path != 1 && len(h.members) < 5 && m != nil {
				if err := h.cl.VerifAddMember(m, true); err != nil {
					x.Fail("C16", "accepted-change-not-applicable", "add", fmt.Sprintf("addMember(%+v) after acceptance: %v", p, err), idx)
					break
				}
				h.members[p.id] = p
				h.health[p.id] = hHealthy
				h.publish()
				x.Probe("member-added")
				if kAt(st.K, 2) == 1 {
					x.Probe("replica-missed-conf-change")
				} else {
					h.replicate(true, p, idx)
				}
			}
		case "rm":
			p := prof{id: inPool(st.A)}
			path := kAt(st.K, 0) % 3
			ok, m := h.check(false, p, path, idx, false)
			if ok && kAt(st.K, 1) == 1 && p.id != h.self && m != nil {
				if path == 1 {
					// makeProposal keeps the completed member to itself; removal needs the stored attributes
					m = h.members[p.id].member()
				}
				if err := h.cl.VerifRemoveMember(m); err != nil {
					x.Fail("C16", "accepted-change-not-applicable", "remove", fmt.Sprintf("removeMember(%d) after acceptance: %v", p.id, err), idx)
					break
				}
				h.removed[p.id] = h.members[p.id]
				delete(h.members, p.id)
				h.publish()
				x.Probe("member-removed")
				x.Out.Nontrivial = true
				if kAt(st.K, 2) == 1 {
					x.Probe("replica-missed-conf-change")
				} else {
					h.replicate(false, p, idx)
				}
			}
		case "sweep":
			h.sweep(idx)
		case "snapshot":
			h.snapshot(idx)
		case "fadd", "frm":
			p := prof{inPool(st.A), inPool(st.B), inPool(st.C), inPool(st.N)}
			fpath := 2 + kAt(st.K, 0)%2
			h.onFollower(func() {
				if st.Op == "fadd" {
					h.check(true, p, fpath, idx, false)
				} else {
					h.check(false, prof{id: p.id}, fpath, idx, false)
				}
			})
		default:
			x.Noop()
		}
	}
}
