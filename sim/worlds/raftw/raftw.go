// Package raftw is the RAFT world (DESIGN.md 4.9): it decides C16 "raft log storage and
// membership: durable, truncating correctly, quorum-safe".
//
// Part A (wal.go): generated histories of the real raft WAL operations (chain.ChainDB raft
// methods and raftv2.WalDB) on the simulated disk, with a restart after every operation and a
// crash at every durable write unit of sampled operations, against a reference log model.
//
// Part B (member.go): the real raftv2.Cluster membership validation against all cluster
// compositions up to 5 nodes and health vectors (a fake raft.Node reports the chosen Progress),
// against the predicate of the property text.
package raftw

import (
	"testing"

	"github.com/aergoio/aergo/v2/zz_verif/simkit"
)

type World struct {
	Scratch string
	T       *testing.T
}

func (w *World) Name() string    { return "raft" }
func (w *World) Props() []string { return []string{"C16"} }

func init() {
	simkit.Register("raft", func(scratch string, t *testing.T) simkit.World { return &World{Scratch: scratch, T: t} })
}

// Run executes one case: the swarm knob "part" selects the WAL part (0) or the membership part (1).
func (w *World) Run(x *simkit.Ctx) {
	part := x.CfgInt("part", func(r *simkit.Rng) int { return r.Pick(7, 3) })
	if part == 0 {
		w.runWAL(x)
	} else {
		w.runMembers(x)
	}
}

// sutCall runs one call into the system under test and returns the text of a panic it raised
// ("" if none). A simulated crash of the disk is never swallowed here.
func sutCall(f func()) (panicked string) {
	defer func() {
		if r := recover(); r != nil {
			if isCrash(r) {
				panic(r)
			}
			panicked = "panic: " + panicText(r)
		}
	}()
	f()
	return ""
}
