// Package gov holds the GOV world: the real transaction executor (chain.NewTxExecutor ->
// executeTx -> executeGovernanceTx -> contract/system, contract/name) driven on real block
// states over a real chain state DB on a simulated disk, with a harness-chosen block height
// that jumps by amounts around the staking / voting lock periods (which are compile-time
// constants of 86 400 blocks and therefore unreachable through consecutive blocks).
//
// Every "block" is: new block state on the current root, the block's transactions through
// the tx executor, the block reward (incl. the DPoS voting reward drawn from the in-memory
// voting-power rank), Update, and then one of three endings that the real node has:
//
//	commit   Commit + UpdateRoot, then system.CommitParams(true)   (dpos.Status.Update, connected block)
//	reject   the block state is discarded, then the voting-power rank is reloaded from the
//	         current root and system.CommitParams(false)            (chain.executeBlock error path ->
//	                                                                 dpos.Status.Update rollback branch)
//	drop     the block state is discarded and nothing else happens  (the producer's own block refused as
//	                                                                 stale / generateBlock failing after
//	                                                                 the transactions ran: no reload)
//
// A reference model written from the property statement predicts, per transaction, whether
// it must be refused and what it may change; at every block boundary an independent walk
// of the persisted state is compared with the model and with the C15 invariants.
//
// Five swarm knobs switch on inputs / judgements for which the unchanged code has known
// findings (known_findings.json); a run ends at its first violation, so each is on in a
// minority of runs only and the rest of the search is not shadowed by them:
//
//	drop      producer-side dropped blocks occur (in-memory rank / parameters are not restored)
//	twins     the candidate universe contains the id of the negated key of candidate 0 (tie-break not total)
//	oddcand   the universe contains valid peer ids of 34 and 38 bytes (vote code assumes 39)
//	ranktree  the in-memory rank-order tree is compared too (it is corrupted by in-place key updates)
//	negparam  parameter votes may name "-5" (accepted; stored as 5, kept in memory as -5)
package gov

import (
	"context"
	"encoding/binary"
	"fmt"
	"math/big"
	"os"
	"sort"
	"strings"
	"testing"

	"github.com/aergoio/aergo-lib/db"
	"github.com/aergoio/aergo/v2/chain"
	"github.com/aergoio/aergo/v2/config"
	"github.com/aergoio/aergo/v2/consensus/impl/dpos"
	"github.com/aergoio/aergo/v2/contract"
	"github.com/aergoio/aergo/v2/contract/system"
	"github.com/aergoio/aergo/v2/internal/common"
	"github.com/aergoio/aergo/v2/internal/enc/base58"
	"github.com/aergoio/aergo/v2/state"
	"github.com/aergoio/aergo/v2/types"
	"github.com/aergoio/aergo/v2/zz_verif/simkit"
	"github.com/aergoio/aergo/v2/zz_verif/simnode"
)

type World struct {
	Scratch string
	T       *testing.T
}

func (w *World) Name() string    { return "gov" }
func (w *World) Props() []string { return []string{"C15"} }

func init() {
	simkit.Register("gov", func(scratch string, t *testing.T) simkit.World { return &World{Scratch: scratch, T: t} })
}

const prop = "C15"

// block endings
const (
	endCommit = 0
	endDrop   = 1
	endReject = 2
)

// candidate kinds of the universe
const (
	candNormal = iota
	candTwin   // same bytes after position 7 as another candidate (other key parity)
	candOdd    // a valid peer id that is not 39 bytes long
)

type cand struct {
	raw  []byte
	b58  string
	kind int
}

type env struct {
	x    *simkit.Ctx
	net  *simnode.Net
	node *simnode.Node
	hf   config.HardforkConfig

	store    db.DB
	sdb      *state.ChainStateDB
	root     []byte
	genCid   []byte
	coinbase []byte

	sd, vd uint64 // lock periods (from the compiled package)
	unit   *big.Int

	accts []*simnode.Account
	cands []cand
	names []string

	m        *model // committed model
	height   uint64
	blocks   int
	stepIdx  int
	pureV2   bool
	negParam bool // parameter votes may name a negative number (accepted by the code)
	rankTree bool // judge the in-memory rank-order tree too (knob; see the boundary oracle)

	sortSeen map[string]string // tallies digest -> stored ranking bytes (same tallies => same ranking)
}

var daoIDs = []string{"BPCOUNT", "STAKINGMIN", "GASPRICE", "NAMEPRICE"}

// values a DAO vote may name (index 0 is the popular one, so that thresholds are crossed)
var daoVals = map[string][]string{
	"BPCOUNT":    {"5", "3", "7", "101", "0"},
	"STAKINGMIN": {"5000000000000000000000", "20000000000000000000000", "10000000000000000000000", "500000001000000000000000000", "x"},
	"GASPRICE":   {"60000000000", "40000000000", "50000000000", "0", "-5"},
	"NAMEPRICE":  {"2000000000000000000", "500000000000000000", "1000000000000000000", "500000001000000000000000000", ""},
}

func (w *World) Run(x *simkit.Ctx) {
	thorough := x.Case.Tier == "thorough"
	hfmode := x.CfgInt("hf", func(r *simkit.Rng) int { return r.Pick(4, 2, 2, 1, 1) })
	nacc := x.CfgInt("accounts", func(r *simkit.Rng) int { return r.Range(3, 6) })
	// crowd runs: more voters (and more distinct values of one parameter) than any list bound in the
	// code (30 candidates per ballot / per stored ranking), with a scripted opening: everybody stakes
	// a different amount, everybody votes a different value, a lock period later the voters with the
	// least power vote again and leave
	crowd := x.CfgInt("crowd", func(r *simkit.Rng) int { return r.Pick(9, 1) }) == 1
	flipback := !crowd && x.CfgInt("flipback", func(r *simkit.Rng) int { return r.Pick(9, 1) }) == 1
	if flipback {
		hfmode = 0
	}
	if crowd {
		nacc = x.CfgInt("crowdsize", func(r *simkit.Rng) int { return r.Range(31, 40) })
		hfmode = 0
	}
	ncand := x.CfgInt("cands", func(r *simkit.Rng) int { return r.Range(3, 6) })
	public := x.CfgInt("public", func(r *simkit.Rng) int { return r.Pick(1, 1) }) == 1
	vault := x.CfgInt("vault", func(r *simkit.Rng) int { return r.Pick(1, 1) })
	cbmode := x.CfgInt("coinbase", func(r *simkit.Rng) int { return r.Pick(1, 2, 1) })
	twins := x.CfgInt("twins", func(r *simkit.Rng) int { return r.Pick(5, 1) })
	odd := x.CfgInt("oddcand", func(r *simkit.Rng) int { return r.Pick(5, 1) })
	drops := x.CfgInt("drop", func(r *simkit.Rng) int { return r.Pick(3, 1) })
	rankTree := x.CfgInt("ranktree", func(r *simkit.Rng) int { return r.Pick(4, 1) })
	negParam := x.CfgInt("negparam", func(r *simkit.Rng) int { return r.Pick(5, 1) })
	nblocks := x.CfgInt("blocks", func(r *simkit.Rng) int {
		if thorough {
			return r.Range(10, 40)
		}
		return r.Range(6, 18)
	})
	txper := x.CfgInt("txper", func(r *simkit.Rng) int { return r.Range(1, 6) })

	sd, vd := system.VerifStakingDelay(), system.VerifVotingDelay()
	never := types.BlockNo(1) << 40
	var hf config.HardforkConfig
	switch hfmode {
	case 0: // current rules from the first block
		hf = config.HardforkConfig{V2: 0, V3: 0, V4: 0, V5: 0}
	case 1: // v3 from the start, later versions arrive inside the run
		hf = config.HardforkConfig{V2: 0, V3: 0, V4: types.BlockNo(3 * sd), V5: types.BlockNo(9 * sd)}
	case 2: // v2 only
		hf = config.HardforkConfig{V2: 0, V3: never, V4: never, V5: never}
	case 3: // old rules first, the voting-power rank starts inside the run
		hf = config.HardforkConfig{V2: types.BlockNo(3 * sd), V3: types.BlockNo(5 * sd), V4: types.BlockNo(8 * sd), V5: types.BlockNo(12 * sd)}
	default: // old rules only
		hf = config.HardforkConfig{V2: never, V3: never, V4: never, V5: never}
	}

	scratch := fmt.Sprintf("%s/gov-%d", w.Scratch, os.Getpid())
	_ = os.RemoveAll(scratch)
	vaultBal := ""
	if vault == 1 {
		vaultBal = "5000000000000000000" // a few rewards, then the vault runs dry
	}
	net := simnode.NewNet(simnode.NetOpts{Scratch: scratch, NBP: 3, NAcc: nacc, Public: public, Hardfork: hf,
		Balance: "1000000000000000000000000", Vault: vaultBal})
	defer func() { net.Close(); _ = os.RemoveAll(scratch) }()

	var coinbase []byte
	switch cbmode {
	case 1:
		coinbase = simnode.NewAccount("coinbase", 0).Addr
	case 2:
		coinbase = net.Accounts[0].Addr
	}
	e := &env{x: x, net: net, hf: hf, sd: sd, vd: vd, coinbase: coinbase, accts: net.Accounts,
		unit: new(big.Int).Div(types.StakingMinimum, big.NewInt(4)), pureV2: hf.V2 == 0, rankTree: rankTree == 1, negParam: negParam == 1, sortSeen: map[string]string{}}
	e.node = net.AddNode(0, coinbase, "dpos")
	e.store = e.node.Disk.Store("state")
	e.sdb = e.node.CS.SDB()
	e.root = append([]byte{}, e.sdb.GetRoot()...)
	e.genCid = e.node.Best().GetHeader().GetChainID()

	// candidate universe: the genesis producers, further ordinary producer ids, and (by knob)
	// a "twin" of candidate 0 and ids of other lengths
	for i := 0; i < ncand; i++ {
		var raw []byte
		if i < len(net.BPIDs) {
			raw = []byte(net.BPIDs[i])
		} else {
			raw = peerID(i)
		}
		e.cands = append(e.cands, cand{raw: raw, b58: base58.Encode(raw), kind: candNormal})
	}
	if twins == 1 {
		t := append([]byte{}, e.cands[0].raw...)
		t[6] ^= 1 // 0x02 <-> 0x03: the id of the negated public key
		e.cands = append(e.cands, cand{raw: t, b58: base58.Encode(t), kind: candTwin})
	}
	if odd == 1 {
		a := append([]byte{0x12, 0x20}, simkit.Key32("oddcand", 1)...)                         // sha2-256 multihash (34 bytes)
		b := append([]byte{0x00, 0x24, 0x08, 0x01, 0x12, 0x20}, simkit.Key32("oddcand", 2)...) // ed25519 identity id (38 bytes)
		e.cands = append(e.cands, cand{raw: a, b58: base58.Encode(a), kind: candOdd}, cand{raw: b, b58: base58.Encode(b), kind: candOdd})
	}
	for i := 0; i < 4; i++ {
		e.names = append(e.names, fmt.Sprintf("govname%05d", i))
	}
	e.names = append(e.names, "GovName00000") // same name as names[0] up to case

	e.node.Do(func() {
		e.m = e.initialModel()
		if !e.boundary("genesis") {
			return
		}
		gen := func(r *simkit.Rng) *simkit.Step {
			if crowd && e.blocks < 3 {
				return e.crowdBlock(e.blocks)
			}
			if flipback && e.blocks < 2 {
				// one block in which a parameter's winning value crosses the threshold twice and ends
				// where it started: the only staker votes a new gas price, then a bigger staker
				// arrives and votes the value in force
				if e.blocks == 0 {
					return &simkit.Step{Op: "block", V: 1, A: endCommit, X: []simkit.Step{{Op: "stake", A: 0, V: 8}}}
				}
				return &simkit.Step{Op: "block", V: 1, A: endCommit, X: []simkit.Step{
					{Op: "votedao", A: 0, B: 2, C: 0}, {Op: "stake", A: 1, V: 24}, {Op: "votedao", A: 1, B: 2, C: 2}}}
			}
			return e.genBlock(r, nblocks, txper, drops == 1)
		}
		for {
			st, idx := x.Next(gen)
			if st == nil || x.Failed() {
				break
			}
			e.stepIdx = idx
			if st.Op != "block" {
				x.Noop()
				continue
			}
			e.doBlock(st)
			if x.Failed() {
				break
			}
		}
	})
	x.Out.SimMs = int64(e.height) * 1000
}

// crowdBlock is the scripted opening of a crowd run.
func (e *env) crowdBlock(k int) *simkit.Step {
	n := len(e.accts)
	switch k {
	case 0:
		st := &simkit.Step{Op: "block", V: 1, A: endCommit}
		for a := 0; a < n; a++ {
			st.X = append(st.X, simkit.Step{Op: "stake", A: a, V: int64(4 + a)})
		}
		return st
	case 1:
		st := &simkit.Step{Op: "block", V: 1, A: endCommit}
		for a := 0; a < n; a++ {
			st.X = append(st.X, simkit.Step{Op: "votedao", A: a, B: 2, C: 10 + a})
		}
		return st
	}
	d := e.sd
	if e.vd > d {
		d = e.vd
	}
	return &simkit.Step{Op: "block", V: int64(d + 1), A: endCommit, X: []simkit.Step{
		{Op: "votedao", A: 0, B: 2, C: 10 + n}, {Op: "unstake", A: 1, V: 0}, {Op: "votedao", A: 2, B: 2, C: 10 + n - 1}}}
}

// peerID derives the i-th ordinary (secp256k1, 39-byte) producer id.
func peerID(i int) []byte {
	a := simnode.NewAccount("cand", i)
	pk := a.Priv.PubKey().SerializeCompressed()
	return append([]byte{0x00, 0x25, 0x08, 0x02, 0x12, 0x21}, pk...)
}

// ---------------------------------------------------------------------------------------
// generation

func (e *env) genBlock(r *simkit.Rng, nblocks, txper int, drops bool) *simkit.Step {
	if e.blocks >= nblocks {
		return nil
	}
	m := e.m
	// height: jump around the lock periods, often aimed at one account's expiry
	var delta uint64
	focus := -1
	var staked []int
	for i, a := range m.accts {
		if a.hasStake {
			staked = append(staked, i)
		}
	}
	switch {
	case len(staked) > 0 && r.Chance(3, 5):
		focus = staked[r.Intn(len(staked))]
		target := m.accts[focus].when + e.sd + uint64(r.Pick(2, 3, 2)) - 1 // one before, exactly at, one after expiry
		if target > e.height {
			delta = target - e.height
		} else {
			delta = uint64(1 + r.Intn(3))
		}
	default:
		switch r.Pick(3, 1, 2, 2, 2, 1, 1) {
		case 0:
			delta = 1
		case 1:
			delta = uint64(2 + r.Intn(50))
		case 2:
			delta = e.sd - 1
		case 3:
			delta = e.sd
		case 4:
			delta = e.sd + 1
		case 5:
			delta = 2*e.sd + uint64(r.Intn(5))
		default:
			delta = e.sd/2 + uint64(r.Intn(int(e.sd)))
		}
	}
	end := endCommit
	if r.Chance(1, 8) {
		end = endReject
	}
	if drops && r.Chance(1, 5) {
		end = endDrop
	}
	st := &simkit.Step{Op: "block", V: int64(delta), A: end}
	n := 1 + r.Intn(txper)
	for i := 0; i < n; i++ {
		st.X = append(st.X, e.genTx(r, focus))
	}
	return st
}

func (e *env) genTx(r *simkit.Rng, focus int) simkit.Step {
	m := e.m
	nacc := len(e.accts)
	a := r.Intn(nacc)
	if focus >= 0 && r.Chance(1, 2) {
		a = focus
	}
	acc := m.accts[a]
	// weights depend on what the account can meaningfully do
	wStake, wUnstake, wBP, wDAO := 4, 1, 1, 1
	if acc.stake.Sign() > 0 {
		wStake, wUnstake, wBP, wDAO = 2, 4, 5, 4
	}
	switch r.Pick(wStake, wUnstake, wBP, wDAO, 2, 2, 2) {
	case 0:
		v := int64(r.Pick(1, 1, 1, 3, 2, 1, 1, 1, 2, 1)) // quarters of the default minimum; 4 = exactly the minimum
		if r.Chance(1, 12) {
			v = 4_000 // more than the balance
		}
		return simkit.Step{Op: "stake", A: a, V: v, C: r.Pick(12, 1)} // C=1: plus one aer (no round amounts)
	case 1:
		v := int64(r.Pick(2, 2, 2, 2, 1, 1, 1, 1)) // 0 = everything
		return simkit.Step{Op: "unstake", A: a, V: v, C: r.Pick(12, 1)}
	case 2:
		// 0..4 distinct candidates; overlapping sets arise because the universe is small
		k := r.Pick(1, 4, 4, 2, 1)
		p := r.Perm(len(e.cands))
		if k > len(p) {
			k = len(p)
		}
		ks := append([]int{}, p[:k]...)
		if r.Chance(1, 25) && k > 0 {
			ks = append(ks, ks[0]) // duplicate: must be refused
		}
		return simkit.Step{Op: "votebp", A: a, K: ks}
	case 3:
		id := r.Intn(len(daoIDs))
		// V = written form of the number: 0 as is, 1 zero-padded to 39 characters (the length of a
		// producer id, which the ranking's tie-break treats specially), 2 zero-padded to 40, 3 with a "+"
		return simkit.Step{Op: "votedao", A: a, B: id, C: r.Pick(8, 3, 2, 1, 1), V: int64(r.Pick(12, 2, 1, 1))}
	case 4:
		to := r.Intn(nacc + 1) // nacc = the system account itself (a donation)
		if to == nacc && !r.Chance(1, 4) {
			to = r.Intn(nacc)
		}
		return simkit.Step{Op: "transfer", A: a, B: to, V: int64(1 + r.Intn(5000))}
	case 5:
		return simkit.Step{Op: "namecreate", A: a, B: r.Intn(len(e.names)), C: r.Pick(6, 2, 1)} // C: exact price / too little / more
	default:
		return simkit.Step{Op: "nameupdate", A: a, B: r.Intn(len(e.names)), N: r.Intn(nacc), C: r.Pick(6, 2, 1), V: int64(r.Pick(3, 1))} // V=1: sender given by name
	}
}

// ---------------------------------------------------------------------------------------
// one block

type pendingTx struct {
	st    *simkit.Step
	tx    *types.Tx
	from  int                            // paying account index
	what  string                         // human-readable
	apply func(w *model) (refuse string) // model transition; returns the refusal reason or ""
}

func (e *env) doBlock(st *simkit.Step) {
	x := e.x
	delta := uint64(st.V)
	if st.V <= 0 {
		delta = 1
	}
	h := e.height + delta
	ver := e.hf.Version(types.BlockNo(h))
	prevVer := e.hf.Version(types.BlockNo(e.height))
	if e.height > 0 && ver != prevVer {
		x.Probe("fork-version-switch")
	}
	e.blocks++
	end := st.A
	if end < 0 || end > 2 {
		end = endCommit
	}
	prevHash := common.Hasher([]byte(fmt.Sprintf("gov-prev-%d", e.height)))
	bi := &types.BlockHeaderInfo{No: types.BlockNo(h), Ts: int64(h) * 1e9, PrevBlockHash: prevHash,
		ChainId: types.MakeChainId(e.genCid, ver), ForkVersion: ver}
	bs := e.sdb.NewBlockState(e.root, state.SetPrevBlockHash(prevHash))
	bs.SetGasPrice(system.GetGasPrice())
	bs.Receipts().SetHardFork(&e.hf, types.BlockNo(h))
	ex := chain.NewTxExecutor(context.Background(), nil, e.node.CS.CDB(), bi, contract.ChainService)

	w := e.m.clone() // working copy: becomes the model only if the block is committed
	w.height, w.ver = h, ver
	x.Logf("block h=%d (+%d) v=%d end=%d", h, delta, ver, end)
	fees := new(big.Int)
	ntx := 0
	for i := range st.X {
		ts := &st.X[i]
		p := e.buildTx(ts, w, bi)
		if p == nil {
			x.Noop()
			continue
		}
		ntx++
		nrec := len(bs.Receipts().Get())
		var err error
		pan := catch(func() { err = ex(bs, types.NewTransaction(p.tx)) })
		if pan != "" {
			x.Fail(prop, "panic-in-execution", ts.Op+":"+sigOfPanic(pan),
				fmt.Sprintf("block %d: executing %s panicked: %s (in a producer the block is never produced while the tx is pooled; a validator dies)", h, p.what, firstLine(pan)), e.stepIdx)
			return
		}
		before := w.clone()
		refuse := p.apply(w)
		x.Count("tx."+ts.Op, 1)
		x.Logf(" tx %d %s -> err=%v model=%q", i, p.what, err, refuse)
		switch {
		case err == nil && refuse != "":
			x.Fail(prop, "accepted-but-must-be-refused", ts.Op+":"+refuse,
				fmt.Sprintf("block %d (fork version %d): %s was executed although it must be refused (%s)", h, ver, p.what, refuse), e.stepIdx)
			return
		case err != nil && refuse == "":
			x.Fail(prop, "refused-but-permitted", ts.Op,
				fmt.Sprintf("block %d (fork version %d): %s was refused (%v) although every stated precondition holds", h, ver, p.what, err), e.stepIdx)
			return
		case err != nil:
			*w = *before // nothing may change
			x.Count("tx.refused", 1)
			x.Probe("refused:" + ts.Op + ":" + refuse)
			if len(bs.Receipts().Get()) != nrec {
				x.Fail(prop, "refused-tx-left-effects", ts.Op+":receipt", fmt.Sprintf("block %d: %s was refused but left a receipt", h, p.what), e.stepIdx)
				return
			}
		default:
			x.Count("tx.accepted", 1)
			rs := bs.Receipts().Get()
			if len(rs) != nrec+1 {
				x.Fail(prop, "no-receipt", ts.Op, fmt.Sprintf("block %d: %s executed without a receipt", h, p.what), e.stepIdx)
				return
			}
			fee := new(big.Int).SetBytes(rs[nrec].FeeUsed)
			if rs[nrec].Status != "SUCCESS" {
				// only plain transfers can fail at run time here; they never do in this workload
				x.Fail(prop, "unexpected-receipt-status", ts.Op, fmt.Sprintf("block %d: %s got status %s (%s)", h, p.what, rs[nrec].Status, rs[nrec].Ret), e.stepIdx)
				return
			}
			if ts.Op != "transfer" && fee.Sign() != 0 {
				x.Fail(prop, "governance-fee", ts.Op, fmt.Sprintf("block %d: %s was charged a fee of %s", h, p.what, fee), e.stepIdx)
				return
			}
			w.accts[p.from].bal.Sub(w.accts[p.from].bal, fee)
			fees.Add(fees, fee)
		}
		// balances and nonces as the block state sees them now = model (exact amounts, no effect of refused txs)
		if !e.compareInBlock(bs, w, p.what, err) {
			return
		}
	}
	if ntx > 0 {
		x.Out.Nontrivial = true
	}
	// block reward as GatherTXs / blockExecutor.execute do (coinbase fees + DPoS voting reward)
	var rerr error
	pan := catch(func() { rerr = chain.SendBlockReward(bs, e.coinbase) })
	if pan != "" || rerr != nil {
		x.Fail(prop, "panic-in-execution", "reward:"+sigOfPanic(pan), fmt.Sprintf("block %d: block reward failed: %v %s", h, rerr, firstLine(pan)), e.stepIdx)
		return
	}
	if e.coinbase != nil && fees.Sign() > 0 {
		cb := w.otherOrAcct(e, e.coinbase)
		cb.Add(cb, fees)
	}
	if win := bs.Consensus(); len(win) > 0 {
		x.Probe("voting-reward-paid")
		reward := new(big.Int).Set(system.GetVotingRewardAmount())
		if v := w.other([]byte(types.AergoVault)); v.Cmp(reward) < 0 {
			reward.Set(v)
		}
		w.other([]byte(types.AergoVault)).Sub(w.other([]byte(types.AergoVault)), reward)
		wb := w.otherOrAcct(e, win)
		wb.Add(wb, reward)
		x.Logf(" voting reward %s -> %x", reward, win[:6])
		if e.pureV2 {
			if i := e.acctIndex(win); i < 0 || w.accts[i].power().Sign() == 0 {
				x.Fail(prop, "reward-to-non-voter", "winner", fmt.Sprintf("block %d: the voting reward went to %x, which has no recorded voting power", h, win[:6]), e.stepIdx)
				return
			}
		}
	}
	if err := bs.Update(); err != nil {
		panic(err)
	}

	switch end {
	case endCommit:
		if err := bs.Commit(); err != nil {
			panic(err)
		}
		if err := e.sdb.UpdateRoot(bs); err != nil {
			panic(err)
		}
		e.root = append([]byte{}, bs.GetRoot()...)
		system.CommitParams(true) // dpos.Status.Update, connected-block branch
		e.m = w
		e.height = h
		e.boundary(fmt.Sprintf("block %d", h))
	case endReject:
		// chain.executeBlock error path: cs.Update(bestBlock) -> dpos.Status.Update rollback branch
		x.Fault("block-rejected-after-execution")
		if err := dpos.InitVPR(e.sdb.OpenNewStateDB(e.root)); err != nil {
			panic(err)
		}
		system.CommitParams(false)
		e.height = h // the next block gets a later height all the same
		e.boundary(fmt.Sprintf("rejected block %d", h))
	case endDrop:
		// the producer's own block is refused as stale (or generateBlock fails after GatherTXs):
		// nothing is reloaded by the real code
		x.Fault("block-dropped-by-producer")
		e.height = h
		e.afterDrop(h, ntx)
	}
}

// afterDrop checks the in-memory mirrors right after a producer dropped an executed block.
func (e *env) afterDrop(h uint64, ntx int) {
	x := e.x
	live := system.VerifVprDump()
	re, err := system.VerifVprDumpReload(e.sysReader())
	if err != nil {
		panic(err)
	}
	if stripRank(live) != stripRank(re) || system.VerifVprPending() != 0 {
		x.Fail(prop, "vpr-differs-from-reload", "after-dropped-block",
			fmt.Sprintf("after the producer executed block %d and dropped it (block state discarded, as for a stale own block) the in-memory voting-power rank still carries the dropped block's votes:\nlive:\n%srebuilt from the best block's state:\n%s(pending changes: %d)", h, live, re, system.VerifVprPending()), e.stepIdx)
		return
	}
	if d := system.VerifParamsDump(); strings.Contains(d, "next=") {
		x.Fail(prop, "param-memory-differs-from-state", "after-dropped-block",
			fmt.Sprintf("after the producer executed block %d and dropped it, a parameter value decided in that block is still waiting in memory and will be applied by CommitParams(true) of the next connected block: %s", h, d), e.stepIdx)
		return
	}
	x.Logf("dropped block %d left the in-memory mirrors intact", h)
}

func catch(f func()) (p string) {
	defer func() {
		if r := recover(); r != nil {
			p = fmt.Sprintf("%v", r)
			if p == "" {
				p = "panic"
			}
		}
	}()
	f()
	return ""
}

func firstLine(s string) string {
	if i := strings.IndexByte(s, '\n'); i >= 0 {
		return s[:i]
	}
	return s
}

func sigOfPanic(p string) string {
	s := firstLine(p)
	var b strings.Builder
	for _, c := range s {
		if c >= '0' && c <= '9' {
			continue
		}
		b.WriteRune(c)
	}
	out := b.String()
	if len(out) > 80 {
		out = out[:80]
	}
	return out
}

func (e *env) acctIndex(addr []byte) int {
	for i, a := range e.accts {
		if string(a.Addr) == string(addr) {
			return i
		}
	}
	return -1
}

// compareInBlock reads balances and nonces through the block state and compares with the model.
func (e *env) compareInBlock(bs *state.BlockState, w *model, what string, xerr error) bool {
	chk := func(name string, addr []byte, bal *big.Int, nonce uint64, withNonce bool) bool {
		as, err := state.GetAccountState(addr, bs.StateDB)
		if err != nil {
			panic(err)
		}
		if as.Balance().Cmp(bal) != 0 {
			cls, sig := "wrong-balance-effect", "accepted"
			if xerr != nil {
				cls, sig = "refused-tx-left-effects", "balance"
			}
			e.x.Fail(prop, cls, sig, fmt.Sprintf("after %s (err=%v) the balance of %s is %s, the stated effects give %s (difference %s)", what, xerr, name, as.Balance(), bal, new(big.Int).Sub(as.Balance(), bal)), e.stepIdx)
			return false
		}
		if withNonce && as.Nonce() != nonce {
			cls, sig := "wrong-nonce-effect", "accepted"
			if xerr != nil {
				cls, sig = "refused-tx-left-effects", "nonce"
			}
			e.x.Fail(prop, cls, sig, fmt.Sprintf("after %s (err=%v) the nonce of %s is %d, expected %d", what, xerr, name, as.Nonce(), nonce), e.stepIdx)
			return false
		}
		return true
	}
	for i, a := range w.accts {
		if !chk(fmt.Sprintf("account %d", i), e.accts[i].Addr, a.bal, a.nonce, true) {
			return false
		}
	}
	for _, k := range w.otherKeys() {
		if !chk(fmt.Sprintf("%q", printable(k)), []byte(k), w.others[k], 0, false) {
			return false
		}
	}
	return true
}

func printable(k string) string {
	for _, c := range k {
		if c < 32 || c > 126 {
			return fmt.Sprintf("%x", k[:6])
		}
	}
	return k
}

// ---------------------------------------------------------------------------------------
// transactions

func (e *env) amount(v int64, plusOne int) *big.Int {
	a := new(big.Int).Mul(e.unit, big.NewInt(v))
	if plusOne == 1 {
		a.Add(a, big.NewInt(1))
	}
	return a
}

// buildTx turns a step into a signed transaction plus its model transition.
func (e *env) buildTx(ts *simkit.Step, w *model, bi *types.BlockHeaderInfo) *pendingTx {
	nacc := len(e.accts)
	if ts.A < 0 || ts.A >= nacc {
		return nil
	}
	a := ts.A
	acc := e.accts[a]
	cid := bi.ChainIdHash()
	h := w.height
	gov := func(account []byte, signer *simnode.Account, nonce uint64, recipient, payload string, amount *big.Int) *types.Tx {
		tx := simnode.SignedTx(signer, nonce, []byte(recipient), amount, types.TxType_GOVERNANCE, []byte(payload), cid, 0)
		if account != nil {
			tx.Body.Account = account
			tx.Hash = tx.CalculateTxHash()
		}
		return tx
	}
	nonce := w.accts[a].nonce + 1
	min := w.param("STAKINGMIN")
	switch ts.Op {
	case "stake":
		amt := e.amount(ts.V, ts.C)
		p := &pendingTx{st: ts, from: a, what: fmt.Sprintf("stake of %s by account %d (stake %s since block %d)", amt, a, w.accts[a].stake, w.accts[a].when)}
		p.tx = gov(nil, acc, nonce, types.AergoSystem, `{"Name":"v1stake"}`, amt)
		p.apply = func(w *model) string {
			ac := w.accts[a]
			switch {
			case ac.bal.Cmp(amt) < 0:
				return "balance"
			case ac.hasStake && ac.when+e.sd > h:
				if ac.when+e.sd == h+1 {
					e.x.Probe("stake-one-block-before-expiry")
				}
				return "lock"
			case new(big.Int).Add(ac.stake, amt).Cmp(min) < 0:
				return "minimum"
			}
			if ac.hasStake && ac.when+e.sd == h {
				e.x.Probe("stake-exactly-at-expiry")
			}
			if ac.hasStake {
				e.x.Probe("stake-added")
			}
			ac.stake.Add(ac.stake, amt)
			ac.hasStake, ac.when = true, h
			ac.bal.Sub(ac.bal, amt)
			w.sysBal().Add(w.sysBal(), amt)
			ac.nonce++
			return ""
		}
		return p
	case "unstake":
		amt := e.amount(ts.V, ts.C)
		if ts.V == 0 {
			amt = new(big.Int).Set(w.accts[a].stake)
		}
		p := &pendingTx{st: ts, from: a, what: fmt.Sprintf("unstake of %s by account %d (stake %s since block %d)", amt, a, w.accts[a].stake, w.accts[a].when)}
		p.tx = gov(nil, acc, nonce, types.AergoSystem, `{"Name":"v1unstake"}`, amt)
		p.apply = func(w *model) string {
			ac := w.accts[a]
			rest := new(big.Int).Sub(ac.stake, amt)
			switch {
			case ac.stake.Sign() == 0:
				return "no-stake"
			case rest.Sign() < 0:
				return "exceeds-stake"
			case ac.when+e.sd > h:
				if ac.when+e.sd == h+1 {
					e.x.Probe("unstake-one-block-before-expiry")
				}
				return "lock"
			case rest.Sign() != 0 && rest.Cmp(min) < 0:
				return "minimum"
			}
			if ac.when+e.sd == h {
				e.x.Probe("unstake-exactly-at-expiry")
			}
			ac.stake = rest
			ac.when = h
			ac.bal.Add(ac.bal, amt)
			w.sysBal().Sub(w.sysBal(), amt)
			ac.nonce++
			shrunk := false
			for k, v := range ac.votes {
				if v.amount.Cmp(rest) > 0 {
					v.amount = new(big.Int).Set(rest)
					shrunk = true
					if k == "voteBP" && len(v.cands) == 0 && rest.Sign() == 0 {
						delete(ac.votes, k) // a vote for nobody with no amount serialises to nothing: no record
					}
				}
			}
			if rest.Sign() == 0 {
				e.x.Probe("full-unstake")
			} else if shrunk {
				e.x.Probe("partial-unstake-shrinks-votes")
			}
			return ""
		}
		return p
	case "votebp":
		var args []string
		var raws [][]byte
		seen := map[int]bool{}
		dup := false
		for _, k := range ts.K {
			if k < 0 || k >= len(e.cands) {
				continue
			}
			if seen[k] {
				dup = true
			}
			seen[k] = true
			args = append(args, `"`+e.cands[k].b58+`"`)
			raws = append(raws, e.cands[k].raw)
			if e.cands[k].kind == candOdd {
				e.x.Probe("vote-for-non-39-byte-id")
			}
		}
		p := &pendingTx{st: ts, from: a, what: fmt.Sprintf("producer vote of account %d for candidates %v (stake %s, last action block %d)", a, ts.K, w.accts[a].stake, w.accts[a].when)}
		p.tx = gov(nil, acc, nonce, types.AergoSystem, `{"Name":"v1voteBP","Args":[`+strings.Join(args, ",")+`]}`, new(big.Int))
		p.apply = func(w *model) string {
			if dup {
				return "duplicate-candidate"
			}
			return e.applyVote(w, a, "voteBP", raws, h, false)
		}
		return p
	case "votedao":
		if ts.B < 0 || ts.B >= len(daoIDs) || ts.C < 0 || (ts.C >= 5 && (ts.C < 10 || daoIDs[ts.B] != "GASPRICE")) {
			return nil
		}
		id := daoIDs[ts.B]
		var val string
		if ts.C >= 10 {
			val = fmt.Sprint(50000000000 + int64(ts.C)) // crowd runs: as many distinct valid values as voters
			e.x.Probe("crowd-parameter-value")
		} else {
			val = daoVals[id][ts.C]
		}
		if val == "-5" && !e.negParam {
			val = "1e3" // not a decimal number
		}
		if ts.C < 3 {
			switch ts.V {
			case 1:
				val = strings.Repeat("0", 39-len(val)) + val
				e.x.Probe("parameter-value-39-characters")
			case 2:
				val = strings.Repeat("0", 40-len(val)) + val
			case 3:
				val = "+" + val
			}
		}
		p := &pendingTx{st: ts, from: a, what: fmt.Sprintf("parameter vote of account %d: %s=%q (stake %s, last action block %d)", a, id, val, w.accts[a].stake, w.accts[a].when)}
		arg0 := id
		if ts.C == 1 {
			arg0 = strings.ToLower(id) // ids are case-insensitive
		}
		p.tx = gov(nil, acc, nonce, types.AergoSystem, `{"Name":"v1voteDAO","Args":["`+arg0+`","`+val+`"]}`, new(big.Int))
		p.apply = func(w *model) string {
			if w.ver < 2 {
				return "not-supported-before-v2"
			}
			if ts.C >= 3 && ts.C < 10 && val != "-5" {
				return "invalid-value"
			}
			if val == "-5" {
				e.x.Probe("negative-parameter-value-offered")
			}
			return e.applyVote(w, a, id, [][]byte{[]byte(val)}, h, true)
		}
		return p
	case "transfer":
		amt := new(big.Int).Mul(big.NewInt(ts.V), big.NewInt(1e15))
		var to []byte
		toName := ""
		switch {
		case ts.B == nacc:
			to = []byte(types.AergoSystem)
			toName = "the system account"
		case ts.B >= 0 && ts.B < nacc:
			to = e.accts[ts.B].Addr
			toName = fmt.Sprintf("account %d", ts.B)
		default:
			return nil
		}
		p := &pendingTx{st: ts, from: a, what: fmt.Sprintf("transfer of %s from account %d to %s", amt, a, toName)}
		p.tx = simnode.SignedTx(acc, nonce, to, amt, types.TxType_TRANSFER, nil, cid, 0)
		p.apply = func(w *model) string {
			ac := w.accts[a]
			if ac.bal.Cmp(amt) < 0 {
				return "balance"
			}
			ac.bal.Sub(ac.bal, amt)
			if ts.B == nacc {
				w.sysBal().Add(w.sysBal(), amt)
				w.donated.Add(w.donated, amt)
				e.x.Probe("donation-to-system-account")
			} else {
				w.accts[ts.B].bal.Add(w.accts[ts.B].bal, amt)
			}
			ac.nonce++
			return ""
		}
		return p
	case "namecreate":
		if ts.B < 0 || ts.B >= len(e.names) {
			return nil
		}
		name := e.names[ts.B]
		price := w.param("NAMEPRICE")
		amt := new(big.Int).Set(price)
		switch ts.C {
		case 1:
			amt.Sub(amt, big.NewInt(1))
		case 2:
			amt.Add(amt, big.NewInt(1000))
		}
		p := &pendingTx{st: ts, from: a, what: fmt.Sprintf("creation of name %q by account %d for %s (price %s)", name, a, amt, price)}
		p.tx = gov(nil, acc, nonce, types.AergoName, `{"Name":"v1createName","Args":["`+name+`"]}`, amt)
		p.apply = func(w *model) string {
			ac := w.accts[a]
			key := strings.ToLower(name)
			switch {
			case ac.bal.Cmp(amt) < 0:
				return "balance"
			case amt.Cmp(price) < 0:
				return "below-price"
			case w.names[key] != nil:
				return "name-taken"
			}
			w.names[key] = &nameRec{owner: append([]byte{}, acc.Addr...), dest: append([]byte{}, acc.Addr...), createdAt: h}
			ac.bal.Sub(ac.bal, amt)
			w.nameBal().Add(w.nameBal(), amt)
			ac.nonce++
			e.x.Probe("name-created")
			return ""
		}
		return p
	case "nameupdate":
		if ts.B < 0 || ts.B >= len(e.names) || ts.N < 0 || ts.N >= nacc {
			return nil
		}
		name := e.names[ts.B]
		key := strings.ToLower(name)
		to := e.accts[ts.N]
		price := w.param("NAMEPRICE")
		amt := new(big.Int).Set(price)
		switch ts.C {
		case 1:
			amt.Sub(amt, big.NewInt(1))
		case 2:
			amt.Add(amt, big.NewInt(1000))
		}
		sender := a
		var account []byte
		byName := ts.V == 1
		if byName {
			// the sender is given by name: it resolves (as of the start of the block) to the name's destination
			rec := e.m.names[key]
			if rec == nil {
				return nil
			}
			sender = e.acctIndex(rec.dest)
			if sender < 0 {
				return nil
			}
			account = []byte(name)
		}
		signer := e.accts[sender]
		p := &pendingTx{st: ts, from: sender, what: fmt.Sprintf("update of name %q to account %d by account %d (by name: %v) for %s (price %s)", name, ts.N, sender, byName, amt, price)}
		p.tx = gov(account, signer, w.accts[sender].nonce+1, types.AergoName, `{"Name":"v1updateName","Args":["`+name+`","`+types.EncodeAddress(to.Addr)+`"]}`, amt)
		p.apply = func(w *model) string {
			ac := w.accts[sender]
			rec := w.names[key]
			switch {
			case ac.bal.Cmp(amt) < 0:
				return "balance"
			case amt.Cmp(price) < 0:
				return "below-price"
			case rec == nil:
				return "no-such-name"
			case !byName && string(rec.owner) != string(signer.Addr):
				return "not-the-owner"
			case rec.createdAt == h || e.m.names[key] == nil:
				return "created-in-this-block" // resolution reads the state as of the start of the block
			}
			rec.owner = append([]byte{}, to.Addr...)
			rec.dest = append([]byte{}, to.Addr...)
			ac.bal.Sub(ac.bal, amt)
			w.nameBal().Add(w.nameBal(), amt)
			ac.nonce++
			e.x.Probe("name-updated")
			if byName {
				e.x.Probe("name-updated-by-name")
			}
			return ""
		}
		return p
	}
	return nil
}

// applyVote is the model transition of a producer / parameter vote.
func (e *env) applyVote(w *model, a int, issue string, cands [][]byte, h uint64, dao bool) string {
	ac := w.accts[a]
	old := ac.votes[issue]
	switch {
	case ac.stake.Sign() == 0:
		return "no-stake"
	case old != nil && ac.when+e.vd > h:
		if ac.when+e.vd == h+1 {
			e.x.Probe("revote-one-block-before-expiry")
		}
		return "lock"
	}
	if old != nil {
		e.x.Probe("revote")
		if ac.when+e.vd == h {
			e.x.Probe("revote-exactly-at-expiry")
		}
		if !dao {
			ov := 0
			for _, c := range cands {
				for _, o := range old.cands {
					if string(c) == string(o) {
						ov++
					}
				}
			}
			if ov > 0 && (ov < len(cands) || ov < len(old.cands)) {
				e.x.Probe("revote-overlapping-candidates")
			}
		}
	}
	v := &vote{amount: new(big.Int).Set(ac.stake), ver: w.ver}
	for _, c := range cands {
		v.cands = append(v.cands, append([]byte{}, c...))
	}
	ac.votes[issue] = v
	ac.when = h
	ac.nonce++
	return ""
}

// ---------------------------------------------------------------------------------------
// model

type vote struct {
	cands  [][]byte
	amount *big.Int
	ver    int32 // fork version of the block that cast it
}

type acct struct {
	bal      *big.Int
	nonce    uint64
	hasStake bool
	stake    *big.Int
	when     uint64
	votes    map[string]*vote
}

// power is the account's voting power as the statement defines it: what it currently has on votes.
func (a *acct) power() *big.Int {
	p := new(big.Int)
	for _, v := range a.votes {
		if v != nil {
			p.Add(p, v.amount)
		}
	}
	return p
}

type nameRec struct {
	owner, dest []byte
	createdAt   uint64
}

type model struct {
	height  uint64
	ver     int32
	accts   []*acct
	others  map[string]*big.Int // balances of special / coinbase accounts by raw account bytes
	names   map[string]*nameRec // lower-case name -> record
	params  map[string]*big.Int // parameters in force for the block being built (read from persisted state)
	donated *big.Int            // plain transfers addressed to the system account
}

func (m *model) clone() *model {
	c := &model{height: m.height, ver: m.ver, others: map[string]*big.Int{}, names: map[string]*nameRec{}, params: map[string]*big.Int{}, donated: new(big.Int).Set(m.donated)}
	for _, a := range m.accts {
		b := &acct{bal: new(big.Int).Set(a.bal), nonce: a.nonce, hasStake: a.hasStake, stake: new(big.Int).Set(a.stake), when: a.when, votes: map[string]*vote{}}
		for k, v := range a.votes {
			if v == nil {
				continue
			}
			nv := &vote{amount: new(big.Int).Set(v.amount), ver: v.ver}
			for _, c := range v.cands {
				nv.cands = append(nv.cands, append([]byte{}, c...))
			}
			b.votes[k] = nv
		}
		c.accts = append(c.accts, b)
	}
	for k, v := range m.others {
		c.others[k] = new(big.Int).Set(v)
	}
	for k, v := range m.names {
		c.names[k] = &nameRec{owner: append([]byte{}, v.owner...), dest: append([]byte{}, v.dest...), createdAt: v.createdAt}
	}
	for k, v := range m.params {
		c.params[k] = v
	}
	return c
}

func (m *model) other(addr []byte) *big.Int {
	k := string(addr)
	if m.others[k] == nil {
		m.others[k] = new(big.Int)
	}
	return m.others[k]
}
func (m *model) sysBal() *big.Int  { return m.other([]byte(types.AergoSystem)) }
func (m *model) nameBal() *big.Int { return m.other([]byte(types.AergoName)) }
func (m *model) otherKeys() []string {
	var ks []string
	for k := range m.others {
		ks = append(ks, k)
	}
	sort.Strings(ks)
	return ks
}
func (m *model) param(id string) *big.Int { return m.params[id] }

func (e *env) initialModel() *model {
	m := &model{others: map[string]*big.Int{}, names: map[string]*nameRec{}, params: map[string]*big.Int{}, donated: new(big.Int)}
	for range e.accts {
		b, _ := new(big.Int).SetString("1000000000000000000000000", 10)
		m.accts = append(m.accts, &acct{bal: b, stake: new(big.Int), votes: map[string]*vote{}})
	}
	if v, ok := e.net.Genesis.Balance[types.AergoVault]; ok {
		b, _ := new(big.Int).SetString(v, 10)
		m.others[types.AergoVault] = b
	}
	m.sysBal()
	m.nameBal()
	if e.coinbase != nil {
		if i := e.acctIndex(e.coinbase); i < 0 {
			m.other(e.coinbase)
		}
	}
	return m
}

// other() for an address that is one of the modelled accounts must hit the account, not the side table.
func (w *model) otherOrAcct(e *env, addr []byte) *big.Int {
	if i := e.acctIndex(addr); i >= 0 {
		return w.accts[i].bal
	}
	return w.other(addr)
}

func le64(v uint64) []byte {
	b := make([]byte, 8)
	binary.LittleEndian.PutUint64(b, v)
	return b
}
