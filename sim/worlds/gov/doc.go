// Package gov: see DESIGN.md section 4.
package gov
