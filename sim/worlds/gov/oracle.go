package gov

import (
	"bytes"
	"encoding/binary"
	"encoding/hex"
	"fmt"
	"math/big"
	"sort"
	"strings"

	"github.com/aergoio/aergo-lib/db"
	"github.com/aergoio/aergo/v2/contract/system"
	"github.com/aergoio/aergo/v2/internal/common"
	"github.com/aergoio/aergo/v2/internal/enc/proto"
	"github.com/aergoio/aergo/v2/pkg/trie"
	"github.com/aergoio/aergo/v2/state/statedb"
	"github.com/aergoio/aergo/v2/types"
	"github.com/aergoio/aergo/v2/types/dbkey"
	"github.com/aergoio/aergo/v2/zz_verif/simnode"
)

// The boundary oracle. Everything is decoded here from the raw storage slots found by an
// independent walk of the state trie (simnode.WalkState: trie key walk + raw store); the
// only things taken from the code under test are the storage key names (types/dbkey) and
// the ids of the votable parameters.

// walkState is simnode.WalkState (trie key walk + raw store, storage included) except that an
// account whose state encodes to nothing (nonce 0, balance 0, no code, no storage: e.g. the
// emptied vault) is a zero account, not a missing one.
func walkState(store db.DB, root []byte) (map[string]*simnode.AcctDump, error) {
	out := map[string]*simnode.AcctDump{}
	if len(root) == 0 {
		return out, nil
	}
	emptyHash := common.Hasher([]byte{})
	t := trie.NewTrie(root, common.Hasher, store)
	for _, k := range t.GetKeys() {
		vh, err := t.Get(k)
		if err != nil {
			return nil, err
		}
		raw := store.Get(vh)
		if len(raw) == 0 && !bytes.Equal(vh, emptyHash) {
			return nil, fmt.Errorf("state data %x of account %x missing in the store", vh, k)
		}
		st := &types.State{}
		if err := proto.Decode(raw, st); err != nil {
			return nil, err
		}
		d := &simnode.AcctDump{Nonce: st.Nonce, Balance: st.GetBalanceBigInt(), CodeHash: st.CodeHash, StorageRoot: common.Compactz(st.StorageRoot)}
		if len(d.StorageRoot) != 0 {
			d.Storage = map[string]string{}
			st := trie.NewTrie(d.StorageRoot, common.Hasher, store)
			for _, sk := range st.GetKeys() {
				svh, err := st.Get(sk)
				if err != nil {
					return nil, err
				}
				d.Storage[hex.EncodeToString(sk)] = string(store.Get(svh))
			}
		}
		out[hex.EncodeToString(k)] = d
	}
	return out, nil
}

func slotKey(k []byte) string {
	id := types.GetHashID(k)
	return hex.EncodeToString(id[:])
}

// sysReader opens the system account's storage at the committed root through a fresh state
// DB (nothing cached from the block states that ran before).
func (e *env) sysReader() *statedb.ContractState {
	scs, err := statedb.GetSystemAccountState(e.sdb.OpenNewStateDB(e.root))
	if err != nil {
		panic(err)
	}
	return scs
}

type rankEntry struct {
	cand   []byte
	amount *big.Int
}

// tieKey is the fixed tie-break of the ranking among equal tallies (types/vote.go): the
// candidate id read as a big-endian number, for 39-byte producer ids without their first 7 bytes.
func tieKey(c []byte) *big.Int {
	if len(c) == 39 {
		return new(big.Int).SetBytes(c[7:])
	}
	return new(big.Int).SetBytes(c)
}

func (e *env) fail(class, sig, detail string) bool {
	e.x.Fail(prop, class, sig, detail, e.stepIdx)
	return false
}

// boundary checks every C15 invariant on the state persisted under e.root against the
// committed model e.m and the in-memory mirrors, and loads the parameters in force for the next block.
func (e *env) boundary(what string) bool {
	x := e.x
	m := e.m
	w, err := walkState(e.store, e.root)
	if err != nil {
		return e.fail("state-unreadable", "walk", fmt.Sprintf("%s: %v", what, err))
	}
	sys := w[simnode.AcctKey([]byte(types.AergoSystem))]
	if sys == nil {
		sys = &simnode.AcctDump{Balance: new(big.Int), Storage: map[string]string{}}
	}
	if sys.Storage == nil {
		sys.Storage = map[string]string{}
	}
	used := map[string]bool{} // closed world: every slot of the system account must be accounted for
	slot := func(k []byte) ([]byte, bool) {
		sk := slotKey(k)
		used[sk] = true
		v, ok := sys.Storage[sk]
		return []byte(v), ok
	}

	// --- parameters: in force from the next block on = what is persisted now (or the default)
	for _, id := range daoIDs {
		raw, ok := slot(dbkey.SystemParam(id))
		val := system.DefaultParams[id]
		if ok && len(raw) > 0 {
			val = new(big.Int).SetBytes(raw)
			if m.params[id] != nil && m.params[id].Cmp(val) != 0 {
				x.Probe("parameter-changed-by-vote")
				x.Logf(" parameter %s: %s -> %s", id, m.params[id], val)
			}
		}
		if val == nil {
			return e.fail("param-memory-differs-from-state", "no-default", fmt.Sprintf("%s: parameter %s has neither a stored nor a default value", what, id))
		}
		live := system.GetParam(id)
		if live == nil || live.Cmp(val) != 0 {
			sig := id
			if live != nil && live.Sign() < 0 {
				sig = "negative-value"
			}
			return e.fail("param-memory-differs-from-state", sig,
				fmt.Sprintf("%s: parameter %s in memory is %v but the persisted state says %s (in-memory parameters: %s)", what, id, live, val, system.VerifParamsDump()))
		}
		m.params[id] = val
	}
	if d := system.VerifParamsDump(); strings.Contains(d, "next=") {
		return e.fail("param-memory-differs-from-state", "pending-next", fmt.Sprintf("%s: a next-block parameter value is still pending after the block boundary: %s", what, d))
	}

	// --- accounts: balances and nonces
	for i, a := range m.accts {
		d := w[simnode.AcctKey(e.accts[i].Addr)]
		if d == nil {
			d = &simnode.AcctDump{Balance: new(big.Int)}
		}
		if d.Balance.Cmp(a.bal) != 0 {
			return e.fail("account-differs", "balance", fmt.Sprintf("%s: persisted balance of account %d is %s, the stated effects give %s (difference %s)", what, i, d.Balance, a.bal, new(big.Int).Sub(d.Balance, a.bal)))
		}
		if d.Nonce != a.nonce {
			return e.fail("account-differs", "nonce", fmt.Sprintf("%s: persisted nonce of account %d is %d, expected %d", what, i, d.Nonce, a.nonce))
		}
	}
	for _, k := range m.otherKeys() {
		d := w[simnode.AcctKey([]byte(k))]
		if d == nil {
			d = &simnode.AcctDump{Balance: new(big.Int)}
		}
		if d.Balance.Cmp(m.others[k]) != 0 {
			return e.fail("account-differs", "balance-special", fmt.Sprintf("%s: persisted balance of %q is %s, the stated effects give %s", what, printable(k), d.Balance, m.others[k]))
		}
	}

	// --- stakes: record per account, sum, total, system balance
	sum := new(big.Int)
	stakes := make([]*big.Int, len(m.accts))
	nStakers := 0
	for i, a := range m.accts {
		raw, _ := slot(dbkey.SystemStaking(e.accts[i].Addr))
		amt := new(big.Int)
		var when uint64
		has := len(raw) > 0
		if has {
			if len(raw) < 8 {
				return e.fail("stake-record-differs", "undecodable", fmt.Sprintf("%s: staking record of account %d has %d bytes", what, i, len(raw)))
			}
			when = binary.LittleEndian.Uint64(raw[:8])
			amt.SetBytes(raw[8:])
		}
		stakes[i] = amt
		sum.Add(sum, amt)
		if amt.Sign() > 0 {
			nStakers++
		}
		if amt.Cmp(a.stake) != 0 || has != a.hasStake {
			return e.fail("stake-record-differs", "amount", fmt.Sprintf("%s: persisted stake of account %d is %s (record present: %v), the stated effects give %s (present: %v)", what, i, amt, has, a.stake, a.hasStake))
		}
		if has && when != a.when {
			return e.fail("stake-record-differs", "when", fmt.Sprintf("%s: the staking record of account %d says its last action was in block %d, it was in block %d", what, i, when, a.when))
		}
	}
	rawTotal, _ := slot(dbkey.SystemStakingTotal())
	total := new(big.Int).SetBytes(rawTotal)
	if total.Cmp(sum) != 0 {
		return e.fail("staking-total-mismatch", "total-vs-sum", fmt.Sprintf("%s: recorded staking total %s, sum of the individual stakes %s (difference %s)", what, total, sum, new(big.Int).Sub(total, sum)))
	}
	if held := new(big.Int).Sub(sys.Balance, m.donated); held.Cmp(total) != 0 {
		return e.fail("staking-total-mismatch", "total-vs-balance", fmt.Sprintf("%s: recorded staking total %s, but the system account holds %s (balance %s minus %s sent to it by plain transfers)", what, total, held, sys.Balance, m.donated))
	}

	// --- votes: record per (issue, account); amounts <= stake; tallies; ranking; totals
	issues := append([]string{"voteBP"}, daoIDs...)
	power := make([]*big.Int, len(m.accts)) // what each account has on votes
	for i := range power {
		power[i] = new(big.Int)
	}
	nVotes, nTies := 0, 0
	rankLen := 0
	for _, issue := range issues {
		dao := issue != "voteBP"
		key := []byte(issue)
		tally := map[string]*big.Int{}
		voteSum := new(big.Int)
		for i, a := range m.accts {
			raw, _ := slot(dbkey.SystemVote(key, e.accts[i].Addr))
			mv := a.votes[issue]
			if mv == nil {
				if len(raw) != 0 {
					return e.fail("vote-record-differs", "unexpected-record", fmt.Sprintf("%s: account %d has a %s vote record (%d bytes) although it has no vote there", what, i, issue, len(raw)))
				}
				continue
			}
			nVotes++
			// what the record must contain: the candidates as given, then the amount
			var candBytes []byte
			if dao {
				var qs []string
				for _, c := range mv.cands {
					qs = append(qs, `"`+string(c)+`"`)
				}
				js := []byte("[" + strings.Join(qs, ",") + "]")
				candBytes = append(le64(uint64(len(js))), js...)
			} else {
				for _, c := range mv.cands {
					candBytes = append(candBytes, c...)
				}
			}
			if len(raw) < len(candBytes) || !bytes.Equal(raw[:len(candBytes)], candBytes) {
				return e.fail("vote-record-differs", "candidates", fmt.Sprintf("%s: the %s vote record of account %d does not start with the candidates it voted for (record %x)", what, issue, i, raw))
			}
			amt := new(big.Int).SetBytes(raw[len(candBytes):])
			if amt.Cmp(stakes[i]) > 0 {
				return e.fail("vote-exceeds-stake", kindOf(dao), fmt.Sprintf("%s: account %d has %s on its %s vote but only %s staked", what, i, amt, issue, stakes[i]))
			}
			if amt.Cmp(mv.amount) != 0 {
				return e.fail("vote-record-differs", "amount", fmt.Sprintf("%s: the %s vote record of account %d carries %s, the stated effects give %s (stake %s)", what, issue, i, amt, mv.amount, stakes[i]))
			}
			power[i].Add(power[i], amt)
			voteSum.Add(voteSum, amt)
			for _, c := range mv.cands {
				if tally[string(c)] == nil {
					tally[string(c)] = new(big.Int)
				}
				tally[string(c)].Add(tally[string(c)], amt)
			}
		}
		// stored ranking (it is also where the tallies live)
		rawSort, _ := slot(dbkey.SystemVoteSort(key))
		list, derr := decodeRanking(rawSort, dao)
		if derr != "" {
			return e.fail("ranking-undecodable", kindOf(dao), fmt.Sprintf("%s: stored %s ranking: %s", what, issue, derr))
		}
		if !dao {
			rankLen = len(list)
		}
		inList := map[string]*big.Int{}
		for _, en := range list {
			if inList[string(en.cand)] != nil {
				return e.fail("ranking-duplicate-candidate", kindOf(dao), fmt.Sprintf("%s: candidate %s appears twice in the stored %s ranking", what, candName(en.cand, dao), issue))
			}
			inList[string(en.cand)] = en.amount
		}
		var all []string
		for c := range inList {
			all = append(all, c)
		}
		for c := range tally {
			if inList[c] == nil {
				all = append(all, c)
			}
		}
		sort.Strings(all)
		for _, c := range all {
			have, want := inList[c], tally[c]
			if have == nil {
				have = new(big.Int)
			}
			if want == nil {
				want = new(big.Int)
			}
			if have.Cmp(want) != 0 {
				return e.fail("tally-mismatch", kindOf(dao), fmt.Sprintf("%s: %s candidate %s has tally %s, the votes currently recorded for it add up to %s", what, issue, candName([]byte(c), dao), have, want))
			}
		}
		for i := 0; i+1 < len(list); i++ {
			a, b := list[i], list[i+1]
			switch c := a.amount.Cmp(b.amount); {
			case c < 0:
				return e.fail("ranking-not-sorted", "tally-order", fmt.Sprintf("%s: stored %s ranking has %s (%s) before %s (%s)", what, issue, candName(a.cand, dao), a.amount, candName(b.cand, dao), b.amount))
			case c == 0:
				nTies++
				if a.amount.Sign() > 0 {
					x.Probe("tie-between-voted-candidates")
				}
				switch t := tieKey(a.cand).Cmp(tieKey(b.cand)); {
				case t == 0:
					return e.fail("tie-break-not-total", kindOf(dao), fmt.Sprintf("%s: %s candidates %s and %s have the same tally %s and the tie-break cannot tell them apart (it ignores the first 7 bytes of the id), so their order depends on map iteration and sort internals, not on (tally, candidate)", what, issue, candName(a.cand, dao), candName(b.cand, dao), a.amount))
				case t > 0:
					return e.fail("ranking-not-sorted", "tie-break-order", fmt.Sprintf("%s: stored %s ranking lists %s before %s at equal tally %s, against the fixed tie-break", what, issue, candName(a.cand, dao), candName(b.cand, dao), a.amount))
				}
			}
		}
		if dao {
			rawT, _ := slot(dbkey.SystemVoteTotal(key))
			if t := new(big.Int).SetBytes(rawT); t.Cmp(voteSum) != 0 {
				return e.fail("vote-total-mismatch", "dao", fmt.Sprintf("%s: recorded total of %s votes is %s, the vote records add up to %s", what, issue, t, voteSum))
			}
		} else {
			used[slotKey(dbkey.SystemVoteTotal(key))] = true
		}
		// same tallies => same stored ranking, whatever the history
		var ts []string
		for _, c := range all {
			if tally[c] != nil && tally[c].Sign() != 0 || inList[c] != nil {
				t := inList[c]
				ts = append(ts, hex.EncodeToString([]byte(c))+"="+t.String())
			}
		}
		dig := issue + "|" + strings.Join(ts, ",")
		if prev, ok := e.sortSeen[dig]; ok {
			x.Probe("same-tallies-reached-again")
			if prev != string(rawSort) {
				return e.fail("ranking-depends-on-history", kindOf(dao), fmt.Sprintf("%s: the same %s tallies were reached twice in this run with different stored rankings", what, issue))
			}
		} else {
			e.sortSeen[dig] = string(rawSort)
		}
	}

	// --- closed world of the system account's storage
	for i := 0; i < 256; i++ {
		used[slotKey(dbkey.SystemVpr(uint8(i)))] = true
	}
	var extra []string
	for k := range sys.Storage {
		if !used[k] {
			extra = append(extra, k[:12])
		}
	}
	if len(extra) > 0 {
		sort.Strings(extra)
		return e.fail("unexpected-storage-slot", "system", fmt.Sprintf("%s: the system account has %d storage slots that belong to no known account, issue or parameter: %v", what, len(extra), extra))
	}

	// --- voting-power rank: memory = rebuilt from persisted state (= sum of the votes, when every vote was cast under v2+ rules)
	scs := e.sysReader()
	live := system.VerifVprDump()
	re, err := system.VerifVprDumpReload(scs)
	if err != nil {
		return e.fail("vpr-differs-from-reload", "reload-error", fmt.Sprintf("%s: %v", what, err))
	}
	if live != re {
		// voters, powers, total and bucket order decide rewards; the rank tree only orders the voters
		if ls, rs := stripRank(live), stripRank(re); ls != rs {
			if !e.pureV2 && strings.Contains(ls, "=-") {
				// votes cast before the v2 switch were never added to the rank, but shrinking them later subtracts from it
				return e.fail("vpr-differs-from-reload", "negative-power-after-v2-switch", fmt.Sprintf("%s: in-memory voting-power rank:\n%srebuilt from the persisted state:\n%s", what, live, re))
			}
			return e.fail("vpr-differs-from-reload", "at-boundary", fmt.Sprintf("%s: in-memory voting-power rank:\n%srebuilt from the persisted state:\n%s", what, live, re))
		}
		if e.rankTree {
			return e.fail("vpr-differs-from-reload", "rank-order-tree", fmt.Sprintf("%s: voters, powers and buckets agree, but the in-memory rank order (the voters sorted by power) is not the one rebuilt from the persisted state:\nin memory:\n%srebuilt:\n%s", what, live, re))
		}
		x.Probe("rank-order-tree-differs-from-reload")
	}
	if n := system.VerifVprPending(); n != 0 {
		return e.fail("vpr-differs-from-reload", "pending-changes", fmt.Sprintf("%s: %d voting-power changes are still buffered in memory after the block boundary", what, n))
	}
	if e.pureV2 {
		var ps []string
		tot := new(big.Int)
		for i := range m.accts {
			if power[i].Sign() > 0 {
				id := types.ToAccountID(e.accts[i].Addr)
				ps = append(ps, hex.EncodeToString(id[:6])+"="+power[i].String())
				tot.Add(tot, power[i])
			}
		}
		sort.Strings(ps)
		want := "total=" + tot.String() + "\npowers=" + strings.Join(ps, ",") + "\n"
		if !strings.HasPrefix(re, want) {
			return e.fail("vpr-differs-from-votes", "powers", fmt.Sprintf("%s: the persisted voting-power rank is\n%sbut the recorded votes give\n%s", what, re, want))
		}
		if tot.Sign() > 0 {
			x.Probe("voting-power-rank-checked-against-votes")
		}
	}
	ok := true
	if live == re { // (the package's comparison walks the rank tree and trusts its size counter)
		if ok, err = system.VerifVprEqualsReload(scs); err != nil {
			return e.fail("vpr-differs-from-reload", "reload-error", fmt.Sprintf("%s: %v", what, err))
		}
	}
	if !ok {
		// The package's comparison also covers a cached "lowest voter" pointer that nothing but that
		// comparison reads and that is not kept up to date (it stays on a voter whose power grew, and
		// ties are resolved by arrival order in memory but by bucket order on reload). It is not part of
		// the ranking the property speaks of, so a difference in that cache alone is only recorded.
		l, r, _ := system.VerifVprLowest(scs)
		if l == r {
			return e.fail("vpr-differs-from-reload", "package-equals", fmt.Sprintf("%s: the package's own comparison says the in-memory voting-power rank differs from a reload although voters, powers, rank order, buckets and the cached lowest voter agree\n%s", what, live))
		}
		x.Probe("lowest-voter-cache-differs-from-reload")
	}

	// --- names: one record per name, owner and destination as stated; nothing else in the name account
	nm := w[simnode.AcctKey([]byte(types.AergoName))]
	nmStorage := map[string]string{}
	if nm != nil && nm.Storage != nil {
		nmStorage = nm.Storage
	}
	nused := map[string]bool{}
	var nkeys []string
	for k := range m.names {
		nkeys = append(nkeys, k)
	}
	for _, n := range e.names {
		if m.names[strings.ToLower(n)] == nil {
			nkeys = append(nkeys, strings.ToLower(n))
		}
	}
	sort.Strings(nkeys)
	for _, k := range nkeys {
		sk := slotKey(dbkey.Name([]byte(k)))
		nused[sk] = true
		raw := []byte(nmStorage[sk])
		rec := m.names[k]
		if rec == nil {
			if len(raw) != 0 {
				return e.fail("name-record-differs", "unexpected", fmt.Sprintf("%s: name %q is bound in the persisted state although no creation succeeded", what, k))
			}
			continue
		}
		owner, dest, derr := decodeName(raw)
		if derr != "" {
			return e.fail("name-record-differs", "undecodable", fmt.Sprintf("%s: name %q: %s", what, k, derr))
		}
		if !bytes.Equal(owner, rec.owner) || !bytes.Equal(dest, rec.dest) {
			return e.fail("name-record-differs", "owner", fmt.Sprintf("%s: name %q is owned by %x -> %x in the persisted state, by %x -> %x according to the accepted transactions", what, k, owner[:min(6, len(owner))], dest[:min(6, len(dest))], rec.owner[:6], rec.dest[:6]))
		}
	}
	var nextra []string
	for k := range nmStorage {
		if !nused[k] {
			nextra = append(nextra, k[:12])
		}
	}
	if len(nextra) > 0 {
		sort.Strings(nextra)
		return e.fail("unexpected-storage-slot", "name", fmt.Sprintf("%s: the name account has storage slots that belong to no known name: %v", what, nextra))
	}

	x.Logf("boundary %s: root %x stakers=%d votes=%d total=%s ranking=%d ties=%d", what, e.root[:8], nStakers, nVotes, total, rankLen, nTies)
	x.Digest(m.ver, nStakers, nVotes, len(m.names), rankLen, nTies, total.String(), live)
	if nTies > 0 {
		x.Probe("tie-in-ranking")
	}
	return true
}

// stripRank removes the rank-order lines from a rank dump.
func stripRank(d string) string {
	var out []string
	for _, l := range strings.Split(d, "\n") {
		if strings.HasPrefix(l, "rank=") || strings.HasPrefix(l, "rank tree:") {
			continue
		}
		out = append(out, l)
	}
	return strings.Join(out, "\n")
}

func kindOf(dao bool) string {
	if dao {
		return "dao"
	}
	return "bp"
}

func candName(c []byte, dao bool) string {
	if dao {
		return fmt.Sprintf("%q", string(c))
	}
	return fmt.Sprintf("%x..%x(%dB)", c[:min(8, len(c))], c[max(0, len(c)-3):], len(c))
}

// decodeRanking parses a stored vote list: repeated (size LE64, record); a producer record is a
// 39-byte id followed by the tally, a parameter record is (size LE64, value text) followed by the tally.
func decodeRanking(data []byte, dao bool) ([]rankEntry, string) {
	var out []rankEntry
	for off := 0; off < len(data); {
		if off+8 > len(data) {
			return nil, "truncated size field"
		}
		sz := int(binary.LittleEndian.Uint64(data[off : off+8]))
		off += 8
		if sz < 0 || off+sz > len(data) {
			return nil, "record runs past the end"
		}
		rec := data[off : off+sz]
		off += sz
		if dao {
			if len(rec) < 8 {
				return nil, "parameter record shorter than its size field"
			}
			cs := int(binary.LittleEndian.Uint64(rec[:8]))
			if cs < 0 || 8+cs > len(rec) {
				return nil, "parameter value runs past its record"
			}
			out = append(out, rankEntry{cand: rec[8 : 8+cs], amount: new(big.Int).SetBytes(rec[8+cs:])})
		} else {
			if len(rec) < 39 {
				return nil, fmt.Sprintf("producer record of %d bytes", len(rec))
			}
			out = append(out, rankEntry{cand: rec[:39], amount: new(big.Int).SetBytes(rec[39:])})
		}
	}
	return out, ""
}

// decodeName parses a name record: version 1, (size LE64, owner), (size LE64, destination).
func decodeName(raw []byte) (owner, dest []byte, derr string) {
	if len(raw) < 17 || raw[0] != 1 {
		return nil, nil, fmt.Sprintf("record of %d bytes / unknown version", len(raw))
	}
	n := int(binary.LittleEndian.Uint64(raw[1:9]))
	if n < 0 || 9+n+8 > len(raw) {
		return nil, nil, "owner runs past the record"
	}
	owner = raw[9 : 9+n]
	k := int(binary.LittleEndian.Uint64(raw[9+n : 17+n]))
	if k < 0 || 17+n+k != len(raw) {
		return nil, nil, "destination does not end with the record"
	}
	return owner, raw[17+n:], ""
}
