package store

import (
	"bytes"
	"fmt"
	"math/big"
	"os"
	"sort"

	"github.com/aergoio/aergo/v2/state"
	"github.com/aergoio/aergo/v2/state/statedb"
	"github.com/aergoio/aergo/v2/types"
	"github.com/aergoio/aergo/v2/zz_verif/simdisk"
	"github.com/aergoio/aergo/v2/zz_verif/simkit"
)

// C12 — snapshots and revert of the working state (BlockState: account buffer +
// cache of staged contract storages), used the way the block executor uses it:
// block-level Snapshot/Rollback around "transactions", contract sessions
// (open, set/delete with nested handle-level savepoints, then stage or abandon),
// one Update+Commit per block, a new StateDB per block.
type C12 struct{ Scratch string }

func (w *C12) Name() string    { return "store-snap" }
func (w *C12) Props() []string { return []string{"C12"} }

type mAcct struct {
	bal, nonce int64
	exists     bool
}

type mState struct {
	acct map[int]mAcct
	stor map[int]map[int]string // contract -> key -> value ("" = absent)
}

func (m *mState) clone() *mState {
	c := &mState{acct: map[int]mAcct{}, stor: map[int]map[int]string{}}
	for k, v := range m.acct {
		c.acct[k] = v
	}
	for k, v := range m.stor {
		mm := map[int]string{}
		for a, b := range v {
			mm[a] = b
		}
		c.stor[k] = mm
	}
	return c
}

func acctID(i int) []byte { return append([]byte{0x02}, simkit.Key32("c12acct", i)...) }
func ctrID(i int) []byte  { return append([]byte{0x0C}, simkit.Key32("c12ctr", i)...) }
func skey(i int) []byte   { return []byte(fmt.Sprintf("k%d", i)) }

func (w *C12) Run(x *simkit.Ctx) {
	nA := x.CfgInt("accounts", func(r *simkit.Rng) int { return r.Range(1, 6) })
	nC := x.CfgInt("contracts", func(r *simkit.Rng) int { return r.Range(1, 4) })
	nK := x.CfgInt("keys", func(r *simkit.Rng) int { return r.Range(1, 8) })
	nsteps := x.CfgInt("steps", func(r *simkit.Rng) int {
		if x.Case.Tier == "thorough" {
			return r.Range(10, 120)
		}
		return r.Range(5, 50)
	})
	chunk := x.CfgInt("bulkchunk", func(r *simkit.Rng) int { return []int{0, 0, 1, 3, 7}[r.Intn(5)] })

	root := fmt.Sprintf("%s/c12-%d", w.Scratch, os.Getpid())
	disk := simdisk.New(root)
	defer disk.Unregister()
	disk.BulkChunk = chunk
	store := disk.Store("state")

	sdb := statedb.NewStateDB(store, nil, false)
	bs := state.NewBlockState(sdb)
	committed := &mState{acct: map[int]mAcct{}, stor: map[int]map[int]string{}}
	work := committed.clone()
	ctrExists := map[int]bool{} // contract account has an entry in the account trie (committed)
	workTouched := map[int]bool{}
	upd := committed.clone()          // model at the last Update (dirty is judged against it)
	pendingExists := map[int]bool{} // contracts whose storage root changed in an Update of this block
	noteUpdate := func() {
		for c := 0; c < nC; c++ {
			if !sameStor(work.stor[c], upd.stor[c]) {
				pendingExists[c] = true
			}
		}
		upd = work.clone()
	}
	type snap struct {
		s  state.BlockSnapshot
		m  *mState
		tt map[int]bool
	}
	var stack []snap
	var committedRoot []byte
	var valSeq int64 = 1

	readAll := func(b *state.BlockState, m *mState, what string, step int) bool {
		for a := 0; a < nA; a++ {
			as, err := state.GetAccountState(acctID(a), b.StateDB)
			if err != nil {
				x.Fail("C12", "read-error", what, err.Error(), step)
				return false
			}
			want := m.acct[a]
			if as.Balance().Int64() != want.bal || int64(as.Nonce()) != want.nonce {
				x.Fail("C12", "wrong-account-read", what, fmt.Sprintf("account %d: got balance=%v nonce=%d, model balance=%d nonce=%d (%s)", a, as.Balance(), as.Nonce(), want.bal, want.nonce, what), step)
				return false
			}
		}
		for c := 0; c < nC; c++ {
			cs, err := statedb.OpenContractStateAccount(ctrID(c), b.StateDB)
			if err != nil {
				x.Fail("C12", "read-error", what, err.Error(), step)
				return false
			}
			for k := 0; k < nK; k++ {
				got, err := cs.GetData(skey(k))
				if err != nil {
					x.Fail("C12", "read-error", what, err.Error(), step)
					return false
				}
				want := m.stor[c][k]
				if string(got) != want {
					x.Fail("C12", "wrong-storage-read", what, fmt.Sprintf("contract %d key %d: got %q, model %q (%s)", c, k, got, want, what), step)
					return false
				}
				if want != "" && !cs.HasKey(skey(k)) {
					x.Fail("C12", "wrong-haskey", what, fmt.Sprintf("contract %d key %d holds %q but HasKey is false", c, k, want), step)
					return false
				}
			}
		}
		return true
	}

	// freshRootOf builds a brand-new state from the model's surviving data only.
	freshRootOf := func(m *mState, exists map[int]bool) ([]byte, error) {
		d := simdisk.New(fmt.Sprintf("%s/c12fresh-%d", w.Scratch, os.Getpid()))
		defer d.Unregister()
		f := statedb.NewStateDB(d.Store("state"), nil, false)
		cs := make([]int, 0)
		for c := range m.stor {
			cs = append(cs, c)
		}
		sort.Ints(cs)
		for _, c := range cs {
			live := 0
			h, err := statedb.OpenContractStateAccount(ctrID(c), f)
			if err != nil {
				return nil, err
			}
			for k := 0; k < nK; k++ {
				if v := m.stor[c][k]; v != "" {
					_ = h.SetData(skey(k), []byte(v))
					live++
				}
			}
			if live > 0 {
				_ = statedb.StageContractState(h, f)
			} else if exists[c] {
				// the account entry survives with an empty storage root
				_ = f.PutState(types.ToAccountID(ctrID(c)), &types.State{})
			}
		}
		for a := 0; a < nA; a++ {
			ma := m.acct[a]
			if !ma.exists {
				continue
			}
			as, err := state.GetAccountState(acctID(a), f)
			if err != nil {
				return nil, err
			}
			as.AddBalance(big.NewInt(ma.bal))
			as.SetNonce(uint64(ma.nonce))
			_ = as.PutState()
		}
		if err := f.Update(); err != nil {
			return nil, err
		}
		return f.GetRoot(), nil
	}

	genSession := func(r *simkit.Rng) []simkit.Step {
		var out []simkit.Step
		n := r.Range(1, 6)
		depth := 0
		for i := 0; i < n; i++ {
			switch r.Pick(5, 3, 2, 2) {
			case 0:
				out = append(out, simkit.Step{Op: "set", A: r.Intn(nK), V: valSeq})
				valSeq++
			case 1:
				out = append(out, simkit.Step{Op: "del", A: r.Intn(nK)})
			case 2:
				out = append(out, simkit.Step{Op: "hsnap"})
				depth++
			case 3:
				if depth > 0 {
					j := r.Intn(depth)
					out = append(out, simkit.Step{Op: "hroll", A: j})
					depth = j
				}
			}
		}
		return out
	}
	gen := func(r *simkit.Rng) *simkit.Step {
		if len(x.Case.Steps) >= nsteps {
			return nil
		}
		// no stand-alone "update" step is generated: the node calls Update exactly once per
		// BlockState, right before Commit (see DESIGN.md, C12 notes); replaying one is allowed.
		switch r.Pick(20, 30, 12, 10, 8, 0, 3) {
		case 0:
			// C = 1: the write goes the way of the executor's failure path (tentative effects, Reset to the
			// state the account was loaded with, then the final charge)
			return &simkit.Step{Op: "put", A: r.Intn(nA), V: int64(r.Intn(1000)), B: r.Intn(50), C: r.Pick(3, 1)}
		case 1:
			return &simkit.Step{Op: "session", A: r.Intn(nC), B: r.Pick(3, 1), X: genSession(r)}
		case 2:
			return &simkit.Step{Op: "snapshot"}
		case 3:
			return &simkit.Step{Op: "rollback", A: r.Intn(4)}
		case 4:
			return &simkit.Step{Op: "commit"}
		case 5:
			return &simkit.Step{Op: "update"}
		}
		return &simkit.Step{Op: "reopen"}
	}

	for {
		st, idx := x.Next(gen)
		if st == nil || x.Failed() {
			break
		}
		switch st.Op {
		case "put":
			a := st.A % nA
			as, err := state.GetAccountState(acctID(a), bs.StateDB)
			if err != nil {
				x.Fail("C12", "read-error", "put", err.Error(), idx)
				break
			}
			if st.C == 1 {
				as.AddBalance(big.NewInt(7))
				as.SetNonce(as.Nonce() + 3)
				as.Reset()
				x.Probe("write-after-reset")
			}
			// set absolute values through the delta API the executor uses
			cur := as.Balance().Int64()
			if st.V >= cur {
				as.AddBalance(big.NewInt(st.V - cur))
			} else {
				as.SubBalance(big.NewInt(cur - st.V))
			}
			as.SetNonce(uint64(st.B))
			_ = as.PutState()
			work.acct[a] = mAcct{bal: st.V, nonce: int64(st.B), exists: true}
		case "session":
			c := st.A % nC
			h, err := statedb.OpenContractStateAccount(ctrID(c), bs.StateDB)
			if err != nil {
				x.Fail("C12", "read-error", "session", err.Error(), idx)
				break
			}
			if work.stor[c] == nil {
				work.stor[c] = map[int]string{}
			}
			start := h.Snapshot()
			view := map[int]string{}
			for k, v := range work.stor[c] {
				view[k] = v
			}
			type hs struct {
				rev statedb.Snapshot
				m   map[int]string
			}
			var hstack []hs
			cp := func(m map[int]string) map[int]string {
				o := map[int]string{}
				for k, v := range m {
					o[k] = v
				}
				return o
			}
			for _, s := range st.X {
				switch s.Op {
				case "set":
					v := fmt.Sprintf("v%d", s.V)
					_ = h.SetData(skey(s.A%nK), []byte(v))
					view[s.A%nK] = v
				case "del":
					_ = h.DeleteData(skey(s.A % nK))
					delete(view, s.A%nK)
				case "hsnap":
					hstack = append(hstack, hs{h.Snapshot(), cp(view)})
				case "hroll":
					if s.A < len(hstack) {
						x.Probe("handle-rollback")
						_ = h.Rollback(hstack[s.A].rev)
						view = cp(hstack[s.A].m)
						hstack = hstack[:s.A]
					}
				}
				// reads inside the session see the most recent non-reverted write
				for k := 0; k < nK; k++ {
					got, _ := h.GetData(skey(k))
					if string(got) != view[k] {
						x.Fail("C12", "wrong-storage-read", "in-session", fmt.Sprintf("contract %d key %d inside session: got %q, model %q", c, k, got, view[k]), idx)
					}
				}
			}
			if st.B == 0 { // success: stage
				_ = statedb.StageContractState(h, bs.StateDB)
				work.stor[c] = view
				workTouched[c] = true
			} else { // failure: the VM rolls the handle back to its savepoint and drops it
				x.Probe("session-abandoned")
				_ = h.Rollback(start)
			}
		case "snapshot":
			stack = append(stack, snap{bs.Snapshot(), work.clone(), cpb(workTouched)})
		case "rollback":
			if len(stack) == 0 {
				x.Noop()
				break
			}
			i := st.A % len(stack)
			if i < len(stack)-1 {
				x.Probe("nested-rollback")
			}
			x.Fault("rollback")
			if err := bs.Rollback(stack[i].s); err != nil {
				x.Fail("C12", "rollback-error", "rollback", err.Error(), idx)
				break
			}
			work = stack[i].m.clone()
			workTouched = cpb(stack[i].tt)
			stack = stack[:i]
		case "update":
			if err := bs.Update(); err != nil {
				x.Fail("C12", "update-error", "update", err.Error(), idx)
			}
			noteUpdate()
			stack = nil // the executor updates once, after the last transaction
		case "commit":
			if err := bs.Update(); err != nil {
				x.Fail("C12", "update-error", "commit", err.Error(), idx)
				break
			}
			if err := bs.Commit(); err != nil {
				x.Fail("C12", "commit-error", "commit", err.Error(), idx)
				break
			}
			stack = nil
			// which contract accounts now have an entry: dirtied storages
			noteUpdate()
			for c := range pendingExists {
				ctrExists[c] = true
			}
			pendingExists = map[int]bool{}
			committed = work.clone()
			workTouched = map[int]bool{}
			committedRoot = append([]byte{}, bs.GetRoot()...)
			fr, err := freshRootOf(committed, ctrExists)
			if err != nil {
				x.Fail("C12", "fresh-error", "commit", err.Error(), idx)
				break
			}
			if !bytes.Equal(fr, committedRoot) {
				x.Fail("C12", "reverted-write-in-root", "commit", fmt.Sprintf("root %x after history differs from root %x of a fresh state holding only the surviving writes", committedRoot, fr), idx)
				break
			}
			// new StateDB per block, as the chain does
			sdb = statedb.NewStateDB(store, committedRoot, false)
			bs = state.NewBlockState(sdb)
			x.Digest(fmt.Sprintf("%x", committedRoot))
		case "reopen":
			x.Fault("restart")
			sdb = statedb.NewStateDB(store, committedRoot, false)
			bs = state.NewBlockState(sdb)
			work = committed.clone()
			upd = committed.clone()
			pendingExists = map[int]bool{}
			workTouched = map[int]bool{}
			stack = nil
		default:
			x.Noop()
		}
		if x.Failed() {
			break
		}
		if !readAll(bs, work, "after-"+st.Op, idx) {
			break
		}
		if st.Op == "commit" || st.Op == "reopen" {
			// persisted data: a fresh instance over the store answers the same
			b2 := state.NewBlockState(statedb.NewStateDB(store, committedRoot, false))
			if !readAll(b2, committed, "reopened-after-"+st.Op, idx) {
				break
			}
		}
	}
}

func cpb(m map[int]bool) map[int]bool {
	o := map[int]bool{}
	for k, v := range m {
		o[k] = v
	}
	return o
}

func sameStor(a, b map[int]string) bool {
	for k, v := range a {
		if v != "" && b[k] != v {
			return false
		}
	}
	for k, v := range b {
		if v != "" && a[k] != v {
			return false
		}
	}
	return true
}
