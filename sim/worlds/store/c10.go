// Package store holds the STORE world: the sparse Merkle trie, the state DB, the
// Merkle proofs and the snapshot/revert machinery on the simulated disk.
package store

import (
	"testing"
	"bytes"
	"fmt"
	"os"
	"sort"

	"github.com/aergoio/aergo-lib/db"
	"github.com/aergoio/aergo/v2/internal/common"
	"github.com/aergoio/aergo/v2/pkg/trie"
	"github.com/aergoio/aergo/v2/zz_verif/simdisk"
	"github.com/aergoio/aergo/v2/zz_verif/simgo"
	"github.com/aergoio/aergo/v2/zz_verif/simkit"
)

// C10 — the trie is a persistent, history-independent map.
type C10 struct{ Scratch string }

func (w *C10) Name() string    { return "store-trie" }
func (w *C10) Props() []string { return []string{"C10"} }

// universe builds n 32-byte keys that collide on long prefixes.
func universe(seed uint64, n int, mode int) [][]byte {
	r := simkit.NewRng(simkit.Mix(seed, 0xC10))
	base := r.Bytes(32)
	keys := make([][]byte, 0, n)
	seen := map[string]bool{}
	prefixes := []int{0, 1, 2, 3, 4, 5, 7, 8, 9, 11, 12, 15, 16, 17, 31, 32, 63, 64, 127, 128, 200, 247, 248, 251, 252, 253, 254, 255}
	for len(keys) < n {
		k := append([]byte{}, base...)
		switch mode {
		case 0: // uniformly random
			k = r.Bytes(32)
		case 1: // share a prefix of L bits with base (or with an earlier key), differ at bit L
			src := base
			if len(keys) > 0 && r.Bool() {
				src = keys[r.Intn(len(keys))]
			}
			k = append([]byte{}, src...)
			L := prefixes[r.Intn(len(prefixes))]
			k[L/8] ^= 1 << uint(7-L%8)
			if r.Bool() { // randomise the tail
				t := r.Bytes(32)
				for b := L + 1; b < 256; b++ {
					if t[b/8]&(1<<uint(7-b%8)) != 0 {
						k[b/8] ^= 1 << uint(7-b%8)
					}
				}
			}
		default: // dense low bits: consecutive integers in the last byte(s)
			k = append([]byte{}, base...)
			k[31] = byte(len(keys))
			k[30] ^= byte(len(keys) >> 8)
		}
		if !seen[string(k)] {
			seen[string(k)] = true
			keys = append(keys, k)
		}
	}
	return keys
}

func val32(id int64) []byte { return simkit.Key32("trieval", int(id)) }

type trieBox struct {
	store db.DB
	tr    *trie.Trie
}

func sortedKV(keys [][]byte, m map[int]int64, idxs []int) ([][]byte, [][]byte) {
	sort.Slice(idxs, func(i, j int) bool { return bytes.Compare(keys[idxs[i]], keys[idxs[j]]) < 0 })
	ks := make([][]byte, len(idxs))
	vs := make([][]byte, len(idxs))
	for i, ix := range idxs {
		ks[i] = keys[ix]
		if v, ok := m[ix]; ok && v != 0 {
			vs[i] = val32(v)
		} else {
			vs[i] = trie.DefaultLeaf
		}
	}
	return ks, vs
}

// freshRoot builds a new trie in a private memory store from the model's pairs,
// in one sorted batch (parts==1) or in `parts` seeded sub-batches.
func freshRoot(keys [][]byte, model map[int]int64, parts int, r *simkit.Rng, limit int) ([]byte, error) {
	d := simdisk.New(fmt.Sprintf("/fresh/%p", &model))
	defer d.Unregister()
	tr := trie.NewTrie(nil, common.Hasher, d.Store("f"))
	tr.CacheHeightLimit = limit
	var live []int
	for ix, v := range model {
		if v != 0 {
			live = append(live, ix)
		}
	}
	sort.Ints(live)
	if parts <= 1 || len(live) < 2 {
		ks, vs := sortedKV(keys, model, live)
		if len(ks) == 0 {
			return nil, nil
		}
		if _, err := tr.Update(ks, vs); err != nil {
			return nil, err
		}
		_ = tr.Commit()
		return tr.Root, nil
	}
	p := r.Perm(len(live))
	for i := 0; i < len(live); {
		n := 1 + r.Intn(len(live)/parts+1)
		if i+n > len(live) {
			n = len(live) - i
		}
		var part []int
		for _, j := range p[i : i+n] {
			part = append(part, live[j])
		}
		ks, vs := sortedKV(keys, model, part)
		if _, err := tr.Update(ks, vs); err != nil {
			return nil, err
		}
		_ = tr.Commit()
		i += n
	}
	return tr.Root, nil
}

func cloneModel(m map[int]int64) map[int]int64 {
	c := make(map[int]int64, len(m))
	for k, v := range m {
		c[k] = v
	}
	return c
}

func (w *C10) Run(x *simkit.Ctx) {
	nkeys := x.CfgInt("nkeys", func(r *simkit.Rng) int { return []int{1, 2, 3, 4, 6, 8, 12, 16, 24, 32, 48, 64}[r.Intn(12)] })
	mode := x.CfgInt("keymode", func(r *simkit.Rng) int { return r.Pick(1, 4, 1) })
	nbatch := x.CfgInt("batches", func(r *simkit.Rng) int {
		if x.Case.Tier == "thorough" {
			return r.Range(3, 40)
		}
		return r.Range(2, 14)
	})
	limit := x.CfgInt("cachelimit", func(r *simkit.Rng) int { return []int{257, 257, 256, 252, 248, 240, 0}[r.Intn(7)] })
	commitMode := x.CfgInt("commitmode", func(r *simkit.Rng) int { return r.Intn(2) })
	chunk := x.CfgInt("bulkchunk", func(r *simkit.Rng) int { return []int{0, 0, 1, 2, 3, 5, 8}[r.Intn(7)] })
	faults := x.CfgInt("faults", func(r *simkit.Rng) int { return r.Pick(1, 2) })
	delpct := x.CfgInt("delpct", func(r *simkit.Rng) int { return []int{0, 10, 30, 50, 70}[r.Intn(5)] })
	schedSeed := x.CfgInt("sched", func(r *simkit.Rng) int { return int(r.U64() >> 33) })

	keys := universe(x.Case.Seed, nkeys, mode)
	root := fmt.Sprintf("%s/c10-%d", w.Scratch, os.Getpid())
	disk := simdisk.New(root)
	defer disk.Unregister()
	disk.BulkChunk = chunk
	sched := simkit.NewRng(uint64(schedSeed))
	simgo.Order = func() bool { return sched.Bool() }
	defer func() { simgo.Order = nil }()
	aux := simkit.NewRng(simkit.Mix(uint64(schedSeed), 7))
	disk.PermBulk = func(ops []simdisk.Op) []simdisk.Op {
		// every order of the node writes is legal (Go map iteration in CacheDB.commit);
		// the marker, when present, stays last as in StateDB.stage.
		n := len(ops)
		if n < 2 {
			return ops
		}
		last := ops[n-1]
		body := append([]simdisk.Op{}, ops[:n-1]...)
		sort.Slice(body, func(i, j int) bool { return bytes.Compare(body[i].K, body[j].K) < 0 })
		p := aux.Perm(len(body))
		out := make([]simdisk.Op, 0, n)
		for _, i := range p {
			out = append(out, body[i])
		}
		return append(out, last)
	}

	open := func(rt []byte, loadCache bool) (*trie.Trie, error) {
		tr := trie.NewTrie(rt, common.Hasher, disk.Store("state"))
		tr.CacheHeightLimit = limit
		if loadCache && len(rt) != 0 {
			if err := tr.LoadCache(rt); err != nil {
				return nil, err
			}
		}
		return tr, nil
	}
	tr, _ := open(nil, false)
	model := map[int]int64{}
	type hist struct {
		root  []byte
		model map[int]int64
	}
	var history []hist
	committedRoot := []byte(nil)
	committedModel := map[int]int64{}
	var nextVal int64 = 1

	checkAll := func(t *trie.Trie, m map[int]int64, what string, step int) bool {
		for ix, k := range keys {
			got, err := t.Get(k)
			if err != nil {
				x.Fail("C10", "get-error", what, fmt.Sprintf("Get(key %d) at %s: %v", ix, what, err), step)
				return false
			}
			want := []byte(nil)
			if v := m[ix]; v != 0 {
				want = val32(v)
			}
			if !bytes.Equal(got, want) {
				x.Fail("C10", "wrong-read", what, fmt.Sprintf("key %d (%x): got %x want %x (%s)", ix, k[:4], got, want, what), step)
				return false
			}
		}
		return true
	}

	gen := func(r *simkit.Rng) *simkit.Step {
		if len(x.Case.Steps) >= nbatch {
			return nil
		}
		c := r.Pick(70, 8, 10, 6*faults)
		if len(history) == 0 {
			c = 0
		}
		switch c {
		case 1:
			return &simkit.Step{Op: "reopen", A: r.Intn(2)}
		case 2:
			return &simkit.Step{Op: "hist", A: r.Intn(len(history) + 1)}
		case 3:
			if faults == 0 {
				return &simkit.Step{Op: "reopen"}
			}
			return &simkit.Step{Op: "crashbatch", A: r.Intn(6), B: r.Intn(4), X: genBatch(r, nkeys, delpct, &nextVal)}
		}
		return &simkit.Step{Op: "batch", X: genBatch(r, nkeys, delpct, &nextVal)}
	}

	applyBatch := func(st *simkit.Step, idx int) (changed bool, ok bool) {
		m := map[int]int64{}
		var idxs []int
		onlyAbsentDeletes := true
		for _, s := range st.X {
			if s.A < 0 || s.A >= nkeys {
				continue
			}
			if _, dup := m[s.A]; !dup {
				idxs = append(idxs, s.A)
			}
			if s.Op == "put" {
				m[s.A] = s.V
				onlyAbsentDeletes = false
			} else {
				m[s.A] = 0
				if model[s.A] != 0 {
					onlyAbsentDeletes = false
				}
			}
		}
		if len(idxs) == 0 {
			x.Noop()
			return false, true
		}
		ks, vs := sortedKV(keys, m, idxs)
		before := append([]byte{}, tr.Root...)
		var uerr error
		upanic := func() (p string) {
			defer func() {
				if r := recover(); r != nil {
					p = fmt.Sprint(r)
				}
			}()
			_, uerr = tr.Update(ks, vs)
			return ""
		}()
		if upanic != "" {
			// a sorted batch of puts/deletes is always a legal input: a panic of the trie is a violation
			x.Fail("C10", "update-panicked", "update", fmt.Sprintf("Update of a legal sorted batch (%d keys) panicked: %s", len(ks), upanic), idx)
			return false, false
		}
		if uerr != nil {
			x.Fail("C10", "update-error", "update", fmt.Sprintf("Update: %v", uerr), idx)
			return false, false
		}
		for k, v := range m {
			if v == 0 {
				delete(model, k)
			} else {
				model[k] = v
			}
		}
		if onlyAbsentDeletes {
			x.Probe("delete-absent-only")
			if !bytes.Equal(before, tr.Root) {
				x.Fail("C10", "delete-absent-changed-root", "update", "a batch deleting only absent keys changed the root", idx)
				return false, false
			}
		}
		if len(model) == 0 {
			x.Probe("trie-emptied")
		}
		return true, true
	}

	commit := func() {
		if commitMode == 0 {
			_ = tr.Commit()
			return
		}
		b := disk.Store("state").NewBulk()
		tr.StageUpdates(b)
		if tr.Root != nil {
			b.Set(common.Hasher(tr.Root), []byte{0x54, 0x45})
		}
		b.Flush()
	}

	for {
		st, idx := x.Next(gen)
		if st == nil || x.Failed() {
			break
		}
		switch st.Op {
		case "batch":
			if _, ok := applyBatch(st, idx); !ok {
				break
			}
			// reads before commit see the last write
			if !checkAll(tr, model, "after-update", idx) {
				break
			}
			commit()
			committedRoot = append([]byte{}, tr.Root...)
			if len(tr.Root) == 0 {
				committedRoot = nil
			}
			committedModel = cloneModel(model)
			history = append(history, hist{committedRoot, committedModel})
			if !checkAll(tr, model, "after-commit", idx) {
				break
			}
			// history independence
			fr, err := freshRoot(keys, model, 1, nil, limit)
			if err != nil {
				x.Fail("C10", "fresh-error", "fresh", err.Error(), idx)
				break
			}
			if !bytes.Equal(fr, committedRoot) {
				x.Fail("C10", "history-dependent-root", "single-batch", fmt.Sprintf("root %x after history differs from root %x of a fresh trie with the same %d pairs", committedRoot, fr, len(model)), idx)
				break
			}
			fr2, err := freshRoot(keys, model, 3, simkit.NewRng(simkit.Mix(x.Case.Seed, uint64(idx))), limit)
			if err != nil || !bytes.Equal(fr2, committedRoot) {
				x.Fail("C10", "history-dependent-root", "random-batching", fmt.Sprintf("root %x differs from root %x of a fresh trie built in random sub-batches (err=%v)", committedRoot, fr2, err), idx)
				break
			}
			x.Digest(len(model), fmt.Sprintf("%x", committedRoot))
		case "crashbatch":
			if _, ok := applyBatch(st, idx); !ok {
				break
			}
			x.Fault("crash-in-commit")
			units := disk.Units()
			disk.Arm(units+st.A%maxInt(1, chunkUnits(chunk)), st.B)
			died := false
			func() {
				defer func() {
					if r := recover(); r != nil {
						if _, ok := r.(simdisk.Crash); ok {
							died = true
							return
						}
						panic(r)
					}
				}()
				commit()
			}()
			if died {
				x.Probe("died-in-commit")
				disk.RebuildAt(disk.Units(), 0) // journal already holds exactly what reached the disk
				model = cloneModel(committedModel)
				var err error
				tr, err = open(committedRoot, st.A%2 == 0)
				if err != nil {
					x.Fail("C10", "reopen-error", "after-crash", err.Error(), idx)
					break
				}
				checkAll(tr, model, "after-crash-reopen", idx)
			} else {
				disk.Disarm()
				committedRoot = append([]byte{}, tr.Root...)
				if len(tr.Root) == 0 {
					committedRoot = nil
				}
				committedModel = cloneModel(model)
				history = append(history, hist{committedRoot, committedModel})
				checkAll(tr, model, "after-commit", idx)
			}
		case "reopen":
			x.Fault("restart")
			var err error
			tr, err = open(committedRoot, st.A == 1)
			if err != nil {
				x.Fail("C10", "reopen-error", "reopen", err.Error(), idx)
				break
			}
			model = cloneModel(committedModel)
			checkAll(tr, model, "after-reopen", idx)
		case "hist":
			if len(history) == 0 {
				x.Noop()
				break
			}
			h := history[st.A%len(history)]
			t2, err := open(h.root, false)
			if err != nil {
				x.Fail("C10", "reopen-error", "historical", err.Error(), idx)
				break
			}
			x.Probe("historical-root-read")
			checkAll(t2, h.model, "historical-root", idx)
		default:
			x.Noop()
		}
	}
	// every historical root must still answer its own snapshot at the end
	if !x.Failed() {
		for i, h := range history {
			if i%3 != 0 && i != len(history)-1 {
				continue
			}
			t2, err := open(h.root, false)
			if err != nil {
				x.Fail("C10", "reopen-error", "historical-final", err.Error(), len(x.Case.Steps)-1)
				break
			}
			if !checkAll(t2, h.model, "historical-root-final", len(x.Case.Steps)-1) {
				break
			}
		}
	}
	x.Count("pairs-scheduled", simgo.Pairs)
	simgo.Pairs = 0
	x.Count("disk-units", int64(disk.Units()))
}

func chunkUnits(chunk int) int {
	if chunk <= 0 {
		return 1
	}
	return 6
}

func maxInt(a, b int) int {
	if a > b {
		return a
	}
	return b
}

func genBatch(r *simkit.Rng, nkeys, delpct int, nextVal *int64) []simkit.Step {
	n := 1 + r.Intn(maxInt(1, nkeys))
	if r.Chance(1, 3) {
		n = 1 + r.Intn(3)
	}
	var out []simkit.Step
	for i := 0; i < n; i++ {
		k := r.Intn(nkeys)
		if r.Intn(100) < delpct {
			out = append(out, simkit.Step{Op: "del", A: k})
		} else {
			out = append(out, simkit.Step{Op: "put", A: k, V: *nextVal})
			*nextVal++
		}
	}
	return out
}

func init() {
	simkit.Register("store-trie", func(scratch string, t *testing.T) simkit.World { return &C10{Scratch: scratch} })
	simkit.Register("store-proof", func(scratch string, t *testing.T) simkit.World { return &C11{Scratch: scratch} })
	simkit.Register("store-snap", func(scratch string, t *testing.T) simkit.World { return &C12{Scratch: scratch} })
}
