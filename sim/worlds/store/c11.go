package store

import (
	"bytes"
	"fmt"
	"math/big"
	"os"

	"github.com/aergoio/aergo/v2/internal/common"
	"github.com/aergoio/aergo/v2/internal/enc/proto"
	"github.com/aergoio/aergo/v2/pkg/trie"
	"github.com/aergoio/aergo/v2/state"
	"github.com/aergoio/aergo/v2/state/statedb"
	"github.com/aergoio/aergo/v2/types"
	"github.com/aergoio/aergo/v2/zz_verif/simdisk"
	"github.com/aergoio/aergo/v2/zz_verif/simkit"
)

// C11 — Merkle proofs: a full node (real StateDB over the simulated disk) serves
// account and contract-variable proofs for current and historical roots to a light
// client that only holds roots; the channel between them corrupts or transplants
// proofs. Oracle: honest proofs are accepted by the repo verifier and by an
// independent one; nothing that is false in the model is ever accepted.
type C11 struct{ Scratch string }

func (w *C11) Name() string    { return "store-proof" }
func (w *C11) Props() []string { return []string{"C11"} }

// proofMsg is the wire form shared by account and variable proofs.
type proofMsg struct {
	Inclusion bool
	Value     []byte // 32-byte trie value claimed for the key (hash of state / of raw value)
	ProofKey  []byte
	ProofVal  []byte
	Bitmap    []byte
	Height    int
	AP        [][]byte
	Comp      bool
}

func bit(b []byte, i int) bool { return b[i/8]&(1<<uint(7-i%8)) != 0 }

// indepVerify recomputes the root from the construction: a leaf H(key,value,height)
// (or the default leaf) at depth d below the root, folded with d siblings chosen by the
// key bits, top bit last. Returns nil when the proof is structurally unusable.
func indepRoot(key, leaf []byte, sib func(level int) []byte, depth int) []byte {
	if depth < 0 || depth > 256 {
		return nil
	}
	h := leaf
	for lvl := depth - 1; lvl >= 0; lvl-- {
		s := sib(lvl)
		if s == nil {
			return nil
		}
		if bit(key, lvl) {
			h = common.Hasher(s, h)
		} else {
			h = common.Hasher(h, s)
		}
	}
	return h
}

func indepAccept(root, key []byte, p *proofMsg) bool {
	var depth int
	var sib func(int) []byte
	if p.Comp {
		depth = p.Height
		if depth < 0 || depth > 256 || len(p.Bitmap)*8 < depth {
			return false
		}
		// bitmap bit i (deepest first) says whether sibling i is explicit
		pos := make([]int, depth)
		n := 0
		for i := 0; i < depth; i++ {
			if bit(p.Bitmap, i) {
				pos[i] = n
				n++
			} else {
				pos[i] = -1
			}
		}
		if n != len(p.AP) {
			return false
		}
		sib = func(lvl int) []byte {
			i := depth - 1 - lvl
			if pos[i] < 0 {
				return trie.DefaultLeaf
			}
			return p.AP[pos[i]]
		}
	} else {
		depth = len(p.AP)
		sib = func(lvl int) []byte { return p.AP[depth-1-lvl] }
	}
	if depth > 256 {
		return false
	}
	leafOf := func(k, v []byte) []byte { return common.Hasher(k, v, []byte{byte(256 - depth)}) }
	if p.Inclusion {
		return bytes.Equal(root, indepRoot(key, leafOf(key, p.Value), sib, depth))
	}
	if len(p.ProofKey) == 0 {
		return bytes.Equal(root, indepRoot(key, trie.DefaultLeaf, sib, depth))
	}
	if len(p.ProofKey) != 32 || bytes.Equal(p.ProofKey, key) {
		return false
	}
	for b := 0; b < depth; b++ {
		if bit(key, b) != bit(p.ProofKey, b) {
			return false
		}
	}
	return bytes.Equal(root, indepRoot(p.ProofKey, leafOf(p.ProofKey, p.ProofVal), sib, depth))
}

// repoAccept asks the repository's own verifier functions.
func repoAccept(root, key []byte, p *proofMsg) (ok bool, panicked bool) {
	defer func() {
		if r := recover(); r != nil {
			ok, panicked = false, true
		}
	}()
	t := trie.NewTrie(root, common.Hasher, nil)
	if p.Inclusion {
		if p.Comp {
			return t.VerifyInclusionC(p.Bitmap, key, p.Value, p.AP, p.Height), false
		}
		return t.VerifyInclusion(p.AP, key, p.Value), false
	}
	if p.Comp {
		return t.VerifyNonInclusionC(p.AP, p.Height, p.Bitmap, key, p.ProofVal, p.ProofKey), false
	}
	return t.VerifyNonInclusion(p.AP, key, p.ProofVal, p.ProofKey), false
}

func stateHash(st *types.State) []byte {
	b, _ := proto.Encode(st)
	return common.Hasher(b)
}

func cloneProof(p *proofMsg) *proofMsg {
	q := *p
	q.Value = append([]byte{}, p.Value...)
	q.ProofKey = append([]byte{}, p.ProofKey...)
	q.ProofVal = append([]byte{}, p.ProofVal...)
	q.Bitmap = append([]byte{}, p.Bitmap...)
	q.AP = nil
	for _, a := range p.AP {
		q.AP = append(q.AP, append([]byte{}, a...))
	}
	return &q
}

func (w *C11) Run(x *simkit.Ctx) {
	nA := x.CfgInt("accounts", func(r *simkit.Rng) int { return []int{1, 2, 3, 5, 8, 16, 40}[r.Intn(7)] })
	nC := x.CfgInt("contracts", func(r *simkit.Rng) int { return r.Range(1, 3) })
	nK := x.CfgInt("keys", func(r *simkit.Rng) int { return []int{1, 2, 3, 6, 12}[r.Intn(5)] })
	nsteps := x.CfgInt("steps", func(r *simkit.Rng) int {
		if x.Case.Tier == "thorough" {
			return r.Range(20, 150)
		}
		return r.Range(10, 60)
	})
	disk := simdisk.New(fmt.Sprintf("%s/c11-%d", w.Scratch, os.Getpid()))
	defer disk.Unregister()
	store := disk.Store("state")
	bs := state.NewBlockState(statedb.NewStateDB(store, nil, false))

	type hist struct {
		root []byte
		m    *mState
		sroot map[int][]byte
	}
	var history []hist
	work := &mState{acct: map[int]mAcct{}, stor: map[int]map[int]string{}}
	var valSeq int64 = 1
	dirty := false
	var longSrv *statedb.StateDB
	var longRoot []byte

	varKey := func(k int) []byte { h := types.GetHashID(skey(k)); return h[:] }
	acctKey := func(a int) []byte { h := types.ToAccountID(acctID(a)); return h[:] }
	ctrKey := func(c int) []byte { h := types.ToAccountID(ctrID(c)); return h[:] }

	gen := func(r *simkit.Rng) *simkit.Step {
		n := len(x.Case.Steps)
		if n >= nsteps {
			return nil
		}
		if len(history) == 0 || (n < 6 && r.Chance(2, 3)) || r.Chance(1, 8) {
			switch r.Pick(3, 3, 2) {
			case 0:
				return &simkit.Step{Op: "put", A: r.Intn(nA), V: int64(1 + r.Intn(1000)), B: r.Intn(50)}
			case 1:
				var xs []simkit.Step
				for i := r.Range(1, 4); i > 0; i-- {
					if r.Chance(1, 4) {
						xs = append(xs, simkit.Step{Op: "del", A: r.Intn(nK)})
					} else {
						xs = append(xs, simkit.Step{Op: "set", A: r.Intn(nK), V: valSeq})
						valSeq++
					}
				}
				return &simkit.Step{Op: "session", A: r.Intn(nC), X: xs}
			}
			return &simkit.Step{Op: "commit"}
		}
		// query: K[0]=kind(0 acct,1 contract-acct,2 var) K[1]=target (may be out of range = absent)
		// K[2]=root index (-1 = latest) K[3]=compressed K[4]=mutation kind K[5..]=mutation args
		kind := r.Pick(3, 1, 4)
		tgt := 0
		switch kind {
		case 0:
			tgt = r.Intn(nA + 3)
		case 1:
			tgt = r.Intn(nC + 1)
		case 2:
			tgt = r.Intn(nC)*100 + r.Intn(nK+3)
		}
		ri := -1
		if r.Chance(1, 2) {
			ri = r.Intn(len(history))
		}
		// K[7] = who answers: 0 a fresh instance opened on the store (a restart between queries), 1 one
		// long-lived instance that answers every query since the last commit, 2 the working state itself
		// (it may hold writes that are not committed yet: they must not leak into a proof)
		// K[8] = 1: before the client verifies, the same server answers further queries (a multi-key request)
		return &simkit.Step{Op: "q", K: []int{kind, tgt, ri, r.Intn(2), r.Pick(3, 2, 2, 2, 2, 2, 2, 2, 2, 2, 3), r.Intn(1 << 16), r.Intn(1 << 16), r.Pick(2, 1, 1), r.Pick(2, 1)}}
	}

	for {
		st, idx := x.Next(gen)
		if st == nil || x.Failed() {
			break
		}
		switch st.Op {
		case "put":
			a := st.A % nA
			as, _ := state.GetAccountState(acctID(a), bs.StateDB)
			cur := as.Balance().Int64()
			if st.V >= cur {
				as.AddBalance(big.NewInt(st.V - cur))
			} else {
				as.SubBalance(big.NewInt(cur - st.V))
			}
			as.SetNonce(uint64(st.B))
			_ = as.PutState()
			work.acct[a] = mAcct{bal: st.V, nonce: int64(st.B), exists: true}
			dirty = true
		case "session":
			c := st.A % nC
			h, _ := statedb.OpenContractStateAccount(ctrID(c), bs.StateDB)
			if work.stor[c] == nil {
				work.stor[c] = map[int]string{}
			}
			for _, s := range st.X {
				if s.Op == "set" {
					v := fmt.Sprintf("v%d", s.V)
					_ = h.SetData(skey(s.A%nK), []byte(v))
					work.stor[c][s.A%nK] = v
				} else {
					_ = h.DeleteData(skey(s.A % nK))
					delete(work.stor[c], s.A%nK)
				}
			}
			_ = statedb.StageContractState(h, bs.StateDB)
			dirty = true
		case "commit":
			if !dirty && len(history) > 0 {
				x.Noop()
				break
			}
			if err := bs.Update(); err != nil {
				x.Fail("C11", "update-error", "commit", err.Error(), idx)
				break
			}
			_ = bs.Commit()
			root := append([]byte{}, bs.GetRoot()...)
			if len(root) == 0 {
				x.Noop()
				break
			}
			sroots := map[int][]byte{}
			nb := state.NewBlockState(statedb.NewStateDB(store, root, false))
			for c := 0; c < nC; c++ {
				as, _ := nb.GetAccountState(types.ToAccountID(ctrID(c)))
				sroots[c] = append([]byte{}, as.GetStorageRoot()...)
			}
			history = append(history, hist{root, work.clone(), sroots})
			bs = nb
			dirty = false
			x.Digest(fmt.Sprintf("%x", root))
		case "q":
			if len(history) == 0 || len(st.K) < 7 {
				x.Noop()
				break
			}
			kind, tgt, ri, comp, mut, m1, m2 := st.K[0], st.K[1], st.K[2], st.K[3] == 1, st.K[4], st.K[5], st.K[6]
			cur := history[len(history)-1]
			h := cur
			var reqRoot []byte // what the client puts in the request (nil = latest)
			if ri >= 0 {
				h = history[ri%len(history)]
				reqRoot = h.root
				x.Probe("historical-root-query")
			}
			// the server is a fresh instance over the store at the current root (restart between queries),
			// a long-lived one, or the working state
			srv := statedb.NewStateDB(store, cur.root, false)
			srvMode, decoy := 0, false
			if len(st.K) >= 9 {
				srvMode, decoy = st.K[7], st.K[8] == 1
			}
			switch srvMode {
			case 1:
				if longSrv == nil || !bytes.Equal(longRoot, cur.root) {
					longSrv, longRoot = statedb.NewStateDB(store, cur.root, false), cur.root
				}
				srv = longSrv
				x.Probe("long-lived-server")
			case 2:
				srv = bs.StateDB
				if dirty {
					x.Probe("query-while-writes-pending")
				}
			}
			var key, trustRoot []byte
			var wantVal []byte // trie value the model says the key has at the trusted root (nil = absent)
			otherVal := simkit.Key32("other", m1)
			var p *proofMsg
			switch kind {
			case 0, 1:
				trustRoot = h.root
				var ap *types.AccountProof
				var err error
				if kind == 0 {
					key = acctKey(tgt)
					if ma, ok := h.m.acct[tgt]; ok && ma.exists {
						// value is determined by the server's state; checked against the model below
						_ = ma
					}
				} else {
					key = ctrKey(tgt)
				}
				ap, err = srv.GetAccountAndProof(key, reqRoot, comp)
				if err != nil {
					x.Fail("C11", "proof-generation-error", "account", err.Error(), idx)
					break
				}
				p = &proofMsg{Inclusion: ap.Inclusion, ProofKey: ap.ProofKey, ProofVal: ap.ProofVal, Bitmap: ap.Bitmap, Height: int(ap.Height), AP: ap.AuditPath, Comp: comp}
				if ap.Inclusion {
					p.Value = stateHash(ap.State)
				}
				// model truth
				if kind == 0 {
					if ma, ok := h.m.acct[tgt]; ok && ma.exists {
						if !ap.Inclusion || ap.State.GetBalanceBigInt().Int64() != ma.bal || int64(ap.State.Nonce) != ma.nonce {
							x.Fail("C11", "honest-proof-wrong-content", "account", fmt.Sprintf("account %d: proof inclusion=%v state=%v, model balance=%d nonce=%d", tgt, ap.Inclusion, ap.State, ma.bal, ma.nonce), idx)
							break
						}
						wantVal = p.Value
					} else if ap.Inclusion {
						x.Fail("C11", "honest-proof-wrong-content", "account", fmt.Sprintf("account %d absent in the model but proof says included", tgt), idx)
						break
					}
				} else {
					exists := len(h.sroot[tgt]) > 0
					if tgt >= nC {
						exists = false
					}
					if ap.Inclusion {
						wantVal = p.Value
						if tgt < nC && !bytes.Equal(ap.State.GetStorageRoot(), h.sroot[tgt]) {
							x.Fail("C11", "honest-proof-wrong-content", "contract-account", "storage root in proof differs from the committed one", idx)
							break
						}
					} else if exists {
						x.Fail("C11", "honest-proof-wrong-content", "contract-account", "contract with storage reported as absent", idx)
						break
					}
				}
			case 2:
				c, k := (tgt/100)%nC, tgt%100
				sroot := h.sroot[c]
				if len(sroot) == 0 {
					x.Noop() // contract without storage: nothing to prove against (DESIGN C11 note)
					break
				}
				trustRoot = sroot
				key = varKey(k)
				vp, err := srv.GetVarAndProof(key, sroot, comp)
				if err != nil {
					x.Fail("C11", "proof-generation-error", "var", err.Error(), idx)
					break
				}
				p = &proofMsg{Inclusion: vp.Inclusion, ProofKey: vp.ProofKey, ProofVal: vp.ProofVal, Bitmap: vp.Bitmap, Height: int(vp.Height), AP: vp.AuditPath, Comp: comp}
				mv := h.m.stor[c][k]
				if vp.Inclusion {
					p.Value = common.Hasher(vp.Value)
					if string(vp.Value) != mv {
						x.Fail("C11", "honest-proof-wrong-content", "var", fmt.Sprintf("contract %d key %d: proof value %q, model %q", c, k, vp.Value, mv), idx)
						break
					}
					wantVal = p.Value
				} else if mv != "" {
					x.Fail("C11", "honest-proof-wrong-content", "var", fmt.Sprintf("contract %d key %d holds %q but proof says absent", c, k, mv), idx)
					break
				}
			}
			if p == nil || x.Failed() {
				break
			}
			if decoy {
				// the rest of a multi-key request, answered by the same server before the client looks
				// at the first proof: what was handed out must not change under the client
				x.Probe("further-queries-before-verification")
				for i := 0; i < 3; i++ {
					_, _ = srv.GetAccountAndProof(acctKey((tgt+1+i+m1)%(nA+3)), reqRoot, i%2 == 0)
					for c := 0; c < nC; c++ {
						if sr := h.sroot[c]; len(sr) > 0 {
							_, _ = srv.GetVarAndProof(varKey((m2+i)%(nK+3)), sr, i%2 == 1)
						}
					}
				}
			}
			// 1. completeness: the honest proof is accepted by both verifiers
			okRepo, pan := repoAccept(trustRoot, key, p)
			okInd := indepAccept(trustRoot, key, p)
			if !okRepo || !okInd || pan {
				x.Fail("C11", "honest-proof-rejected", fmt.Sprintf("kind%d-comp%v-incl%v", kind, comp, p.Inclusion),
					fmt.Sprintf("honest proof rejected: repo=%v indep=%v panic=%v key=%x root=%x", okRepo, okInd, pan, key[:4], trustRoot[:4]), idx)
				break
			}
			if p.Inclusion {
				x.Probe("inclusion-proof")
			} else if len(p.ProofKey) == 0 {
				x.Probe("absence-empty-subtree")
			} else {
				x.Probe("absence-foreign-leaf")
			}
			if mut == 0 {
				break
			}
			// 2. soundness: corrupt / transplant, then nothing false may be accepted
			x.Fault("proof-corruption")
			q := cloneProof(p)
			ckey := key
			croot := trustRoot
			name := ""
			switch mut {
			case 1: // audit path element bit flip
				if len(q.AP) == 0 {
					name = "noop"
					break
				}
				i := m1 % len(q.AP)
				if len(q.AP[i]) > 0 {
					q.AP[i][m2%len(q.AP[i])] ^= 1 << uint(m2%8)
				}
				name = "ap-flip"
			case 2: // drop / duplicate / swap an element
				if len(q.AP) == 0 {
					name = "noop"
					break
				}
				i := m1 % len(q.AP)
				switch m2 % 3 {
				case 0:
					q.AP = append(q.AP[:i:i], q.AP[i+1:]...)
				case 1:
					q.AP = append(q.AP[:i+1], q.AP[i:]...)
				default:
					j := m2 % len(q.AP)
					q.AP[i], q.AP[j] = q.AP[j], q.AP[i]
				}
				name = "ap-shape"
			case 3: // bitmap bit / height
				if comp && len(q.Bitmap) > 0 && m2%2 == 0 {
					q.Bitmap[m1%len(q.Bitmap)] ^= 1 << uint(m2%8)
				} else {
					q.Height += []int{1, -1, 2, 8}[m1%4]
				}
				name = "bitmap-height"
			case 4: // transplant to another key (the client asked for a different key)
				switch kind {
				case 0:
					ckey = acctKey((tgt + 1 + m1%(nA+2)) % (nA + 3))
				case 1:
					ckey = ctrKey((tgt + 1) % (nC + 1))
				default:
					ckey = varKey((tgt%100 + 1 + m1%(nK+2)) % (nK + 3))
				}
				name = "other-key"
			case 5: // value changed
				if q.Inclusion {
					q.Value = otherVal
				} else {
					q.ProofVal = otherVal
				}
				name = "other-value"
			case 6: // inclusion flag flipped
				q.Inclusion = !q.Inclusion
				if q.Inclusion {
					q.Value = otherVal
					if len(p.ProofVal) > 0 && m1%2 == 0 {
						q.Value = p.ProofVal
					}
				}
				name = "flag-flip"
			case 7: // proof key changed
				if len(q.ProofKey) > 0 {
					q.ProofKey[m1%len(q.ProofKey)] ^= 1 << uint(m2%8)
				} else {
					q.ProofKey = simkit.Key32("pk", m1)
					q.ProofVal = otherVal
				}
				name = "proofkey"
			case 8: // transplant to another root (client trusts a different root)
				o := history[m1%len(history)]
				if kind == 2 {
					croot = o.sroot[(tgt/100)%nC]
				} else {
					croot = o.root
				}
				if len(croot) == 0 || bytes.Equal(croot, trustRoot) {
					name = "noop"
					break
				}
				name = "other-root"
			case 9: // other encoding flag: plain proof read as compressed and vice versa
				q.Comp = !q.Comp
				if q.Comp {
					q.Height = len(q.AP)
					q.Bitmap = make([]byte, len(q.AP)/8+1)
					for i := range q.AP {
						q.Bitmap[i/8] |= 1 << uint(7-i%8)
					}
				}
				name = "encoding"
			case 10: // a server that owns a valid inclusion proof claims absence with it
				if !p.Inclusion {
					name = "noop"
					break
				}
				q.Inclusion = false
				q.ProofKey = append([]byte{}, key...)
				q.ProofVal = append([]byte{}, p.Value...)
				name = "absence-from-inclusion"
			}
			if name == "noop" || name == "" {
				x.Noop()
				break
			}
			x.Count("mut."+name, 1)
			// what does the (possibly corrupted) proof claim, and is that true in the model at croot?
			truth := func() (present bool, val []byte) {
				// find the history entry the client trusts
				for _, hh := range history {
					if kind == 2 {
						c := (tgt / 100) % nC
						if bytes.Equal(hh.sroot[c], croot) {
							for k := 0; k < nK+3; k++ {
								if bytes.Equal(varKey(k), ckey) {
									if v := hh.m.stor[c][k]; v != "" {
										return true, common.Hasher([]byte(v))
									}
								}
							}
							return false, nil
						}
					} else if bytes.Equal(hh.root, croot) {
						s := statedb.NewStateDB(store, hh.root, false)
						var id types.AccountID
						copy(id[:], ckey)
						stt, _ := s.GetState(id)
						if stt != nil {
							return true, stateHash(stt)
						}
						return false, nil
					}
				}
				return false, nil
			}
			present, val := truth()
			claimTrue := (q.Inclusion && present && bytes.Equal(val, q.Value)) || (!q.Inclusion && !present)
			acc, pan2 := repoAccept(croot, ckey, q)
			if pan2 {
				x.Probe("verifier-panic-on-malformed")
			}
			if acc && !claimTrue {
				x.Fail("C11", "forged-proof-accepted", name, fmt.Sprintf("repo verifier accepted a %s proof claiming inclusion=%v for key %x.. although the model says present=%v (kind=%d comp=%v)", name, q.Inclusion, ckey[:4], present, kind, q.Comp), idx)
				break
			}
			if indepAccept(croot, ckey, q) && !claimTrue {
				panic("harness defect: independent verifier accepted a false claim after mutation " + name)
			}
			_ = wantVal
		default:
			x.Noop()
		}
	}
}
