// Package worlds links every world package (each registers itself with simkit.Register).
package worlds

import (
	"testing"

	"github.com/aergoio/aergo/v2/zz_verif/simkit"
	_ "github.com/aergoio/aergo/v2/zz_verif/worlds/chainw"
	_ "github.com/aergoio/aergo/v2/zz_verif/worlds/dposw"
	_ "github.com/aergoio/aergo/v2/zz_verif/worlds/elect"
	_ "github.com/aergoio/aergo/v2/zz_verif/worlds/exec"
	_ "github.com/aergoio/aergo/v2/zz_verif/worlds/gov"
	_ "github.com/aergoio/aergo/v2/zz_verif/worlds/pool"
	_ "github.com/aergoio/aergo/v2/zz_verif/worlds/raftw"
	_ "github.com/aergoio/aergo/v2/zz_verif/worlds/store"
	_ "github.com/aergoio/aergo/v2/zz_verif/worlds/syncw"
	_ "github.com/aergoio/aergo/v2/zz_verif/worlds/wire"
)

func Get(name, scratch string, t *testing.T) simkit.World {
	if c := simkit.Lookup(name); c != nil {
		return c(scratch, t)
	}
	return nil
}
