// Package worlds maps world names to implementations.
package worlds

import (
	"testing"

	"github.com/aergoio/aergo/v2/zz_verif/simkit"
	"github.com/aergoio/aergo/v2/zz_verif/worlds/chainw"
	"github.com/aergoio/aergo/v2/zz_verif/worlds/exec"
	"github.com/aergoio/aergo/v2/zz_verif/worlds/store"
)

func Get(name, scratch string, m *testing.M) simkit.World {
	switch name {
	case "store-trie":
		return &store.C10{Scratch: scratch}
	case "chain":
		return &chainw.World{Scratch: scratch}
	case "exec":
		return &exec.World{Scratch: scratch}
	case "store-proof":
		return &store.C11{Scratch: scratch}
	case "store-snap":
		return &store.C12{Scratch: scratch}
	}
	return nil
}
